#!/bin/bash
# Full clean build of the Coq development (all .vo, no -vos), offline.
set -e
here="$(cd "$(dirname "$0")" && pwd)"
cd "$here"
mkdir -p .work evidence replays
find coq -name '*.vo' -o -name '*.vok' -o -name '*.vos' -o -name '*.glob' -o -name '.*.aux' | xargs -r rm -f
rm -f coq/Makefile coq/Makefile.conf coq/.Makefile.d coq/_CoqProject
PYTHONPATH="$here" /venv/bin/python - <<'PY'
from harness import coqrun
ok, log = coqrun.build()
print(log[-3000:])
hits = coqrun.forbidden_scan()
if hits:
    print('FORBIDDEN:', hits)
raise SystemExit(0 if ok and not hits else 1)
PY
