"""Driver for C06: feeds one generated command (all its physical lines) to a
real in-process pymap connection under a watchdog and classifies what the
server did.  Imports pymap only through harness.pymap_env.

Feeding protocol (what a well-behaved client does): the input is cut into
physical lines (at LF); a line is sent, the server runs until it blocks on
input again; the next line is sent only while the server has not yet produced
a tagged/untagged completion, i.e. while it is silent (it is in the middle of
a non-synchronizing literal or of continuation data) or has just written a
continuation request `+ ...`.  Bytes left over once the command is answered
are never sent.
"""
from __future__ import annotations

import asyncio
import re
import signal
import time

from .pymap_env import DictEnv, Conn


class Hang(BaseException):
    """Raised by the watchdog inside whatever code is running."""


CPU_BUDGET = 3.0      # seconds of process CPU time per step
STEP_WALL = 2.0       # seconds the event loop may sit idle while the server owes an answer
WALL_BUDGET = 30      # seconds wall clock per step (SIGALRM)


def _on_alarm(signum, frame):
    raise Hang(f'watchdog signal {signum}')


def install_watchdog() -> None:
    signal.signal(signal.SIGVTALRM, _on_alarm)
    signal.signal(signal.SIGALRM, _on_alarm)


class Watch:
    """with Watch(): ... — raises Hang inside the block when it exceeds the
    CPU or the wall budget."""

    def __init__(self, cpu: float = CPU_BUDGET, wall: int = WALL_BUDGET) -> None:
        self.cpu, self.wall = cpu, wall

    def __enter__(self):
        signal.setitimer(signal.ITIMER_VIRTUAL, self.cpu)
        signal.alarm(self.wall)
        return self

    def __exit__(self, *a):
        signal.setitimer(signal.ITIMER_VIRTUAL, 0)
        signal.alarm(0)
        return False


_LIT_PLUS = re.compile(rb'\{(\d+)\+\}\r?\n$')
_LIT_SYNC = re.compile(rb'\{(\d+)\}\r?\n$')


def next_chunk(data: bytes, pos: int, need: int) -> int | None:
    """End offset of the next unit the server reads in one go: `need` literal
    bytes, then one line in the sense of IMAPConnection.readline (a line whose
    end is `{n+}` CRLF is glued to the n bytes and the line that follow).
    None when `data` does not contain a complete unit (the fake transport must
    never be left with a partial unit, see pymap_env.Conn._until_starved)."""
    if len(data) - pos < need:
        return None
    line_start = pos + need
    end = line_start
    while True:
        i = data.find(b'\n', end)
        if i < 0:
            return None
        end = i + 1
        m = _LIT_PLUS.search(data, line_start, end)
        if not m:
            return end
        try:
            n = int(m.group(1))
        except ValueError:
            return end          # the server's int() raises as well
        if len(data) - end < n:
            return None
        end += n
        line_start = end        # the marker is looked for in the fresh line only


def sync_literal_length(chunk: bytes) -> int | None:
    m = _LIT_SYNC.search(chunk)
    if not m:
        return None
    try:
        return int(m.group(1))
    except ValueError:
        return None


async def send_step(conn: Conn, data: bytes) -> tuple[bytes, bool]:
    """conn.send with stall detection: (output, stalled).  The server runs in
    this event loop; when the loop has been idle for STEP_WALL seconds and the
    connection task neither reads input nor has finished, it is waiting for
    something that is not the client (a lock, an event): it will never answer."""
    task = asyncio.ensure_future(conn.send(data))
    done, _pending = await asyncio.wait({task}, timeout=STEP_WALL)
    if not done:
        for _ in range(50):
            await asyncio.sleep(0)
            if task.done():
                break
    if task.done():
        return task.result(), False
    task.cancel()
    try:
        await task
    except BaseException:  # noqa
        pass
    return conn.take(), True


_RESP_LINE = re.compile(rb'([^\r\n]*)\r\n')
_LITERAL = re.compile(rb'\{(\d+)\}$')


def split_responses(out: bytes) -> list[bytes]:
    """Server output -> response lines; a line ending in {n} swallows the
    n literal bytes that follow (FETCH data may contain CRLF)."""
    res = []
    pos = 0
    n = len(out)
    while pos < n:
        start = pos
        while True:
            i = out.find(b'\r\n', pos)
            if i < 0:
                res.append(out[start:])
                return res
            m = _LITERAL.search(out, start, i)
            pos = i + 2
            if m and m.end() == i:
                pos += int(m.group(1))
                if pos > n:
                    res.append(out[start:])
                    return res
                continue
            break
        res.append(out[start:pos])
    return res


class Outcome:
    """What the server did with one command."""

    __slots__ = ('out', 'conts', 'tagged', 'closed', 'bye', 'serverbug', 'exc', 'hang',
                 'sent', 'unsent', 'pending', 'other_ok', 'wall', 'cont_texts', 'truncated', 'units',
                 'last_silent', 'site', 'stalled')

    def __init__(self) -> None:
        self.out = b''
        self.conts = 0              # continuation requests written
        self.cont_texts: list[bytes] = []
        self.tagged: tuple[bytes, bytes] | None = None   # (tag, condition) of the last tagged completion
        self.closed = False
        self.bye = False
        self.serverbug = False
        self.exc: str | None = None
        self.hang = False
        self.sent = 0               # units sent
        self.unsent = 0             # bytes held back
        self.truncated = False      # the input ended inside a unit
        self.units: list[bytes] = []   # the units sent, in order
        self.last_silent = False    # the last unit sent drew no output at all
        self.site = ''              # last pymap frame of the escaped exception
        self.stalled = False        # the server owes an answer and waits for something else
        self.pending = False        # server still waits for input of this command
        self.other_ok: bool | None = None
        self.wall = 0.0

    def cls(self) -> tuple:
        """Outcome class compared with the model."""
        cond = self.tagged[1] if self.tagged else None
        return (cond, self.conts, self.closed, self.bye, self.serverbug, self.exc, self.pending)

    def as_dict(self) -> dict:
        return {'out': self.out[-600:].decode('latin-1'), 'conts': self.conts,
                'tagged': [x.decode('latin-1') for x in self.tagged] if self.tagged else None,
                'closed': self.closed, 'bye': self.bye, 'serverbug': self.serverbug,
                'exc': self.exc, 'hang': self.hang, 'sent': self.sent, 'unsent': self.unsent,
                'pending': self.pending, 'other_ok': self.other_ok,
                'truncated': self.truncated, 'site': self.site, 'stalled': self.stalled,
                'units': [u[:200].decode('latin-1') for u in self.units]}


_TAGGED = re.compile(rb'^(\S+) (OK|NO|BAD)(?: |$)')


def scan(outcome: Outcome, chunk: bytes) -> bool:
    """Account for the response lines in `chunk`; True when a completion
    (tagged result or BYE) was seen, False when only continuation requests
    (or nothing) were written."""
    done = False
    for ln in split_responses(chunk):
        if ln.startswith(b'+ ') or ln == b'+\r\n':
            outcome.conts += 1
            outcome.cont_texts.append(ln[2:].rstrip(b'\r\n'))
            continue
        if ln.startswith(b'* BYE'):
            outcome.bye = True
            done = True
        if b'[SERVERBUG]' in ln:
            outcome.serverbug = True
        if ln.startswith(b'* '):
            if ln.startswith(b'* BAD') or ln.startswith(b'* NO '):
                # untagged BAD is the completion of a line whose tag did not parse
                m = _TAGGED.match(ln)
                if m and ln.startswith(b'* BAD'):
                    outcome.tagged = (b'*', b'BAD')
                    done = True
            continue
        m = _TAGGED.match(ln)
        if m:
            outcome.tagged = (m.group(1), m.group(2))
            done = True
    return done


async def feed(conn: Conn, data: bytes, other: Conn | None = None, probe_other: bool = False,
               eof_if_truncated: bool = False) -> Outcome:
    """Send one command's bytes unit by unit; stop at the completion."""
    o = Outcome()
    t0 = time.time()
    pos = 0
    need = 0
    try:
        while pos < len(data):
            end = next_chunk(data, pos, need)
            if end is None:
                # the rest is not a complete unit: a client that stops here.
                o.truncated = True
                if eof_if_truncated:
                    conn.feed_nowait(data[pos:])
                    with Watch():
                        o.out += await conn.send_eof()
                    scan(o, o.out)
                break
            with Watch():
                chunk, stalled = await send_step(conn, data[pos:end])
            if stalled:
                o.stalled = True
                o.out += chunk
                o.units.append(data[pos:end])
                o.sent += 1
                pos = end
                scan(o, chunk)
                break
            sent = data[pos:end]
            pos = end
            o.sent += 1
            o.units.append(sent)
            o.last_silent = not chunk
            o.out += chunk
            done = scan(o, chunk)
            if conn.closed or done:
                break
            if chunk:
                # a continuation request: how many literal bytes come first?
                n = sync_literal_length(sent) if o.cont_texts and o.cont_texts[-1] == b'Literal string' else 0
                need = n or 0
                if other is not None and probe_other and o.other_ok is None:
                    # the first connection waits inside a continuation: the
                    # second one must still be served
                    o.other_ok = await probe(other)
            else:
                need = 0
    except Hang:
        o.hang = True
    o.unsent = len(data) - pos
    # let the connection task finish if it is finishing
    for _ in range(3):
        await asyncio.sleep(0)
    o.closed = conn.closed
    if conn.exc is not None:
        o.exc = type(conn.exc).__name__
        if isinstance(conn.exc, Hang):
            o.hang = True
        import traceback
        frames = [f for f in traceback.extract_tb(conn.exc.__traceback__) if '/pymap/' in f.filename]
        if frames:
            o.site = frames[-1].filename.split('/pymap/')[-1] + ':' + frames[-1].name
    if o.tagged is None and not o.bye and not o.closed and not o.hang and not o.stalled:
        o.pending = True
    if other is not None and o.other_ok is None and not o.stalled and (probe_other or o.hang or o.exc):
        o.other_ok = await probe(other)
    o.wall = time.time() - t0
    return o


_probe_n = [0]


async def probe(other: Conn, mutate: bool = True) -> bool:
    """A second connection of the same account is still served: NOOP, and a
    command that changes the mailbox set (needs its write lock)."""
    _probe_n[0] += 1
    tag = b'pr%d' % _probe_n[0]
    try:
        with Watch():
            r, stalled = await send_step(other, tag + b' NOOP\r\n')
            ok = not stalled and (tag + b' OK') in r and not other.closed
            if ok and mutate:
                r, stalled = await send_step(other, tag + b' SUBSCRIBE INBOX\r\n')
                ok = not stalled and (tag + b' OK') in r and not other.closed
    except Hang:
        return False
    return ok


STATES = ('na', 'auth', 'sel')

# connections are kept referenced until the run ends (a pending connection
# task that is garbage collected makes asyncio print a warning)
LIVE: list = []


def keep(conn):
    LIVE.append(conn)
    return conn


async def finish_all() -> None:
    tasks = [t for t in asyncio.all_tasks() if t is not asyncio.current_task()]
    for t in tasks:
        t.cancel()
    await asyncio.gather(*tasks, return_exceptions=True)
    LIVE.clear()


def run_all(coro, timeout: float = 3000.0):
    from .pymap_env import run

    async def wrapped():
        try:
            return await coro
        finally:
            await finish_all()
    return run(wrapped(), timeout=timeout)


class Pool:
    """Connections in the three states on a shared DictEnv, recycled."""

    def __init__(self, env_cases: int = 150) -> None:
        self.env: DictEnv | None = None
        self.conns: dict[str, Conn] = {}
        self.other: Conn | None = None
        self.env_cases = env_cases
        self.used = 0
        self.fresh = 0
        self.history: list[tuple[str, bytes]] = []   # (state, bytes sent) since the environment started
        self.dead = False

    async def _new_env(self) -> None:
        self.env = await DictEnv().start()
        self.history = []
        self.dead = False
        self.conns = {}
        self.other = keep(await self.env.login())
        self.used = 0

    async def get(self, state: str) -> Conn:
        if self.env is None or self.dead or self.used >= self.env_cases or self.other is None \
                or self.other.closed:
            await self._new_env()
        self.used += 1
        c = self.conns.get(state)
        if c is not None and not c.closed:
            # reset the consecutive-BAD counter and re-establish the state
            resync = b'zz NOOP\r\n' if state != 'sel' else b'zz SELECT INBOX\r\n'
            self.history.append((state, resync))
            r, stalled = await send_step(c, resync)
            if b'zz OK' in r and not c.closed and not stalled:
                return c
        self.fresh += 1
        assert self.env is not None
        self.history.append((state, b'<connect>'))
        if state == 'na':
            c = await self.env.connect()
        else:
            c = await self.env.login()
            if state == 'sel':
                self.history.append((state, b'zz SELECT INBOX\r\n'))
                r, stalled = await send_step(c, b'zz SELECT INBOX\r\n')
                assert b'zz OK' in r and not stalled, r
        self.conns[state] = keep(c)
        return c

    def drop(self, state: str) -> None:
        self.conns.pop(state, None)


_STATEFUL = re.compile(
    rb'^\s*\S+\s+(?:UID\s+)?(SELECT|EXAMINE|CLOSE|LOGOUT|LOGIN|AUTHENTICATE|STARTTLS|DELETE|RENAME|IDLE)\b', re.I)


def keeps_state(data: bytes, o: Outcome) -> bool:
    """May the connection be reused for the same state after this command?"""
    if o.closed or o.pending or o.hang or o.exc or o.tagged is None:
        return False
    return not _STATEFUL.match(data)
