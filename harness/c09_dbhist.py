"""C09 — the identity database as STATE (round 5).

Family `db_history` (checker Conn/AuthDbCheck.v chk_hist, model Conn/AuthDb.v):
a case = a history on one backend (dict, maildir): Identity.set by an admin
(create, password change, password REMOVAL, role change), Identity.set by the
user itself (no role), Identity.delete — all through the backends' own identity
API, as the admin SetUser / DeleteUser handlers call it — interleaved with login
attempts, each on a FRESH connection (IMAP LOGIN / AUTHENTICATE PLAIN with and
without authzid / AUTHENTICATE LOGIN; ManageSieve AUTHENTICATE), presenting the
current password, a FORMER password of that user, another user's, garbage.
After every operation Identity.get() of every name of the universe is recorded.
The model starts from the database read from the backend itself (dict:
Login.users_dict; maildir: the passwd / shadow / group files as they are on
disk — some cases start from hand-written files: uid 0, '!'-locked hash, empty
field, shadow line without passwd line) and must reproduce every result.

Monitor (against the statement, ground truth = what the harness last set
successfully / wrote): a connection is authenticated only if the attempt was
answered OK and presented credentials valid AT THAT MOMENT.
"""
from __future__ import annotations

import asyncio
import os
import re

from . import coqterm as T
from .conn_common import Recorder, has_bye, populate_user, run_exchange, tagged

HEADER = ('From Coq Require Import String.\n'
          'From PV Require Import Base.Prelude Conn.CmdEntry Conn.CmdTable Conn.ConnFSM '
          'Conn.ConnCheck Conn.Auth Conn.SieveAuth Conn.AuthCheck Conn.AuthDb Conn.AuthDbCheck.\n'
          'Open Scope string_scope.\n')

UNIVERSE = ['alice', 'Alice', 'bob', 'root', 'carol', 'dave']
BASE = {
    'alice': ('alicepass', ()),
    'Alice': ('Alicepass', ()),
    'bob': ('bobpass', ()),
    'root': ('rootpass', ('admin',)),
    'carol': ('carolpass', ('sudo',)),
}
INJECTED = ['zed', 'locked', 'blank', 'ghost']      # users written into the files by hand
PWPOOL = ['alicepass', 'bobpass', 'newpass', 'pw2', 'x', '', 'Rootpass']
ROLESETS = [(), (), (), ('admin',), ('sudo',), ('admin', 'sudo'), ('staff',)]
_MARK = re.compile(rb'\* LIST \([^)]*\) "[^"]*" "?hm-([0-9]+)"?\r\n')


def _C09():
    from .props import C09
    return C09


class HEnv:
    """One backend whose identity database the histories mutate."""

    def __init__(self, kind: str):
        self.kind = kind
        self.name = 'hist_' + kind
        self.tls = False
        self.local = True
        self.limit = None
        self.preauth = None
        self.truth: dict[str, tuple[str | None, tuple]] = {}
        self.former: dict[str, list[str]] = {}
        self.names = list(UNIVERSE)

    # ---- the backends' identity API
    def ident(self, name: str, priv: bool = True):
        roles = {'admin'} if priv else set()
        if self.kind == 'dict':
            from pymap.backend.dict import Identity
            return Identity(name, self.login, None, roles)
        from pymap.backend.maildir import Identity
        return Identity(self.config, self.login.tokens, name, None, roles)

    async def hash(self, pw: str | None) -> str | None:
        from pymap.user import Passwords
        return await Passwords(self.config).hash_password(pw) if pw is not None else None

    async def set(self, name, pw, roles, priv=True) -> tuple[str, str | None]:
        from pymap.exceptions import NotAllowedError
        from pymap.user import UserMetadata
        hashed = await self.hash(pw)
        kw = {'params': {'mailbox_path': name}} if self.kind == 'maildir' else {}
        md = UserMetadata(self.config, name, password=hashed, roles=frozenset(roles),
                          previous_entity_tag=UserMetadata.REPLACE_ANY, **kw)
        try:
            await self.ident(name, priv).set(md)
        except NotAllowedError:
            return 'RNotAllowed', hashed
        old = self.truth.get(name)
        if old and old[0] is not None and old[0] != pw:
            self.former.setdefault(name, []).append(old[0])
        self.truth[name] = (pw, tuple(roles))
        return 'ROk', hashed

    async def delete(self, name) -> str:
        from pymap.exceptions import UserNotFound
        try:
            await self.ident(name).delete()
        except UserNotFound:
            return 'RNotFound'
        old = self.truth.pop(name, None)
        if old and old[0] is not None:
            self.former.setdefault(name, []).append(old[0])
        return 'ROk'

    async def get(self, name):
        from pymap.exceptions import UserNotFound
        try:
            md = await self.ident(name, priv=False).get()   # maildir get() adds the caller's roles
        except UserNotFound:
            return None
        return (md.password, tuple(sorted(md.roles)))

    async def get_all(self):
        return [(n, await self.get(n)) for n in self.names]

    # ---- start / snapshot / restore
    async def start(self):
        from .pymap_env import DictEnv, MaildirEnv
        if self.kind == 'dict':
            self.env = await DictEnv(demo_data=None, tls=None).start()
            self.login = self.env.backend.login
        else:
            self.env = await MaildirEnv('++', users=()).start()
            self.login = self.env.login_obj
        self.config = self.env.config
        for name in UNIVERSE:
            await self.set(name, BASE.get(name, ('tmp', ()))[0], BASE.get(name, (None, ()))[1])
        if self.kind == 'maildir':
            C = _C09()
            for i, name in enumerate(UNIVERSE + INJECTED):
                if name in INJECTED:
                    await self.set(name, 'tmp', ())
                pw = self.truth[name][0]
                conn = await self.env.connect()
                r = await conn.send(b'm0 LOGIN ' + C.quote(name.encode()) + b' '
                                    + C.quote(pw.encode()) + b'\r\n')
                assert b'm0 OK' in r, r
                r = await conn.send(b'm1 CREATE hm-%d\r\n' % i)
                assert b'm1 OK' in r, r
                await conn.send_eof()
            for name in INJECTED:
                await self.delete(name)
        await self.delete('dave')
        self.truth = {n: BASE[n] for n in BASE}
        self.former = {}
        self.snap = self._snapshot()
        return self

    def _files(self):
        return [os.path.join(self.env.base, f)
                for f in ('pymap-etc-passwd', 'pymap-etc-shadow', 'pymap-etc-group')]

    def _snapshot(self):
        if self.kind == 'dict':
            return dict(self.login.users_dict)
        out = []
        for p in self._files():
            out.append(open(p, 'rb').read() if os.path.exists(p) else None)
        return out

    async def restore(self, inject: bool = False):
        self.truth = {n: BASE[n] for n in BASE}
        self.former = {}
        self.names = list(UNIVERSE)
        if self.kind == 'dict':
            self.login.users_dict.clear()
            self.login.users_dict.update(self.snap)
        else:
            for p, data in zip(self._files(), self.snap):
                if data is None:
                    if os.path.exists(p):
                        os.remove(p)
                else:
                    with open(p, 'wb') as f:
                        f.write(data)
            if inject:
                h = {n: await self.hash(n + 'pass') for n in INJECTED}
                pw, sh, gr = self._files()
                with open(pw, 'a') as f:
                    f.write('zed:x:0:::zed:\r\nlocked:x::::locked:\r\nblank:x:7:::blank:\r\n')
                with open(sh, 'a') as f:
                    f.write(f'zed:{h["zed"]}\r\nlocked:!{h["locked"]}\r\nblank:\r\n'
                            f'ghost:{h["ghost"]}\r\n')
                with open(gr, 'a') as f:
                    f.write('staff:x::zed,alice\r\n')
                self.truth.update({'zed': ('zedpass', ('admin', 'staff')), 'locked': (None, ()),
                                   'blank': (None, ())})
                self.truth['alice'] = (BASE['alice'][0], ('staff',))
                self.former = {'locked': ['lockedpass'], 'ghost': ['ghostpass'], 'blank': ['']}
                self.names = UNIVERSE + INJECTED
        await self.ensure_markers()

    async def ensure_markers(self):
        if self.kind != 'dict':
            return
        for i, name in enumerate(UNIVERSE):
            if name not in self.config.set_cache:
                await populate_user(self.env, name, {'INBOX': (0, False), 'hm-%d' % i: (0, False)})

    def close(self):
        self.env.close()

    # ---- servers (same shape as props/C09.Env)
    async def connect(self, rec: Recorder, sieve: bool = False):
        from pymap.imap import IMAPServer
        from pymap.sieve.manage import ManageSieveServer
        from .pymap_env import Conn
        srv = (ManageSieveServer(rec.wrap_login(self.login), self.config) if sieve
               else IMAPServer(self.login, self.config))
        conn = Conn(srv, local=True)
        conn.greeting = await conn.start()
        return conn

    def verify(self, stored: str, secret: str) -> bool:
        prepare = self.config.password_prep
        try:
            return bool(self.config.hash_context.copy().verify(prepare(secret), prepare(stored)))
        except ValueError:
            return False

    def prep_ok(self, name: str) -> bool:
        try:
            self.config.password_prep(name).encode('utf-8')
        except ValueError:
            return False
        return True

    # ---- the database as the backend holds it, as a Gallina term
    def state_term(self) -> tuple[str, set]:
        ib = _C09().ib
        hashes = set()
        if self.kind == 'dict':
            ents = []
            for name, md in self.login.users_dict.items():
                if md.password is not None:
                    hashes.add(md.password)
                ents.append(f'({ib(name)}, ({_optb(md.password)}, '
                            f'{T.lst(ib(r) for r in sorted(md.roles))}))')
            return f'(DictDb {T.lst(ents)})', hashes
        split = re.compile(r'(?<!\\):')
        tabs = []
        for p in self._files():
            rows = []
            if os.path.exists(p):
                for line in open(p, newline='').read().split('\r\n'):
                    if line:
                        rows.append([x.replace('\\:', ':') for x in split.split(line)])
            tabs.append(rows)
        pw = [f'({ib(r[0])}, {T.boolean(len(r) > 2 and r[2] == "0")})' for r in tabs[0]]
        sh = [f'({ib(r[0])}, {ib(r[1] if len(r) > 1 else "")})' for r in tabs[1]]
        hashes.update(r[1] for r in tabs[1] if len(r) > 1 and r[1])
        gr = [f'({ib(r[0])}, {T.lst(ib(u) for u in (r[3].split(",") if len(r) > 3 and r[3] else []))})'
              for r in tabs[2]]
        return f'(MdDb (mk_md {T.lst(pw)} {T.lst(sh)} {T.lst(gr)}))', hashes


def _optb(s) -> str:
    return 'None' if s is None else f'(Some {_C09().ib(s)})'


def gets_term(gets) -> str:
    ib = _C09().ib
    out = []
    for n, g in gets:
        if g is None:
            out.append(f'({ib(n)}, None)')
        else:
            out.append(f'({ib(n)}, Some ({_optb(g[0])}, {T.lst(ib(r) for r in g[1])}))')
    return T.lst(out)


# ------------------------------------------------------------------ attempts
def gen_login(rng, E: HEnv):
    """(listener, attempt object) for one login attempt of a history."""
    C = _C09()
    r = rng.random()
    if r < 0.8:
        user = rng.choice(E.names)
    elif r < 0.9:
        user = rng.choice(['nobody', 'ALICE', 'alice ', 'Bob', ''])
    else:
        user = rng.choice(E.names).swapcase()
    cur = E.truth.get(user, (None, ()))[0]
    former = E.former.get(user, [])
    s = rng.random()
    if s < 0.4 and cur is not None:
        secret = cur
    elif s < 0.75 and former:
        secret = rng.choice(former)                # a password that USED to be valid
    elif s < 0.85:
        secret = rng.choice([p for p, _ in E.truth.values() if p] or ['x'])
    elif s < 0.93:
        secret = rng.choice(['', '*', '!', 'x', BASE.get(user, ('zz',))[0] or 'zz'])
    else:
        secret = (cur or 'pw') + rng.choice([' ', 'X', ' '])
    u, p = user.encode(), secret.encode()
    z = rng.random()
    if z < 0.22:
        return 'imap', C.Attempt('login', b'LOGIN ' + C.quote(u) + b' ' + C.quote(p),
                                 creds=(u, p, u), label='H-LOGIN')
    if z < 0.6:
        y = rng.random()
        authz = b'' if y < 0.45 else (u if y < 0.55 else rng.choice(E.names + ['nobody']).encode())
        return 'imap', C.Attempt('plain', b'AUTHENTICATE PLAIN', [C.b64(authz + b'\0' + u + b'\0' + p)],
                                 None, 'H-PLAIN')
    if z < 0.72:
        return 'imap', C.Attempt('sasl_login', b'AUTHENTICATE LOGIN', [C.b64(u), C.b64(p)], None,
                                 'H-SASL-LOGIN')
    if z < 0.9:
        authz = b'' if rng.random() < 0.6 else rng.choice(E.names).encode()
        val = C.b64(authz + b'\0' + u + b'\0' + p)
        if rng.random() < 0.5:
            return 'sieve', C.SAttempt('auth', b'AUTHENTICATE "PLAIN" "%s"' % val, [], None, val,
                                       b'PLAIN', 'H-SV-PLAIN-initial')
        return 'sieve', C.SAttempt('auth', b'AUTHENTICATE "PLAIN"', [val], None, None, b'PLAIN',
                                   'H-SV-PLAIN')
    return 'sieve', C.SAttempt('auth', b'AUTHENTICATE "LOGIN"', [C.b64(u), C.b64(p)], None, None,
                               b'LOGIN', 'H-SV-LOGIN')


def gen_op(rng, E: HEnv):
    r = rng.random()
    name = rng.choice(E.names)
    cur = E.truth.get(name)
    if r < 0.22:
        return ('set', name, None, cur[1] if cur and rng.random() < 0.8 else (), True)   # REMOVE
    if r < 0.5:
        return ('set', name, rng.choice(PWPOOL), cur[1] if cur and rng.random() < 0.6
                else rng.choice(ROLESETS), True)
    if r < 0.7:
        roles = cur[1] if cur and rng.random() < 0.7 else rng.choice(ROLESETS)
        return ('set', name, rng.choice(PWPOOL + [None]), roles, False)                 # by the user
    if r < 0.8:
        return ('set', name, cur[0] if cur else 'pw2', rng.choice(ROLESETS), True)      # role change
    return ('delete', name)


def fixed_histories():
    """Clause by clause (each on both backends)."""
    S, D, L = 'set', 'delete', 'login'
    return [
        # created with a password, password removed, old password presented
        [(S, 'dave', 'davepass', (), True), (L, 'imap', 'login', 'dave', 'davepass', ''),
         (S, 'dave', None, (), True), (L, 'imap', 'login', 'dave', 'davepass', ''),
         (L, 'imap', 'plain', 'dave', 'davepass', ''), (L, 'sieve', 'plain', 'dave', 'davepass', ''),
         (L, 'imap', 'sasl', 'dave', 'davepass', ''), (L, 'imap', 'login', 'dave', '*', ''),
         (L, 'imap', 'login', 'dave', '', '')],
        [(S, 'alice', None, (), True), (L, 'imap', 'login', 'alice', 'alicepass', ''),
         (L, 'sieve', 'login', 'alice', 'alicepass', ''), (L, 'imap', 'login', 'Alice', 'Alicepass', ''),
         (S, 'alice', 'again', (), True), (L, 'imap', 'login', 'alice', 'alicepass', ''),
         (L, 'imap', 'login', 'alice', 'again', '')],
        # password change: the old one stops, the new one works
        [(S, 'bob', 'newpass', (), True), (L, 'imap', 'login', 'bob', 'bobpass', ''),
         (L, 'imap', 'plain', 'bob', 'newpass', ''), (S, 'bob', 'bobpass', (), False),
         (L, 'sieve', 'plain', 'bob', 'newpass', ''), (L, 'sieve', 'plain', 'bob', 'bobpass', '')],
        # deletion; nobody acts as a deleted user; re-creation without a password
        [(D, 'bob'), (L, 'imap', 'login', 'bob', 'bobpass', ''), (L, 'imap', 'plain', 'root', 'rootpass', 'bob'),
         (L, 'sieve', 'plain', 'bob', 'bobpass', ''), (D, 'bob'), (S, 'bob', None, (), True),
         (L, 'imap', 'login', 'bob', 'bobpass', ''), (L, 'imap', 'plain', 'root', 'rootpass', 'bob')],
        # the user itself: may change its password, may not give itself a role
        [(S, 'alice', 'mine', (), False), (L, 'imap', 'login', 'alice', 'alicepass', ''),
         (L, 'imap', 'login', 'alice', 'mine', ''), (S, 'alice', 'evil', ('admin',), False),
         (L, 'imap', 'login', 'alice', 'evil', ''), (L, 'imap', 'plain', 'alice', 'mine', 'bob'),
         (S, 'alice', None, (), False), (L, 'imap', 'login', 'alice', 'mine', '')],
        # roles granted and revoked
        [(L, 'imap', 'plain', 'bob', 'bobpass', 'alice'), (S, 'bob', 'bobpass', ('admin',), True),
         (L, 'imap', 'plain', 'bob', 'bobpass', 'alice'), (S, 'bob', 'bobpass', (), True),
         (L, 'imap', 'plain', 'bob', 'bobpass', 'alice'), (S, 'root', 'rootpass', (), True),
         (L, 'imap', 'plain', 'root', 'rootpass', 'alice'), (S, 'carol', None, ('sudo',), True),
         (L, 'imap', 'plain', 'carol', 'carolpass', 'alice')],
    ]


def login_attempt(how: str, listener: str, u: str, p: str, z: str):
    C = _C09()
    ub, pb, zb = u.encode(), p.encode(), z.encode()
    if listener == 'imap':
        if how == 'login':
            return C.Attempt('login', b'LOGIN ' + C.quote(ub) + b' ' + C.quote(pb),
                             creds=(ub, pb, ub), label='H-LOGIN')
        if how == 'plain':
            return C.Attempt('plain', b'AUTHENTICATE PLAIN', [C.b64(zb + b'\0' + ub + b'\0' + pb)],
                             None, 'H-PLAIN')
        return C.Attempt('sasl_login', b'AUTHENTICATE LOGIN', [C.b64(ub), C.b64(pb)], None,
                         'H-SASL-LOGIN')
    if how == 'plain':
        val = C.b64(zb + b'\0' + ub + b'\0' + pb)
        return C.SAttempt('auth', b'AUTHENTICATE "PLAIN" "%s"' % val, [], None, val, b'PLAIN',
                          'H-SV-PLAIN-initial')
    return C.SAttempt('auth', b'AUTHENTICATE "LOGIN"', [C.b64(ub), C.b64(pb)], None, None, b'LOGIN',
                      'H-SV-LOGIN')


# ------------------------------------------------------------------- running
async def run_imap_attempt(rec: Recorder, E: HEnv, a) -> dict:
    C = _C09()
    conn = await E.connect(rec)
    rec.log.take()
    out, used = await run_exchange(conn, b'q0 ' + a.line, a.lines, a.eol)
    cond, text = tagged(out, b'q0')
    calls = rec.log.take()
    owner = rec.snapshot()['owner']
    stage = None
    lc = [c for c in calls if c['meth'] in ('authenticate', 'authorize', 'new_session')]
    if lc:
        stage = 0
        for n, m in ((1, 'authenticate'), (2, 'authorize'), (3, 'new_session')):
            rs = [c for c in lc if c['meth'] == m]
            if rs and rs[-1].get('out') != 'ok':
                stage = n
                break
    closed = conn.closed
    pout, pcond, ptext, who = b'', 'NONE', b'', None
    if not closed:
        pout, _ = await run_exchange(conn, b'q1 LIST "" *', [], b'\r\n')
        pcond, ptext = tagged(pout, b'q1')
        if pcond == 'OK':
            marks = _MARK.findall(pout)
            if len(marks) == 1:
                who = (UNIVERSE + INJECTED)[int(marks[0])]
    powner = rec.snapshot()['owner']
    st = {'attempt': a, 'out': out, 'used': used, 'cond': cond, 'text': text, 'bye': has_bye(out),
          'closed': closed, 'owner': owner, 'stage': stage,
          'probe': {'out': pout, 'cond': pcond, 'text': ptext, 'closed': conn.closed,
                    'owner': powner, 'bye': has_bye(pout)},
          'authed': pcond == 'OK', 'who': who,
          'exc': None if conn.exc is None else type(conn.exc).__name__}
    if not conn.closed:
        await conn.send_eof()
    return st


def aobs_term(cond, text, out, closed, bye, used, owner, stage) -> str:
    C = _C09()
    c = cond if cond in ('OK', 'NO', 'BAD') else 'NOTAG'
    why = C._why(cond, text, out, closed)
    stg = 'None' if stage is None else f'(Some {T.N(stage)})'
    return (f'(mk_aobs {c} {why} {T.boolean(bye)} {T.N(used)} {C._opt(owner)} '
            f'{T.boolean(closed)} {stg})')


def truth_valid(E: HEnv, creds, truth) -> bool:
    if creds is None:
        return False
    try:
        a, s, z = (x.decode('utf-8') for x in creds)
    except UnicodeDecodeError:
        return False
    if a not in truth or truth[a][0] is None or truth[a][0] != s or z not in truth:
        return False
    if z != a:
        need = {'admin'} if E.kind == 'dict' else {'admin', 'sudo'}
        if not (set(truth[a][1]) & need):
            return False
    return True


async def run_history(ctx, rec: Recorder, E: HEnv, plan, inject: bool, hist_id: str) -> dict:
    """plan: list of steps or a callable(rng-free) producing the next step from
    the current ground truth.  Returns the case term pieces."""
    C = _C09()
    await E.restore(inject)
    state, hashes = E.state_term()
    g0 = await E.get_all()
    steps_t, trace = [], []
    secrets, names = set(), set()
    n_ok = 0
    for step in plan:
        if callable(step):
            step = step(E)
        if step[0] == 'set':
            _, name, pw, roles, priv = step
            res, hashed = await E.set(name, pw, roles, priv)
            if hashed:
                hashes.add(hashed)
            await E.ensure_markers()
            gets = await E.get_all()
            op = (f'(OSet {T.boolean(priv)} {C.ib(name)} {_optb(hashed)} '
                  f'{T.lst(C.ib(r) for r in roles)})')
            steps_t.append(f'(HDb {op} {res} {gets_term(gets)})')
            trace.append({'op': 'set', 'name': name, 'password': pw, 'roles': list(roles),
                          'by_admin': priv, 'result': res})
        elif step[0] == 'delete':
            res = await E.delete(step[1])
            await E.ensure_markers()
            gets = await E.get_all()
            steps_t.append(f'(HDb (ODelete {C.ib(step[1])}) {res} {gets_term(gets)})')
            trace.append({'op': 'delete', 'name': step[1], 'result': res})
        else:
            if step[0] == 'login':
                _, listener, how, u, p, z = step
                a = login_attempt(how, listener, u, p, z)
            else:
                listener, a = step[1], step[2]
            truth = dict(E.truth)
            tr = {'op': 'login', 'listener': listener, 'line': a.line.decode('latin-1'),
                  'lines': [x.decode('latin-1') for x in a.lines], 'label': a.label}
            if a.creds:
                names.add(a.creds[0])
                secrets.add(a.creds[1])
            for x in list(a.lines) + ([a.initial] if getattr(a, 'initial', None) else []):
                d = C.cline(x, crlf=(listener == 'imap'))['dec']
                if d:
                    for part in d.split(b'\0'):
                        names.add(part)
                        secrets.add(part)
            rp = {'family': 'db_history', 'env': E.name, 'inject': inject, 'history': trace + [tr]}
            if listener == 'imap':
                st = await run_imap_attempt(rec, E, a)
                pr = st['probe']
                steps_t.append(
                    f'(HImap {C.attempt_model(a)} '
                    f'{aobs_term(st["cond"], st["text"], st["out"], st["closed"], st["bye"], st["used"], st["owner"], st["stage"])} '
                    f'{aobs_term(pr["cond"], pr["text"], pr["out"], pr["closed"], pr["bye"], 0, pr["owner"], None)})')
                tr.update(cond=st['cond'], authenticated=st['authed'], who=st['who'])
                ok = st['cond'] == 'OK' and truth_valid(E, a.creds, truth)
                if st['authed'] and not ok:
                    ctx.failure('sound', f'history: connection authenticated (as {st["who"] or st["owner"]!r}) '
                                f'after {a.label} presenting {a.creds!r} although the identity database '
                                f'at that moment holds {_show(truth, a.creds)}', rp,
                                {'kind': 'authenticated_without_valid_credentials_at_that_moment'})
                elif st['authed'] and st['who'] is not None and \
                        st['who'] != a.creds[2].decode('utf-8', 'replace'):
                    ctx.failure('sound', f'history: acts as {st["who"]!r} after presenting {a.creds!r}',
                                rp, {'kind': 'acts_as_other'})
                elif st['cond'] == 'OK' and not st['authed']:
                    ctx.failure('sound', 'history: login answered OK but LIST is refused', rp,
                                {'kind': 'ok_but_unauthenticated'})
                n_ok += st['authed']
            else:
                res = await C.run_sieve_sequence(rec, E, [a])
                st = res['steps'][0]
                c = {'OK': 'SOK', 'NO': 'SNO', 'BYE': 'SBYE'}.get(st['cond'], 'SNONE')
                ob = (f'(mk_sobs {c} {T.N(st["used"])} {C._opt(st["owner"])} {T.boolean(st["mechs"])} '
                      f'{T.boolean(st["offer_tls"])} {T.boolean(st["closed"])})')
                steps_t.append(f'(HSieve {C.sattempt_model(a)} {ob})')
                tr.update(cond=st['cond'], owner=st['owner'])
                cr = a.creds
                ok = st['cond'] == 'OK' and cr is not None and truth_valid(E, (cr[0], cr[1], cr[0]), truth)
                if st['owner'] is not None and not (ok and st['owner'] == cr[0].decode('utf-8', 'replace')):
                    ctx.failure('sieve_sound', f'history: ManageSieve connection owned by {st["owner"]!r} '
                                f'after {a.label} presenting {cr!r} although the identity database at '
                                f'that moment holds {_show(truth, cr)}', rp,
                                {'kind': 'authenticated_without_valid_credentials_at_that_moment'})
                n_ok += st['owner'] is not None
            trace.append(tr)
    true_pairs = []
    for h in sorted(hashes):
        for s in secrets:
            if E.verify(h, s.decode('utf-8', 'surrogateescape')):
                true_pairs.append(f'({C.ib(h)}, {C.ib(s)})')
    bad = [C.ib(n) for n in names if not E.prep_ok(n.decode('utf-8', 'surrogateescape'))]
    env = (f'(mk_henv {T.lst(sorted(true_pairs))} {T.lst(sorted(bad))} '
           f'(mk_config false true 0 true true None))')
    term = f'(mk_hcase {env} {state} {gets_term(g0)} {T.lst(steps_t)})'
    return {'term': term, 'trace': trace, 'env': E.name, 'inject': inject, 'n_ok': n_ok, 'id': hist_id}


def _show(truth, creds) -> str:
    if not creds:
        return 'n/a'
    a = creds[0].decode('utf-8', 'replace')
    if a not in truth:
        return f'no user {a!r}'
    return f'{a!r}: password {truth[a][0]!r}, roles {list(truth[a][1])}'


def run(ctx, n_random: int) -> list:
    """Called from props/C09.run: runs the histories on the real backends (monitors
    included) and returns them; the Coq side is `evaluate`."""
    rng = ctx.rng

    def rand_plan(E):
        n = rng.randint(6, 14)
        plan = []
        for _ in range(n):
            if rng.random() < 0.42:
                plan.append(lambda E_: gen_op(rng, E_))
            else:
                plan.append(lambda E_: ('attempt',) + gen_login(rng, E_))
        return plan

    async def main():
        out = []
        envs = [await HEnv('dict').start(), await HEnv('maildir').start()]
        try:
            with Recorder() as rec:
                for E in envs:
                    for i, h in enumerate(fixed_histories()):
                        out.append(await asyncio.wait_for(
                            run_history(ctx, rec, E, h, False, f'fixed{i}'), 120))
                    for i in range(n_random):
                        inject = E.kind == 'maildir' and i % 4 == 0
                        out.append(await asyncio.wait_for(
                            run_history(ctx, rec, E, rand_plan(E), inject, f'rand{i}'), 120))
        finally:
            for E in envs:
                E.close()
        return out
    runs = asyncio.run(main())
    hist = {}
    for r in runs:
        ctx.count(('hist', r['env'], r['id'], tuple(str(t) for t in r['trace'])),
                  nontrivial=r['n_ok'] > 0 and any(t['op'] != 'login' for t in r['trace']))
        for t in r['trace']:
            key = f"{r['env']}:{t['op']}:{t.get('result') or t.get('cond')}"
            hist[key] = hist.get(key, 0) + 1
    ctx.extra['db_history_outcomes'] = dict(sorted(hist.items()))
    if runs:
        ctx.sample({'family': 'db_history', 'env': runs[-1]['env'], 'history': runs[-1]['trace'][:8]})
    return runs


def evaluate(ctx, runs, raw) -> None:
    """raw = coqrun.run_cases result for [r['term'] for r in runs] (computed by the caller,
    possibly in a worker thread)."""
    from . import coqrun
    bad = raw['bad']
    for i in bad[:4]:
        r = runs[i]
        where = coqrun.eval_term(ctx.prop, f'hwhere_{i}', HEADER, f'where_hbad {r["term"]}')
        ctx.disagreement('db_history', {'env': r['env'], 'inject': r['inject'], 'history': r['trace'],
                                        'model_first_difference_at_step_and_model_db': where[:160] + " ... " + where[-500:]})


def replay(ctx, obj) -> int:
    """Re-run a recorded history and print what the server answers now."""
    kind = obj['env'].split('_', 1)[1]

    async def main():
        E = await HEnv(kind).start()
        try:
            with Recorder() as rec:
                await E.restore(bool(obj.get('inject')))
                C = _C09()
                for t in obj['history']:
                    if t['op'] == 'set':
                        print('set', t['name'], t['password'], t['roles'], 'admin' if t['by_admin'] else 'self',
                              '->', (await E.set(t['name'], t['password'], t['roles'], t['by_admin']))[0])
                    elif t['op'] == 'delete':
                        print('delete', t['name'], '->', await E.delete(t['name']))
                    elif t['listener'] == 'imap':
                        a = C.Attempt('raw', t['line'].encode('latin-1'),
                                      [x.encode('latin-1') for x in t['lines']])
                        st = await run_imap_attempt(rec, E, a)
                        print(t['line'][:70], t['lines'], '->', st['cond'], 'authenticated', st['authed'],
                              'as', st['who'] or st['owner'])
                    else:
                        a = C.SAttempt('other', t['line'].encode('latin-1'),
                                       [x.encode('latin-1') for x in t['lines']])
                        res = await C.run_sieve_sequence(rec, E, [a])
                        print(t['line'][:70], '->', res['steps'][0]['cond'], 'owner', res['steps'][0]['owner'])
        finally:
            E.close()
    asyncio.run(main())
    return 0
