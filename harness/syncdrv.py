"""Deterministic drivers for the C20 / C16 checks (helper of harness/props/C20.py, C16.py).

`Stepper` runs asyncio tasks one ready handle at a time on a CPython 3.12
selector loop that is never started: the running-loop pointer is set by hand
and the harness pops the handle it chose from `loop._ready` and runs it.  A
"step" of task t is therefore exactly "t runs from one suspension point to
the next" -- the only place where asyncio switches tasks.  Timers (used by
`FileLock`'s retry sleeps) are fired by choice as well: running a task that
sleeps fires its timer first, whatever its deadline (any wake-up order of
sleeping tasks is possible on a real machine).

`RWRun` / `FLRun` execute task programs over the real `_AsyncioReadWriteLock`
/ `FileLock` of /repo and record, per step, the set of runnable tasks before
the step, the enter/exit events of critical sections and a glass-box view of
the lock objects after it.
"""
from __future__ import annotations

import asyncio
import os
import shutil
import tempfile
from asyncio import events


class Stepper:
    def __init__(self) -> None:
        self.loop = asyncio.SelectorEventLoop()
        self.tasks: list[asyncio.Task] = []
        self.timer_fires: list[int] = []
        self._prev = None

    def __enter__(self) -> 'Stepper':
        self._prev = events._get_running_loop()
        events._set_running_loop(self.loop)
        return self

    def __exit__(self, *exc) -> None:
        # finish whatever is left so that no coroutine is destroyed pending
        for t in self.tasks:
            if not t.done():
                t.cancel()
        for _ in range(10000):
            self._fire_all_timers()
            if not self.loop._ready:
                break
            self.loop._ready.popleft()._run()
        for t in self.tasks:
            if t.done() and not t.cancelled():
                t.exception()
        events._set_running_loop(self._prev)
        self.loop.close()

    def spawn(self, coro) -> int:
        t = self.loop.create_task(coro)
        self.tasks.append(t)
        self.timer_fires.append(0)
        return len(self.tasks) - 1

    # ---- inspection
    @staticmethod
    def _owner(handle):
        return getattr(handle._callback, '__self__', None)

    def _ready_handle(self, i: int):
        t = self.tasks[i]
        for h in self.loop._ready:
            if not h._cancelled and self._owner(h) is t:
                return h
        return None

    def _timer_handle(self, i: int):
        fut = getattr(self.tasks[i], '_fut_waiter', None)
        if fut is None:
            return None
        for h in self.loop._scheduled:
            if not h._cancelled and h._args and h._args[0] is fut:
                return h
        return None

    def enabled(self) -> list[int]:
        res = []
        for i, t in enumerate(self.tasks):
            if t.done():
                continue
            if self._ready_handle(i) is not None or self._timer_handle(i) is not None:
                res.append(i)
        return res

    def foreign_handles(self) -> int:
        """ready handles that belong to no spawned task (must stay 0 for the
        one-handle-per-task reading of a step to be right)"""
        n = 0
        for h in self.loop._ready:
            if h._cancelled:
                continue
            if not any(self._owner(h) is t for t in self.tasks):
                n += 1
        return n

    # ---- actions
    def run(self, i: int) -> None:
        th = self._timer_handle(i)
        if th is not None and self._ready_handle(i) is None:
            th._run()          # sets the sleep future -> schedules the wake-up
            th.cancel()
            self.timer_fires[i] += 1
        h = self._ready_handle(i)
        if h is None:
            raise RuntimeError(f'task {i} is not runnable')
        self.loop._ready.remove(h)
        h._run()

    def cancel(self, i: int) -> bool:
        return self.tasks[i].cancel()

    def _fire_all_timers(self) -> None:
        for h in list(self.loop._scheduled):
            if not h._cancelled:
                h._run()
                h.cancel()
        self.loop._scheduled.clear()

    def status(self, i: int) -> str:
        t = self.tasks[i]
        if not t.done():
            return 'live'
        if t.cancelled():
            return 'cancelled'
        if t.exception() is not None:
            return 'exc:' + type(t.exception()).__name__
        return 'finished'


# --------------------------------------------------------------------------
# read-write lock programs
# --------------------------------------------------------------------------
class Boom(Exception):
    """raised inside a critical section by a program that asks for it"""


def _waiter_view(lock, stepper: Stepper) -> list[tuple[int, str]]:
    res = []
    for fut in (lock._waiters or ()):
        owner = -1
        for i, t in enumerate(stepper.tasks):
            if getattr(t, '_fut_waiter', None) is fut:
                owner = i
        st = 'C' if fut.cancelled() else ('W' if fut.done() else 'P')
        res.append((owner, st))
    return res


class RWRun:
    """progs: one list per task of (kind 'R'|'W', yields, raises)."""

    def __init__(self, progs, lock_factory=None) -> None:
        from pymap.concurrent import ReadWriteLock
        self.progs = progs
        self.log: list[tuple[str, str, int]] = []
        self.steps: list[dict] = []
        self.stepper = Stepper()
        self.stepper.__enter__()
        self.lock = (lock_factory or ReadWriteLock.for_asyncio)()
        self.pos: list[tuple] = [('new',)] * len(progs)
        for i, prog in enumerate(progs):
            self.stepper.spawn(self._body(i, prog))

    async def _body(self, i: int, prog) -> None:
        for a, (kind, yields, raises) in enumerate(prog):
            cm = self.lock.read_lock() if kind == 'R' else self.lock.write_lock()
            self.pos[i] = (a, 'acq')
            try:
                async with cm:
                    self.log.append(('enter', kind, i))
                    try:
                        for y in range(yields):
                            self.pos[i] = (a, 'in', yields - y - 1)
                            await asyncio.sleep(0)
                        if raises:
                            raise Boom()
                    finally:
                        self.log.append(('exit', kind, i))
            except Boom:
                pass
            self.pos[i] = (a, 'gap')
            await asyncio.sleep(0)
        self.pos[i] = ('end',)

    def close(self) -> None:
        self.stepper.__exit__(None, None, None)

    def enabled(self) -> list[int]:
        return self.stepper.enabled()

    def view(self) -> dict:
        lk = self.lock
        return {'counter': lk._counter,
                'rl': (lk._read_lock.locked(), _waiter_view(lk._read_lock, self.stepper)),
                'wl': (lk._write_lock.locked(), _waiter_view(lk._write_lock, self.stepper)),
                'status': [self.stepper.status(i) for i in range(len(self.progs))]}

    def key(self) -> tuple:
        """glass-box state used to prune the exploration: everything the future
        behaviour depends on"""
        v = self.view()
        pos = []
        for i, t in enumerate(self.stepper.tasks):
            pos.append((self.pos[i] if not t.done() else ('done',),
                        bool(getattr(t, '_must_cancel', False))))
        return (v['counter'], v['rl'][0], tuple(v['rl'][1]), v['wl'][0], tuple(v['wl'][1]),
                tuple(v['status']), tuple(pos))

    def step(self, label) -> dict:
        op, i = label
        before = self.enabled()
        n0 = len(self.log)
        err = None
        if op == 'run':
            self.stepper.run(i)
        elif op == 'cancel':
            self.stepper.cancel(i)
        else:
            raise ValueError(label)
        rec = {'label': label, 'enabled': before, 'events': self.log[n0:],
               'view': self.view(), 'foreign': self.stepper.foreign_handles()}
        self.steps.append(rec)
        return rec


def overlap_monitor(log) -> str | None:
    """exclusion oracle on an enter/exit log: at most one writer inside, and
    then no reader"""
    readers: set[int] = set()
    writers: set[int] = set()
    for ev, kind, i in log:
        if ev == 'enter':
            (readers if kind == 'R' else writers).add(i)
            if len(writers) > 1:
                return f'two writers inside: {sorted(writers)}'
            if writers and readers:
                return f'writer {sorted(writers)} overlaps reader(s) {sorted(readers)}'
        else:
            (readers if kind == 'R' else writers).discard(i)
    return None


# --------------------------------------------------------------------------
# lock-file programs
# --------------------------------------------------------------------------
class FLRun:
    """progs: one list per task of (kind 'R'|'W', yields, raises).  Every task
    uses its own FileLock object on the same path (as maildir's io.py does),
    with `ndelays` retry delays."""

    def __init__(self, progs, ndelays: int = 2, stale: str | None = None) -> None:
        from pymap.concurrent import FileLock
        self.progs = progs
        self.dir = tempfile.mkdtemp(prefix='pymapverif-fl-')
        self.path = os.path.join(self.dir, 'x.lock')
        self.log: list[tuple[str, str, int]] = []
        self.steps: list[dict] = []
        self.stepper = Stepper()
        self.stepper.__enter__()
        delays = tuple(0.01 * (k + 1) for k in range(ndelays))
        self.FileLock = FileLock
        self.delays = delays
        self.pos: list[tuple] = [('new',)] * len(progs)
        self.base_fires = [0] * len(progs)
        if stale is not None:
            open(self.path, 'x').close()
            if stale == 'expired':
                self.expire()
        for i, prog in enumerate(progs):
            self.stepper.spawn(self._body(i, prog))

    def _lock(self):
        return self.FileLock(self.path, expiration=600.0,
                             read_retry_delay=self.delays,
                             write_retry_delay=self.delays)

    async def _body(self, i: int, prog) -> None:
        for a, (kind, yields, raises) in enumerate(prog):
            lk = self._lock()
            cm = lk.read_lock() if kind == 'R' else lk.write_lock()
            self.pos[i] = (a, 'acq')
            self.base_fires[i] = self.stepper.timer_fires[i]
            try:
                async with cm:
                    self.log.append(('enter', kind, i))
                    try:
                        for y in range(yields):
                            self.pos[i] = (a, 'in', yields - y - 1)
                            await asyncio.sleep(0)
                        if raises:
                            raise Boom()
                    finally:
                        self.log.append(('exit', kind, i))
            except Boom:
                pass
            except TimeoutError:
                self.log.append(('timeout', kind, i))
            self.pos[i] = (a, 'gap')
            await asyncio.sleep(0)
        self.pos[i] = ('end',)

    def expire(self) -> None:
        if os.path.exists(self.path):
            st = os.stat(self.path)
            os.utime(self.path, (st.st_atime - 100000, st.st_mtime - 100000))

    def file_state(self) -> str:
        import time
        try:
            st = os.stat(self.path)
        except FileNotFoundError:
            return 'absent'
        return 'expired' if time.time() - st.st_mtime >= 600.0 else 'fresh'

    def close(self) -> None:
        self.stepper.__exit__(None, None, None)
        shutil.rmtree(self.dir, ignore_errors=True)

    def enabled(self) -> list[int]:
        return self.stepper.enabled()

    def view(self) -> dict:
        return {'file': self.file_state(),
                'status': [self.stepper.status(i) for i in range(len(self.progs))]}

    def key(self) -> tuple:
        pos = []
        for i, t in enumerate(self.stepper.tasks):
            fw = getattr(t, '_fut_waiter', None)
            pos.append((self.pos[i] if not t.done() else ('done',),
                        bool(getattr(t, '_must_cancel', False)),
                        fw is not None and fw.cancelled(),
                        self.stepper.timer_fires[i] - self.base_fires[i],
                        self.stepper._timer_handle(i) is not None))
        return (self.file_state(), tuple(self.view()['status']), tuple(pos))

    def step(self, label) -> dict:
        op, i = label
        before = self.enabled()
        n0 = len(self.log)
        if op == 'run':
            self.stepper.run(i)
        elif op == 'cancel':
            self.stepper.cancel(i)
        elif op == 'expire':
            self.expire()
        else:
            raise ValueError(label)
        rec = {'label': label, 'enabled': before, 'events': self.log[n0:],
               'view': self.view(), 'foreign': self.stepper.foreign_handles()}
        self.steps.append(rec)
        return rec


def writers_monitor(log) -> str | None:
    """FileLock oracle: never two writers inside"""
    writers: set[int] = set()
    for ev, kind, i in log:
        if kind != 'W':
            continue
        if ev == 'enter':
            writers.add(i)
            if len(writers) > 1:
                return f'two lock-file writers inside: {sorted(writers)}'
        elif ev == 'exit':
            writers.discard(i)
    return None


# --------------------------------------------------------------------------
# IDLE runs (C16)
# --------------------------------------------------------------------------
import contextlib
import re

_UNTAGGED = re.compile(rb'^\* (\d+) (EXISTS|RECENT|EXPUNGE|FETCH)(?: \((.*)\))?\r?$')
_FLAGS = re.compile(rb'FLAGS \(([^)]*)\)')


async def settle(limit: int = 20000) -> None:
    """run the event loop until no handle is ready (three quiet turns in a row)"""
    loop = asyncio.get_running_loop()
    quiet = 0
    for _ in range(limit):
        await asyncio.sleep(0)
        if not loop._ready:
            quiet += 1
            if quiet >= 3:
                return
        else:
            quiet = 0
    raise RuntimeError('the server does not become quiescent')


@contextlib.contextmanager
def batch_recorder():
    """wrap IMAPConnection.write_updates (in this process only) to learn how
    many untagged responses each IDLE notification batch has and when it is
    completely written; behaviour is unchanged"""
    from pymap.imap import IMAPConnection
    orig = IMAPConnection.write_updates

    async def write_updates(self, untagged):
        items = list(untagged)
        conn = self.writer
        rec = getattr(conn, 'verif_batches', None)
        if rec is not None:
            rec.append(len(items))
        await orig(self, items)
        if rec is not None:
            conn.verif_batches_done += 1

    IMAPConnection.write_updates = write_updates
    try:
        yield
    finally:
        IMAPConnection.write_updates = orig


def parse_flags(blob: bytes) -> frozenset:
    m = _FLAGS.search(blob)
    if not m:
        return None
    return frozenset(f.lower() for f in m.group(1).split() if f.lower() != b'\\recent')


class Shadow:
    """what an IMAP client knows about the selected mailbox from untagged data:
    one entry per sequence number, flags or None (not told yet)"""

    def __init__(self) -> None:
        self.msgs: list = []
        self.errors: list[str] = []

    def feed(self, data: bytes) -> list[bytes]:
        """apply untagged EXISTS/EXPUNGE/FETCH lines; returns the other lines"""
        rest = []
        for line in data.split(b'\n'):
            if not line.strip():
                continue
            m = _UNTAGGED.match(line)
            if not m:
                rest.append(line.rstrip(b'\r'))
                continue
            n, what, args = int(m.group(1)), m.group(2), m.group(3) or b''
            if what == b'EXISTS':
                if n < len(self.msgs):
                    self.errors.append(f'EXISTS {n} shrinks a mailbox of {len(self.msgs)}')
                    del self.msgs[n:]
                while len(self.msgs) < n:
                    self.msgs.append(None)
            elif what == b'EXPUNGE':
                if not 1 <= n <= len(self.msgs):
                    self.errors.append(f'EXPUNGE {n} out of range 1..{len(self.msgs)}')
                else:
                    del self.msgs[n - 1]
            elif what == b'FETCH':
                if not 1 <= n <= len(self.msgs):
                    self.errors.append(f'FETCH {n} out of range 1..{len(self.msgs)}')
                else:
                    fl = parse_flags(args)
                    if fl is not None:
                        self.msgs[n - 1] = fl
            elif what == b'RECENT':
                if n > len(self.msgs):
                    self.errors.append(f'RECENT {n} exceeds EXISTS {len(self.msgs)}')
        return rest

    def matches(self, truth: list) -> bool:
        return len(truth) == len(self.msgs) and all(
            mine is None or mine == theirs for mine, theirs in zip(self.msgs, truth))


MSG = b'From: a@example.com\r\nSubject: t\r\n\r\nbody\r\n'


class IdleRun:
    """One scenario: idling sessions (gated ones are paused inside every
    drain), writer sessions, a probe session that reads the ground truth."""

    def __init__(self, env, gated: list[bool], n_writers: int = 1, pre=None) -> None:
        self.env = env
        self.pre = list(pre or [])     # commands every idler issues itself before IDLE
        self.gated = list(gated)
        self.n_writers = n_writers
        self.idlers = []
        self.shadows: list[Shadow] = []
        self.writers = []
        self.probe = None
        self.truths: dict[int, list] = {}
        self.hi = 0
        self.tag = 0
        self.ended: dict[int, bytes] = {}
        self.log: list[dict] = []
        self.mailbox = b'INBOX'

    async def truth(self) -> list:
        self.tag += 1
        await self.probe.send(b'p%d NOOP\r\n' % self.tag)     # FETCH alone may not report expunges
        self.tag += 1
        out = await self.probe.send(b'p%d FETCH 1:* (FLAGS)\r\n' % self.tag)
        sh = Shadow()
        n = 0
        for line in out.split(b'\n'):
            m = _UNTAGGED.match(line)
            if m and m.group(2) == b'FETCH':
                n = max(n, int(m.group(1)))
        sh.msgs = [None] * n
        sh.feed(out)
        return list(sh.msgs)

    async def start(self) -> dict:
        sel = b's SELECT ' + self.mailbox + b'\r\n'
        self.probe = await self.env.login()
        await self.probe.send(sel)
        for _ in range(self.n_writers):
            w = await self.env.login()
            await w.send(sel)
            self.writers.append(w)
        # every session selects before any IDLE starts: a SELECT sets the mailbox's
        # update event (claim_recent), which is not a change the model knows about
        for g in self.gated:
            c = await self.env.login()
            await c.send(sel)
            self.idlers.append(c)
        # the idlers' own history before IDLE (STORE, STORE.SILENT, FETCH, EXPUNGE ...)
        self.pre_output = []
        for c in self.idlers:
            for k, cmd in enumerate(self.pre):
                self.pre_output.append(await c.send(b'h%d ' % k + cmd + b'\r\n'))
        self.truths[0] = await self.truth()
        for c, g in zip(self.idlers, self.gated):
            await c.send(b'n NOOP\r\n')
            sh = Shadow()
            sh.msgs = list(self.truths[0])
            c.verif_batches = []
            c.verif_batches_done = 0
            if g:
                c.drain_gate = asyncio.Event()
            c.take()
            c.feed_nowait(b'i1 IDLE\r\n')
            self.shadows.append(sh)
        await settle()
        return self.observe()

    def observe(self) -> dict:
        phases, deliv, pushed = [], [], []
        for s, c in enumerate(self.idlers):
            data = c.take()
            pushed.append(data)
            other = self.shadows[s].feed(data)
            for line in other:
                if line.startswith(b'i1 '):
                    self.ended[s] = line
            if s in self.ended:
                phases.append(2 if self.ended[s].startswith(b'i1 OK') else 3)
            elif c.in_drain.is_set():
                phases.append(1)
            else:
                phases.append(0)
            deliv.append([k for k, v in sorted(self.truths.items()) if self.shadows[s].matches(v)])
        obs = {'phase': phases, 'deliv': deliv, 'hi': self.hi,
               'pushed': [p.decode('latin-1') for p in pushed]}
        self.log.append(obs)
        return obs

    def _burst(self, cmds: list[bytes]) -> bytes:
        buf = b''
        for cmd in cmds:
            self.tag += 1
            buf += b'w%d ' % self.tag + cmd + b'\r\n'
        return buf

    def _modseq(self):
        """glass box: the selected mailbox's highest mod-sequence (dict backend);
        None if the backend does not look as expected"""
        try:
            sets = list(self.env.config.set_cache.values())
            if len(sets) != 1:
                return None
            return sets[0][0]._inbox._mod_sequences.highest
        except Exception:
            return None

    async def _after_burst(self, n_cmds: int, before):
        """read the ground truth.  A burst that neither changes what a client sees
        nor advances the mod-sequence is not a change of the history (the idlers it
        woke nevertheless are reported instead)"""
        started_before, modseq_before = before
        await settle()
        truth = await self.truth()
        await settle()
        modseq = self._modseq()
        if truth != self.truths[self.hi] or modseq is None or modseq != modseq_before:
            self.hi += n_cmds
            self.truths[self.hi] = truth
            return self.observe(), None
        woken = [s for s, c in enumerate(self.idlers)
                 if len(c.verif_batches) > started_before[s]]
        return self.observe(), woken

    async def write(self, w: int, cmds: list[bytes]):
        """a burst: all commands in one write, executed back to back.  Returns
        (observation, None) or (observation, woken idlers) for a no-change burst"""
        started = ([len(c.verif_batches) for c in self.idlers], self._modseq())
        self.last_writer_output = await self.writers[w].send(self._burst(cmds))
        return await self._after_burst(len(cmds), started)

    async def race(self, w: int, cmds: list[bytes], s: int, line: bytes, offset: int):
        """the writer's burst and the client line of idler s are fed `offset`
        event-loop turns apart (offset < 0: the line first) without waiting for
        quiescence in between"""
        started = ([len(c.verif_batches) for c in self.idlers], self._modseq())
        c = self.idlers[s]

        def feed_line():
            if c.drain_gate is not None:
                c.drain_gate.set()
            c.feed_nowait(line)

        def feed_burst():
            self.writers[w].feed_nowait(self._burst(cmds))

        first, second = (feed_burst, feed_line) if offset >= 0 else (feed_line, feed_burst)
        first()
        for _ in range(abs(offset)):
            await asyncio.sleep(0)
        second()
        await settle()
        self.last_writer_output = self.writers[w].take()
        return await self._after_burst(len(cmds), started)

    async def noop_after_idle(self) -> list:
        """after IDLE has ended: one NOOP on every such session, then its client
        must know everything -- (idler, complete?, what the NOOP said)"""
        res = []
        truth = None
        for s, c in enumerate(self.idlers):
            if s not in self.ended or c.closed:
                continue
            out = await c.send(b'n9 NOOP\r\n')
            self.shadows[s].feed(out)
            if truth is None:
                truth = await self.truth()
            res.append((s, self.shadows[s].matches(truth), out.decode('latin-1'),
                        [None if m is None else sorted(x.decode() for x in m)
                         for m in self.shadows[s].msgs],
                        [sorted(x.decode() for x in m) for m in truth]))
        return res

    async def release(self, s: int) -> tuple[dict, bool]:
        c = self.idlers[s]
        done0 = c.verif_batches_done
        # before the first batch the drain is the one of the continuation "+ Idling."
        is_cont = len(c.verif_batches) == 0
        assert c.in_drain.is_set()
        c.drain_gate.set()
        c.drain_gate.clear()
        await settle()
        last = is_cont or c.verif_batches_done > done0
        return self.observe(), last

    async def client_line(self, s: int, line: bytes) -> dict:
        c = self.idlers[s]
        if c.drain_gate is not None:
            c.drain_gate.set()          # opened for good
        c.feed_nowait(line)
        await settle()
        return self.observe()

    async def close(self) -> None:
        """open every gate and hang up, so that no server task is left blocked"""
        for c in self.idlers:
            if c.drain_gate is not None:
                c.drain_gate.set()
                c.drain_gate = None
        for c in self.idlers + self.writers + [self.probe]:
            if c is not None and not c.closed:
                c.eof = True
                c._starved.clear()
                c._data.set()
        for _ in range(200):
            if all(c is None or c.task is None or c.task.done()
                   for c in self.idlers + self.writers + [self.probe]):
                break
            await asyncio.sleep(0)

    async def open_all(self) -> dict:
        for c in self.idlers:
            if c.drain_gate is not None:
                c.drain_gate.set()
        await settle()
        return self.observe()
