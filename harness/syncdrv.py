"""Deterministic drivers for the C20 / C16 checks (helper of harness/props/C20.py, C16.py).

`Stepper` runs asyncio tasks one ready handle at a time on a CPython 3.12
selector loop that is never started: the running-loop pointer is set by hand
and the harness pops the handle it chose from `loop._ready` and runs it.  A
"step" of task t is therefore exactly "t runs from one suspension point to
the next" -- the only place where asyncio switches tasks.  Timers (used by
`FileLock`'s retry sleeps) are fired by choice as well: running a task that
sleeps fires its timer first, whatever its deadline (any wake-up order of
sleeping tasks is possible on a real machine).

`RWRun` / `FLRun` execute task programs over the real `_AsyncioReadWriteLock`
/ `FileLock` of /repo and record, per step, the set of runnable tasks before
the step, the enter/exit events of critical sections and a glass-box view of
the lock objects after it.
"""
from __future__ import annotations

import asyncio
import os
import shutil
import tempfile
from asyncio import events


class Stepper:
    def __init__(self) -> None:
        self.loop = asyncio.SelectorEventLoop()
        self.tasks: list[asyncio.Task] = []
        self.timer_fires: list[int] = []
        self._prev = None

    def __enter__(self) -> 'Stepper':
        self._prev = events._get_running_loop()
        events._set_running_loop(self.loop)
        return self

    def __exit__(self, *exc) -> None:
        # finish whatever is left so that no coroutine is destroyed pending
        for t in self.tasks:
            if not t.done():
                t.cancel()
        for _ in range(10000):
            self._fire_all_timers()
            if not self.loop._ready:
                break
            self.loop._ready.popleft()._run()
        for t in self.tasks:
            if t.done() and not t.cancelled():
                t.exception()
        events._set_running_loop(self._prev)
        self.loop.close()

    def spawn(self, coro) -> int:
        t = self.loop.create_task(coro)
        self.tasks.append(t)
        self.timer_fires.append(0)
        return len(self.tasks) - 1

    # ---- inspection
    @staticmethod
    def _owner(handle):
        return getattr(handle._callback, '__self__', None)

    def _ready_handle(self, i: int):
        t = self.tasks[i]
        for h in self.loop._ready:
            if not h._cancelled and self._owner(h) is t:
                return h
        return None

    def _timer_handle(self, i: int):
        fut = getattr(self.tasks[i], '_fut_waiter', None)
        if fut is None:
            return None
        for h in self.loop._scheduled:
            if not h._cancelled and h._args and h._args[0] is fut:
                return h
        return None

    def enabled(self) -> list[int]:
        res = []
        for i, t in enumerate(self.tasks):
            if t.done():
                continue
            if self._ready_handle(i) is not None or self._timer_handle(i) is not None:
                res.append(i)
        return res

    def foreign_handles(self) -> int:
        """ready handles that belong to no spawned task (must stay 0 for the
        one-handle-per-task reading of a step to be right)"""
        n = 0
        for h in self.loop._ready:
            if h._cancelled:
                continue
            if not any(self._owner(h) is t for t in self.tasks):
                n += 1
        return n

    # ---- actions
    def run(self, i: int) -> None:
        th = self._timer_handle(i)
        if th is not None and self._ready_handle(i) is None:
            th._run()          # sets the sleep future -> schedules the wake-up
            th.cancel()
            self.timer_fires[i] += 1
        h = self._ready_handle(i)
        if h is None:
            raise RuntimeError(f'task {i} is not runnable')
        self.loop._ready.remove(h)
        h._run()

    def cancel(self, i: int) -> bool:
        return self.tasks[i].cancel()

    def _fire_all_timers(self) -> None:
        for h in list(self.loop._scheduled):
            if not h._cancelled:
                h._run()
                h.cancel()
        self.loop._scheduled.clear()

    def status(self, i: int) -> str:
        t = self.tasks[i]
        if not t.done():
            return 'live'
        if t.cancelled():
            return 'cancelled'
        if t.exception() is not None:
            return 'exc:' + type(t.exception()).__name__
        return 'finished'


# --------------------------------------------------------------------------
# read-write lock programs
# --------------------------------------------------------------------------
class Boom(Exception):
    """raised inside a critical section by a program that asks for it"""


def _waiter_view(lock, stepper: Stepper) -> list[tuple[int, str]]:
    res = []
    for fut in (lock._waiters or ()):
        owner = -1
        for i, t in enumerate(stepper.tasks):
            if getattr(t, '_fut_waiter', None) is fut:
                owner = i
        st = 'C' if fut.cancelled() else ('W' if fut.done() else 'P')
        res.append((owner, st))
    return res


class RWRun:
    """progs: one list per task of (kind 'R'|'W', yields, raises)."""

    def __init__(self, progs, lock_factory=None) -> None:
        from pymap.concurrent import ReadWriteLock
        self.progs = progs
        self.log: list[tuple[str, str, int]] = []
        self.steps: list[dict] = []
        self.stepper = Stepper()
        self.stepper.__enter__()
        self.lock = (lock_factory or ReadWriteLock.for_asyncio)()
        self.pos: list[tuple] = [('new',)] * len(progs)
        for i, prog in enumerate(progs):
            self.stepper.spawn(self._body(i, prog))

    async def _body(self, i: int, prog) -> None:
        for a, (kind, yields, raises) in enumerate(prog):
            cm = self.lock.read_lock() if kind == 'R' else self.lock.write_lock()
            self.pos[i] = (a, 'acq')
            try:
                async with cm:
                    self.log.append(('enter', kind, i))
                    try:
                        for y in range(yields):
                            self.pos[i] = (a, 'in', yields - y - 1)
                            await asyncio.sleep(0)
                        if raises:
                            raise Boom()
                    finally:
                        self.log.append(('exit', kind, i))
            except Boom:
                pass
            self.pos[i] = (a, 'gap')
            await asyncio.sleep(0)
        self.pos[i] = ('end',)

    def close(self) -> None:
        self.stepper.__exit__(None, None, None)

    def enabled(self) -> list[int]:
        return self.stepper.enabled()

    def view(self) -> dict:
        lk = self.lock
        return {'counter': lk._counter,
                'rl': (lk._read_lock.locked(), _waiter_view(lk._read_lock, self.stepper)),
                'wl': (lk._write_lock.locked(), _waiter_view(lk._write_lock, self.stepper)),
                'status': [self.stepper.status(i) for i in range(len(self.progs))]}

    def key(self) -> tuple:
        """glass-box state used to prune the exploration: everything the future
        behaviour depends on"""
        v = self.view()
        pos = []
        for i, t in enumerate(self.stepper.tasks):
            pos.append((self.pos[i] if not t.done() else ('done',),
                        bool(getattr(t, '_must_cancel', False))))
        return (v['counter'], v['rl'][0], tuple(v['rl'][1]), v['wl'][0], tuple(v['wl'][1]),
                tuple(v['status']), tuple(pos))

    def step(self, label) -> dict:
        op, i = label
        before = self.enabled()
        n0 = len(self.log)
        err = None
        if op == 'run':
            self.stepper.run(i)
        elif op == 'cancel':
            self.stepper.cancel(i)
        else:
            raise ValueError(label)
        rec = {'label': label, 'enabled': before, 'events': self.log[n0:],
               'view': self.view(), 'foreign': self.stepper.foreign_handles()}
        self.steps.append(rec)
        return rec


def overlap_monitor(log) -> str | None:
    """exclusion oracle on an enter/exit log: at most one writer inside, and
    then no reader"""
    readers: set[int] = set()
    writers: set[int] = set()
    for ev, kind, i in log:
        if ev == 'enter':
            (readers if kind == 'R' else writers).add(i)
            if len(writers) > 1:
                return f'two writers inside: {sorted(writers)}'
            if writers and readers:
                return f'writer {sorted(writers)} overlaps reader(s) {sorted(readers)}'
        else:
            (readers if kind == 'R' else writers).discard(i)
    return None


# --------------------------------------------------------------------------
# lock-file programs
# --------------------------------------------------------------------------
class FLRun:
    """progs: one list per task of (kind 'R'|'W', yields, raises).  Every task
    uses its own FileLock object on the same path (as maildir's io.py does),
    with `ndelays` retry delays."""

    def __init__(self, progs, ndelays: int = 2, stale: str | None = None) -> None:
        from pymap.concurrent import FileLock
        self.progs = progs
        self.dir = tempfile.mkdtemp(prefix='pymapverif-fl-')
        self.path = os.path.join(self.dir, 'x.lock')
        self.log: list[tuple[str, str, int]] = []
        self.steps: list[dict] = []
        self.stepper = Stepper()
        self.stepper.__enter__()
        delays = tuple(0.01 * (k + 1) for k in range(ndelays))
        self.FileLock = FileLock
        self.delays = delays
        self.pos: list[tuple] = [('new',)] * len(progs)
        self.base_fires = [0] * len(progs)
        if stale is not None:
            open(self.path, 'x').close()
            if stale == 'expired':
                self.expire()
        for i, prog in enumerate(progs):
            self.stepper.spawn(self._body(i, prog))

    def _lock(self):
        return self.FileLock(self.path, expiration=600.0,
                             read_retry_delay=self.delays,
                             write_retry_delay=self.delays)

    async def _body(self, i: int, prog) -> None:
        for a, (kind, yields, raises) in enumerate(prog):
            lk = self._lock()
            cm = lk.read_lock() if kind == 'R' else lk.write_lock()
            self.pos[i] = (a, 'acq')
            self.base_fires[i] = self.stepper.timer_fires[i]
            try:
                async with cm:
                    self.log.append(('enter', kind, i))
                    try:
                        for y in range(yields):
                            self.pos[i] = (a, 'in', yields - y - 1)
                            await asyncio.sleep(0)
                        if raises:
                            raise Boom()
                    finally:
                        self.log.append(('exit', kind, i))
            except Boom:
                pass
            except TimeoutError:
                self.log.append(('timeout', kind, i))
            self.pos[i] = (a, 'gap')
            await asyncio.sleep(0)
        self.pos[i] = ('end',)

    def expire(self) -> None:
        if os.path.exists(self.path):
            st = os.stat(self.path)
            os.utime(self.path, (st.st_atime - 100000, st.st_mtime - 100000))

    def file_state(self) -> str:
        import time
        try:
            st = os.stat(self.path)
        except FileNotFoundError:
            return 'absent'
        return 'expired' if time.time() - st.st_mtime >= 600.0 else 'fresh'

    def close(self) -> None:
        self.stepper.__exit__(None, None, None)
        shutil.rmtree(self.dir, ignore_errors=True)

    def enabled(self) -> list[int]:
        return self.stepper.enabled()

    def view(self) -> dict:
        return {'file': self.file_state(),
                'status': [self.stepper.status(i) for i in range(len(self.progs))]}

    def key(self) -> tuple:
        pos = []
        for i, t in enumerate(self.stepper.tasks):
            fw = getattr(t, '_fut_waiter', None)
            pos.append((self.pos[i] if not t.done() else ('done',),
                        bool(getattr(t, '_must_cancel', False)),
                        fw is not None and fw.cancelled(),
                        self.stepper.timer_fires[i] - self.base_fires[i],
                        self.stepper._timer_handle(i) is not None))
        return (self.file_state(), tuple(self.view()['status']), tuple(pos))

    def step(self, label) -> dict:
        op, i = label
        before = self.enabled()
        n0 = len(self.log)
        if op == 'run':
            self.stepper.run(i)
        elif op == 'cancel':
            self.stepper.cancel(i)
        elif op == 'expire':
            self.expire()
        else:
            raise ValueError(label)
        rec = {'label': label, 'enabled': before, 'events': self.log[n0:],
               'view': self.view(), 'foreign': self.stepper.foreign_handles()}
        self.steps.append(rec)
        return rec


def writers_monitor(log) -> str | None:
    """FileLock oracle: never two writers inside"""
    writers: set[int] = set()
    for ev, kind, i in log:
        if kind != 'W':
            continue
        if ev == 'enter':
            writers.add(i)
            if len(writers) > 1:
                return f'two lock-file writers inside: {sorted(writers)}'
        elif ev == 'exit':
            writers.discard(i)
    return None
