"""Input generators for C06 (every input is answered).

Three streams of IMAP command lines (grammar-derived, mutated, raw), stored
message bytes, ManageSieve lines.  Everything is drawn from the `rng` handed
in; nothing here imports pymap.

A generated *line* is the complete byte string a client would send for one
command, possibly containing synchronizing literals `{n}\\r\\n<n bytes>`; the
driver (harness/c06drv.py) splits it at those points and honours continuation
requests.
"""
from __future__ import annotations

MONTHS = ['Jan', 'Feb', 'Mar', 'Apr', 'May', 'Jun', 'Jul', 'Aug', 'Sep', 'Oct', 'Nov', 'Dec']

MAILBOXES = [b'INBOX', b'inbox', b'Sent', b'Trash', b'"Sent"', b'nope', b'a/b', b'"a b"', b'&AOk-',
             b'x&-y', b'"&AOkA6Q-"', b'Sent/x', b'%', b'*', b'""', b'"\\\\"', b'"\\""', b'~x', b'a]b']
# names that exercise modified UTF-7 error paths
BAD_MAILBOXES = [b'&', b'&abc', b'a&b', b'&AAAA', b'"&,,,-"', b'&AOk', b'&-&', b'"&"', b'x&AOk-&',
                 b'&AOkA-', b'&2D0-', b'"&\xff-"', b'&A-', b'&AA-', b'&AAA-', b'"a\xffb"', b'&!-']
FLAGS = [b'\\Seen', b'\\Deleted', b'\\Flagged', b'\\Answered', b'\\Draft', b'\\Recent', b'\\*',
         b'kw', b'$Forwarded', b'\\seen', b'\\X', b'a.b', b'\\']
CHARSETS = [b'utf-8', b'UTF-8', b'us-ascii', b'ascii', b'latin-1', b'utf-16', b'utf-32', b'utf-7',
            b'punycode', b'undefined', b'idna', b'hex', b'rot13', b'nope', b'"utf-8"', b'"\xff"',
            b'"a\x00b"', b'unicode_escape', b'cp037', b'""', b'{5+}\r\nutf-8']
SEARCH_FLAGKEYS = [b'ALL', b'ANSWERED', b'DELETED', b'FLAGGED', b'NEW', b'OLD', b'RECENT', b'SEEN',
                   b'UNANSWERED', b'UNDELETED', b'UNFLAGGED', b'UNSEEN', b'DRAFT', b'UNDRAFT']
SEARCH_STRKEYS = [b'BCC', b'BODY', b'CC', b'FROM', b'SUBJECT', b'TEXT', b'TO']
SEARCH_DATEKEYS = [b'BEFORE', b'ON', b'SINCE', b'SENTBEFORE', b'SENTON', b'SENTSINCE']
FETCH_SIMPLE = [b'ENVELOPE', b'FLAGS', b'INTERNALDATE', b'UID', b'RFC822.SIZE', b'BODYSTRUCTURE',
                b'EMAILID', b'THREADID', b'RFC822', b'RFC822.HEADER', b'RFC822.TEXT', b'BODY']
STATUS_ATTRS = [b'MESSAGES', b'RECENT', b'UIDNEXT', b'UIDVALIDITY', b'UNSEEN', b'MAILBOXID']

COMMAND_NAMES = [b'CAPABILITY', b'LOGOUT', b'NOOP', b'ID', b'APPEND', b'CREATE', b'DELETE', b'EXAMINE',
                 b'LIST', b'LSUB', b'RENAME', b'SELECT', b'STATUS', b'SUBSCRIBE', b'UNSUBSCRIBE',
                 b'AUTHENTICATE', b'LOGIN', b'STARTTLS', b'CHECK', b'CLOSE', b'EXPUNGE', b'COPY',
                 b'MOVE', b'FETCH', b'STORE', b'SEARCH', b'UID', b'UID COPY', b'UID MOVE',
                 b'UID EXPUNGE', b'UID FETCH', b'UID SEARCH', b'UID STORE', b'IDLE']


class Gen:
    def __init__(self, rng) -> None:
        self.rng = rng
        self.n = 0
        self.big = 0.1      # share of the over-long variants (kept low: case size)

    # ------------------------------------------------------------ lexical
    def ch(self, xs):
        return self.rng.choice(xs)

    def p(self, prob: float) -> bool:
        return self.rng.random() < prob

    def sp(self) -> bytes:
        return b' ' if self.p(0.93) else self.ch([b'  ', b'', b'   ', b'\t'])

    def tag(self) -> bytes:
        self.n += 1
        if self.p(0.9):
            return b't%d' % self.n
        return self.ch([b'a', b'A.1', b'*', b'+', b'1', b']', b'a[b', b'', b' x', b'\xff', b'a+b', b'{1}',
                        b'"t"', b'~', b'%', b'(', b'\\'])

    def number(self) -> bytes:
        r = self.rng.random()
        if r < 0.6:
            return b'%d' % self.rng.randint(0, 12)
        if r < 0.8:
            return b'%d' % self.ch([0, 1, 99, 4096, 4097, 2 ** 32 - 1, 2 ** 32, 2 ** 63, 2 ** 64, 10 ** 30])
        if r < 0.87:
            return b'1' * self.ch([4299, 4300, 4301, 5000]) if self.p(self.big) else b'1' * 40
        if r < 0.93:
            return b'0' * (self.ch([1, 5, 4301]) if self.p(self.big) else 3) + b'7'
        return self.ch([b'-1', b'+1', b'1.0', b'1e3', b'0x1', b'', b'\xb2', b'1 '])

    def string_of(self, val: bytes, allow_sync: bool = True) -> bytes:
        r = self.rng.random()
        if r < 0.3:
            return b'"' + val.replace(b'\\', b'\\\\').replace(b'"', b'\\"') + b'"'
        if r < 0.55:
            return b'{%d+}\r\n' % len(val) + val
        if r < 0.75 and allow_sync:
            return b'{%d}\r\n' % len(val) + val
        if r < 0.8:
            return b'~{%d+}\r\n' % len(val) + val
        return val

    def word(self) -> bytes:
        r = self.rng.random()
        if r < 0.55:
            return self.ch([b'x', b'abc', b'hello', b'Re', b'a@b.c', b'1', b'', b'X-Y'])
        if r < 0.7:
            return bytes(self.rng.choice(b'abcxyz01 .-_@') for _ in range(self.rng.randint(0, 12)))
        if r < 0.82:
            return bytes(self.rng.randrange(256) for _ in range(self.rng.randint(1, 6)))
        if r < 0.9:
            return self.ch([b'\xc3\xa9', b'\xff', b'\xe9', b'\x00', b'a\x00b', b'\r', b'\n', b'a\r\nb', b'\xed\xa0\x80',
                            b'\xf4\x90\x80\x80', b'+AGE-', b'\\u12', b'\\N{x}'])
        return b'y' * (self.ch([4096, 4097]) if self.p(self.big) else self.ch([63, 64, 100]))

    def astring(self, val: bytes | None = None) -> bytes:
        if val is None:
            val = self.word()
        return self.string_of(val)

    def mailbox(self) -> bytes:
        r = self.rng.random()
        if r < 0.6:
            return self.ch(MAILBOXES)
        if r < 0.8:
            return self.ch(BAD_MAILBOXES)
        if r < 0.9:
            return self.string_of(self.ch(MAILBOXES + BAD_MAILBOXES).strip(b'"'))
        return self.astring()

    def seqnum(self) -> bytes:
        r = self.rng.random()
        if r < 0.25:
            return b'*'
        if r < 0.85:
            return b'%d' % self.rng.randint(1, 8)
        if r < 0.93:
            return b'%d' % self.ch([0, 9, 100, 101, 104, 105, 2 ** 32 - 1, 2 ** 32, 10 ** 20])
        return self.ch([b'1' * 4301 if self.p(self.big) else b'1' * 30, b'0', b'01', b'-1', b'', b'$'])

    def seqset(self) -> bytes:
        parts = []
        for _ in range(self.ch([1, 1, 1, 2, 3])):
            parts.append(self.seqnum() + b':' + self.seqnum() if self.p(0.4) else self.seqnum())
        s = b','.join(parts)
        if self.p(0.05):
            s += self.ch([b',', b':', b',,', b':1:2', b' ,2'])
        return s

    def flag(self) -> bytes:
        return self.ch(FLAGS)

    def flag_list(self) -> bytes:
        k = self.ch([0, 1, 1, 2, 3])
        body = b' '.join(self.flag() for _ in range(k))
        r = self.rng.random()
        if r < 0.85:
            return b'(' + body + b')'
        return self.ch([b'(' + body, body + b')', b'( ' + body + b' )', b'((' + body + b'))', b'(' + body + b'))'])

    def datetime(self) -> bytes:
        r = self.rng.random()
        if r < 0.7:
            return b'"%02d-%s-%04d %02d:%02d:%02d %s%02d%02d"' % (
                self.rng.randint(1, 28), self.ch(MONTHS).encode(), self.rng.randint(1970, 2040),
                self.rng.randint(0, 23), self.rng.randint(0, 59), self.rng.randint(0, 59),
                self.ch([b'+', b'-']), self.rng.randint(0, 14), self.ch([0, 30]))
        return self.ch([b'" 1-Jan-2020 01:01:01 +0000"', b'"31-Feb-2020 01:01:01 +0000"',
                        b'"01-Jan-0000 01:01:01 +0000"', b'"01-Jan-9999 23:59:59 -2359"',
                        b'"01-Jan-2020 01:01:01 +9999"', b'"01-Jan-2020 25:01:01 +0000"',
                        b'"01-Jan-2020 01:01:01"', b'"01-jan-2020 01:01:01 +0000"',
                        b'"01-Jan-2020 01:01:01 Z"', b'"\xff"', b'""', b'"01-Jan-0001 00:00:00 +2359"',
                        b'"01-Jan-2020 01:01:01 +00:00"', b'"01-Jan-2020 01:01:01 +000000"',
                        b'"1-1-2020"', b'01-Jan-2020', b'"01-Jan-2020 01:01:01 +0000', b'"01-Jan-10000 01:01:01 +0000"'])

    def date(self) -> bytes:
        r = self.rng.random()
        if r < 0.7:
            d = b'%d-%s-%04d' % (self.rng.randint(1, 28), self.ch(MONTHS).encode(), self.rng.randint(1990, 2030))
            return b'"' + d + b'"' if self.p(0.3) else d
        return self.ch([b'31-Feb-2020', b'1-Jan-0000', b'1-Jan-9999', b'"1-Jan-2020 "', b'1-jan-2020', b'{10+}\r\n1-Jan-2020',
                        b'01-Jan-20', b'"\xff1-Jan-2020"', b'x', b'""', b'1-Jan-10000', b'(1-Jan-2020)'])

    def ext_arg(self, depth: int = 0) -> bytes:
        r = self.rng.random()
        if r < 0.3:
            return b''
        if r < 0.45:
            return b' ' + self.number()
        if r < 0.55:
            return b' ' + self.seqset()
        if depth > 3:
            return b' (x)'
        items = [self.astring() if self.p(0.7) else self.ext_arg(depth + 1).strip() or b'()'
                 for _ in range(self.ch([0, 1, 2, 3]))]
        return b' (' + b' '.join(items) + b')'

    def options(self) -> bytes:
        if self.p(0.6):
            return b''
        names = [b'CONDSTORE', b'USE', b'QRESYNC', b'CHANGEDSINCE', b'UNCHANGEDSINCE', b'x', b'a.b:c', b'-', b'9x', b'UTF8']
        k = self.ch([0, 1, 1, 2, 3])
        body = b' '.join(self.ch(names) + self.ext_arg() for _ in range(k))
        r = self.rng.random()
        if r < 0.85:
            return b' (' + body + b')'
        return self.ch([b' (' + body, b'(' + body + b')', b' ( ' + body + b' )', b' ()', b' (()'])

    # ------------------------------------------------------------ fetch
    def section(self) -> bytes:
        parts = b'.'.join(b'%d' % self.rng.randint(1, 3) for _ in range(self.ch([0, 0, 1, 2, 3])))
        if self.p(0.04):
            parts = self.ch([b'0', b'1..2', b'1.', b'.1', b'1 . 2', b'1' * (4301 if self.p(self.big) else 20), b'01'])
        r = self.rng.random()
        spec = b''
        if r < 0.5:
            spec = self.ch([b'HEADER', b'TEXT', b'MIME', b'header', b'HEADER.FIELDS (Subject)',
                            b'HEADER.FIELDS.NOT (From To)', b'HEADER.FIELDS ()', b'HEADER.FIELDS',
                            b'HEADER.FIELDS ({7+}\r\nSubject)', b'HEADER.FIELDS ({7}\r\nSubject x)',
                            b'HEADER.FIELDS ("a b" \xff)', b'BOGUS', b'HEADER.FIELDS (a (b))'])
        if parts and spec:
            return parts + self.ch([b'.', b'.', b'.', b' . ', b'']) + spec
        return parts + spec

    def partial(self) -> bytes:
        if self.p(0.65):
            return b''
        if self.p(0.8):
            return b'<%d.%d>' % (self.rng.randint(0, 50), self.rng.randint(0, 50))
        return self.ch([b'<0>', b'<0.0>', b'<1.>', b'< 1 . 2 >', b'<-1.2>', b'<1.2', b'<' + b'1' * (4301 if self.p(self.big) else 25) + b'.1>',
                        b'<1.' + b'1' * (4301 if self.p(self.big) else 25) + b'>', b'<4294967296.4294967296>', b'<99999999999999999999.5>'])

    def fetch_att(self) -> bytes:
        r = self.rng.random()
        if r < 0.45:
            return self.ch(FETCH_SIMPLE)
        if r < 0.9:
            name = self.ch([b'BODY', b'BODY.PEEK', b'BINARY', b'BINARY.PEEK', b'BINARY.SIZE', b'body', b'Body.Peek'])
            close = b']' if self.p(0.95) else self.ch([b'', b' ]', b']]'])
            return name + self.ch([b'[', b'[', b'[', b' [ ']) + self.section() + close + self.partial()
        return self.ch([b'BOGUS', b'BODY.PEEK', b'BINARY', b'RFC822.BOGUS', b'FLAGS[1]', b'UID<1.2>', b'', b'()',
                        b'BODY[', b'BODY]', b'MODSEQ', b'X-GM-LABELS'])

    def fetch_atts(self) -> bytes:
        r = self.rng.random()
        if r < 0.15:
            return self.ch([b'ALL', b'FULL', b'FAST', b'all', b'Fast'])
        if r < 0.45:
            return self.fetch_att()
        atts = [self.fetch_att() for _ in range(self.ch([0, 1, 2, 3, 5]))]
        s = b'(' + b' '.join(atts) + b')'
        if self.p(0.06):
            s = self.ch([s[:-1], s + b')', b'(' + s + b')', b'( ' + s[1:-1] + b' )', s.replace(b' ', b'  ')])
        return s

    # ------------------------------------------------------------ search
    def search_key(self, depth: int = 0) -> bytes:
        r = self.rng.random()
        if depth > 4:
            r *= 0.5
        if r < 0.12:
            return self.ch(SEARCH_FLAGKEYS)
        if r < 0.3:
            return self.ch(SEARCH_STRKEYS) + self.sp() + self.astring()
        if r < 0.38:
            return self.ch(SEARCH_DATEKEYS) + self.sp() + self.date()
        if r < 0.44:
            return self.ch([b'KEYWORD', b'UNKEYWORD']) + self.sp() + self.flag()
        if r < 0.5:
            return self.ch([b'LARGER', b'SMALLER']) + self.sp() + self.number()
        if r < 0.56:
            return b'HEADER' + self.sp() + self.astring() + self.sp() + self.astring()
        if r < 0.6:
            return self.ch([b'EMAILID', b'THREADID']) + self.sp() + self.ch(
                [b'M1', b'Tabc', b'x' * 255, b'x' * 256, b'', b'"M1"', b'M-_9', b'\xff'])
        if r < 0.66:
            return b'UID ' + self.seqset()
        if r < 0.72:
            return self.seqset()
        if r < 0.8:
            return self.ch([b'NOT ', b'not ', b'NOT  ', b'NOT', b'NOT NOT ', b'not NOT  Not ']) + self.search_key(depth + 1)
        if r < 0.88:
            return b'OR' + self.sp() + self.search_key(depth + 1) + self.sp() + self.search_key(depth + 1)
        if r < 0.96:
            ks = [self.search_key(depth + 1) for _ in range(self.ch([0, 1, 2, 3]))]
            return b'(' + b' '.join(ks) + b')'
        return self.ch([b'BOGUS', b'', b'OR ALL', b'NOT', b'()', b'(', b')', b'MODSEQ 5', b'HEADER x',
                        b'SUBJECT', b'LARGER x', b'KEYWORD \\Seen', b'((ALL)', b'OLDER 5'])

    # ------------------------------------------------------------ message
    def message(self) -> bytes:
        r = self.rng.random()
        if r < 0.35:
            return (b'From: a@b.c\r\nTo: d@e.f\r\nSubject: ' + self.ch([b'hi', b'Re: hi', b'[x] fwd: re: y', b''])
                    + b'\r\nDate: Mon, 1 Jan 2020 01:01:01 +0000\r\nMessage-Id: <m%d@x>\r\n\r\nbody %d\r\n'
                    % (self.rng.randint(0, 99), self.rng.randint(0, 99)))
        if r < 0.8:
            return self.ch(ADVERSARIAL_MESSAGES)
        if r < 0.9:
            return bytes(self.rng.randrange(256) for _ in range(self.rng.randint(0, 60)))
        m = bytearray(self.ch(ADVERSARIAL_MESSAGES))
        for _ in range(self.rng.randint(1, 4)):
            k = self.rng.randrange(len(m) + 1)
            if self.p(0.5):
                m.insert(k, self.rng.randrange(256))
            elif m:
                del m[min(k, len(m) - 1)]
        return bytes(m)

    def literal_msg(self, m: bytes | None = None) -> bytes:
        if m is None:
            m = self.message()
        r = self.rng.random()
        n = len(m)
        if r < 0.06:
            n = self.ch([0, max(0, len(m) - 1), len(m) + 1])
        pre = b'~' if self.p(0.08) else b''
        if r < 0.55:
            return pre + b'{%d+}\r\n' % n + m
        return pre + b'{%d}\r\n' % n + m

    # ------------------------------------------------------------ commands
    def args(self, name: bytes) -> bytes:
        sp = self.sp
        if name in (b'CAPABILITY', b'LOGOUT', b'NOOP', b'STARTTLS', b'CHECK', b'CLOSE', b'IDLE', b'EXPUNGE'):
            return b'' if self.p(0.85) else self.ch([b' ', b' x', b'  ', b' 1', b' ()'])
        if name == b'ID':
            if self.p(0.3):
                return sp() + self.ch([b'NIL', b'nil', b'NILL', b'"NIL"'])
            k = self.ch([0, 1, 2, 2, 3, 30, 31])
            items = [self.string_of(self.word()) if self.p(0.9) else self.ch([b'NIL', b'x', b'()'])
                     for _ in range(2 * k if self.p(0.9) else 2 * k + 1)]
            return sp() + b'(' + b' '.join(items) + b')'
        if name == b'LOGIN':
            u = self.ch([b'testuser', b'testuser', b'nobody', b'', b'\xff', b'test user'])
            pw = self.ch([b'testpass', b'testpass', b'wrong', b'', b'\xff\xfe', b'x' * (5000 if self.p(self.big) else 70)])
            s = sp() + self.astring(u) + sp() + self.astring(pw)
            return s if self.p(0.9) else self.ch([sp() + self.astring(u), s + b' x', b''])
        if name == b'AUTHENTICATE':
            return sp() + self.ch([b'PLAIN', b'LOGIN', b'plain', b'BOGUS', b'"PLAIN"', b'', b'PLAIN =', b'EXTERNAL',
                                   b'PLAIN AHRlc3R1c2VyAHRlc3RwYXNz'])
        if name in (b'SELECT', b'EXAMINE', b'CREATE'):
            return sp() + self.mailbox() + self.options()
        if name in (b'DELETE', b'SUBSCRIBE', b'UNSUBSCRIBE'):
            return sp() + self.mailbox() + (b'' if self.p(0.95) else b' x')
        if name == b'RENAME':
            return sp() + self.mailbox() + sp() + self.mailbox() + self.options()
        if name in (b'LIST', b'LSUB'):
            pat = self.ch([b'*', b'%', b'""', b'"*"', b'INBOX', b'S*', b'%/%', b'{1+}\r\n*', b'{1}\r\n*', b'&', b'&AOk-*',
                           b'"&x"', b'a b', b'(x)', b'*' * 30 + b'x', b'%*' * 20 + b'z', b'\\', b'"\xff"', b'*]', b'"a\nb"'])
            return sp() + self.mailbox() + sp() + pat
        if name == b'STATUS':
            k = self.ch([0, 1, 2, 3, 6])
            atts = [self.ch(STATUS_ATTRS) if self.p(0.9) else self.ch([b'BOGUS', b'messages', b'SIZE', b'()', b'""'])
                    for _ in range(k)]
            lst = b'(' + b' '.join(atts) + b')'
            if self.p(0.05):
                lst = self.ch([lst[:-1], lst[1:], b'MESSAGES', b'( MESSAGES )'])
            return sp() + self.mailbox() + sp() + lst
        if name == b'APPEND':
            s = sp() + self.mailbox()
            for _ in range(self.ch([1, 1, 1, 2, 3, 0])):
                s += sp()
                if self.p(0.4):
                    s += self.flag_list() + sp()
                if self.p(0.3):
                    s += self.datetime() + sp()
                if self.p(0.08):
                    s += self.ch([b'UTF8 (', b'X ', b'UTF8 ', b'a (b) '])
                s += self.literal_msg()
            return s
        if name in (b'UID EXPUNGE',):
            return sp() + self.seqset()
        if name in (b'COPY', b'MOVE', b'UID COPY', b'UID MOVE'):
            return sp() + self.seqset() + sp() + self.mailbox()
        if name in (b'FETCH', b'UID FETCH'):
            return sp() + self.seqset() + sp() + self.fetch_atts() + self.options()
        if name in (b'STORE', b'UID STORE'):
            info = self.ch([b'FLAGS', b'+FLAGS', b'-FLAGS', b'FLAGS.SILENT', b'+FLAGS.SILENT', b'-flags.silent',
                            b'FLAGS.', b'*FLAGS', b'FLAG'])
            fl = self.flag_list() if self.p(0.6) else b' '.join(self.flag() for _ in range(self.ch([0, 1, 2])))
            return sp() + self.seqset() + self.options() + sp() + info + sp() + fl
        if name in (b'SEARCH', b'UID SEARCH'):
            s = b''
            if self.p(0.15):
                s += self.ch([b' RETURN (MIN MAX)', b' RETURN ()', b' RETURN', b' return (ALL)', b' RETURN (COUNT', b'RETURN (MIN)'])
            if self.p(0.25):
                s += sp() + self.ch([b'CHARSET', b'charset']) + sp() + self.ch(CHARSETS)
            for _ in range(self.ch([1, 1, 1, 2, 3, 0])):
                s += sp() + self.search_key()
            return s
        if name == b'UID':
            return self.ch([b'', b' ', b' UID FETCH 1 FLAGS', b' NOOP', b' BOGUS 1'])
        return b''

    def grammar_line(self, name: bytes | None = None) -> bytes:
        if name is None:
            name = self.ch(COMMAND_NAMES)
        nm = name if self.p(0.8) else name.lower() if self.p(0.5) else name.title()
        if b' ' in nm and self.p(0.05):
            nm = nm.replace(b' ', b'  ')
        eol = b'\r\n' if self.p(0.93) else self.ch([b'\n', b' \r\n', b'\r\r\n', b'\r\n'])
        return self.tag() + self.sp() + nm + self.args(name) + eol

    # ------------------------------------------------------------ mutation
    TOKENS = [b'NIL', b'(', b')', b' ', b'"', b'{3+}\r\n', b'{3}\r\n', b'~{1+}\r\n', b'{0}\r\n', b' CHARSET ', b' RETURN ',
              b'OR ', b'NOT ', b'BODY[', b']', b'<0.1>', b'&', b'&-', b'&AOk-', b'UID ', b'1:*', b'*', b'\\Seen', b'utf-16',
              b'"01-Jan-2020 01:01:01 +0000"', b'HEADER.FIELDS (', b'1.', b'.MIME', b'9' * 30, b'\xff', b'INBOX',
              b'\r\n', b'\n', b'\r', b'\x00', b'\\', b'\\"', b'{', b'}', b'+}', b'[', b'%', b'~']

    def mutate(self, line: bytes, k: int | None = None) -> bytes:
        b = bytearray(line)
        for _ in range(k or self.ch([1, 1, 1, 2, 3])):
            pos = self.rng.randrange(len(b) + 1)
            op = self.rng.random()
            if op < 0.25:
                b[pos:pos] = self.ch(self.TOKENS)
            elif op < 0.45:
                b.insert(pos, self.rng.randrange(256))
            elif op < 0.65 and b:
                del b[min(pos, len(b) - 1)]
            elif op < 0.85 and b:
                b[min(pos, len(b) - 1)] = self.rng.randrange(256)
            elif op < 0.93 and b:
                b[min(pos, len(b) - 1)] ^= 1 << self.rng.randrange(8)
            elif b:
                j = self.rng.randrange(len(b) + 1)
                b[pos:pos] = b[min(j, pos):min(max(j, pos), min(j, pos) + 12)]
        return bytes(b)

    def raw_line(self) -> bytes:
        r = self.rng.random()
        n = self.rng.randint(0, 24)
        if r < 0.5:
            alph = b' ()[]{}<>"\\*%&-+~.:,019aAxX\r\n\x00\x7f\x80\xff'
            s = bytes(self.rng.choice(alph) for _ in range(n))
        else:
            s = bytes(self.rng.randrange(256) for _ in range(n))
        return s + self.ch([b'\r\n', b'\r\n', b'\n'])

    # ------------------------------------------------------------ deep nesting (RecursionError routes)
    def deep_lines(self, depth: int) -> list[bytes]:
        d = depth
        return [
            b'r1 SEARCH ' + b'(' * d + b'ALL' + b')' * d + b'\r\n',
            b'r2 SEARCH ' + b'OR ' * d + b'ALL' + b' ALL' * d + b'\r\n',
            b'r3 SEARCH ' + b'NOT (' * d + b'ALL' + b')' * d + b'\r\n',
            b'r4 FETCH 1 FLAGS (x ' + b'(' * d + b')' * d + b')\r\n',
            b'r5 SELECT INBOX (x ' + b'(' * d + b'a' + b')' * d + b')\r\n',
            b'r6 STORE 1 (x ' + b'(' * d + b')' * d + b') FLAGS ()\r\n',
            b'r7 UID SEARCH ' + b'(' * d + b'\r\n',
            b'r8 SEARCH ' + b'OR ' * d + b'\r\n',
            b'r9 CREATE x (a ' + b'(' * d + b'\r\n',
            b'r10 APPEND INBOX X ' + b'(' * d + b')' * d + b' {1+}\r\nx\r\n',
            b'r11 RENAME a b (x ' + b'(' * d + b'y' + b')' * d + b')\r\n',
        ]


def _hdr(name: bytes, val: bytes) -> bytes:
    return name + b': ' + val + b'\r\n\r\nbody\r\n'


ADVERSARIAL_MESSAGES = [
    b'', b'\r\n', b'\n', b'x', b'\r\n\r\n', b'Subject: x\r\n', b'Subject: x', b'Subject:\r\n\r\n',
    b': x\r\n\r\n', b'no colon here\r\n\r\nbody', b' leading fold\r\nSubject: x\r\n\r\n',
    b'Subject: x\r\n continued\r\n\tmore\r\n\r\nb', b'\xff\xfe\r\n\r\n\xff', b'Subject: \xff\xfe\r\n\r\n',
    b'S\xffbject: x\r\n\r\n', b'Subject: =?utf-8?q?=ff?=\r\n\r\n', b'Subject: =?bogus?q?x?=\r\n\r\n',
    b'Subject: =?utf-8?b?////?=\r\n\r\n', b'Subject: =?utf-8?x?abc?=\r\n\r\n',
    _hdr(b'Date', b'not a date'), _hdr(b'Date', b''), _hdr(b'Date', b'Mon, 99 Foo 99999 99:99:99 +9999'),
    _hdr(b'Date', b'Mon, 1 Jan 2020 01:01:01 +2500'), _hdr(b'Date', b'1 Jan 0000 00:00:00 +0000'),
    _hdr(b'Date', b'Thu, 01 Jan 1970 00:00:00 -0000'), _hdr(b'Date', b'31 Dec 9999 23:59:59 -2359'),
    _hdr(b'Date', b'1 Jan 1 00:00:00 +2359'), _hdr(b'Date', b'\xff'), _hdr(b'Date', b'Mon, 1 Jan 2020 01:01:01 +0000 (c'),
    _hdr(b'From', b'<'), _hdr(b'From', b'a@'), _hdr(b'From', b'@b'), _hdr(b'From', b'"unterminated <a@b>'),
    _hdr(b'From', b'a@b, , <>, c: d@e, f@g;;'), _hdr(b'From', b'group: ;'), _hdr(b'From', b'\xff <\xfe@\xfd>'),
    _hdr(b'From', b'(((((((((((('), _hdr(b'From', b'a' * 300 + b'@' + b'b' * 300), _hdr(b'From', b'=?utf-8?q?=C3=A9?= <a@b>'),
    _hdr(b'From', b'a\r\n b@c'), _hdr(b'From', b'"a\x00b" <a@b>'), _hdr(b'To', b'undisclosed-recipients:;'),
    _hdr(b'Sender', b'a@b, c@d'), _hdr(b'Sender', b''), _hdr(b'Sender', b'g: a@b;'), _hdr(b'Reply-To', b'<>'),
    _hdr(b'Message-Id', b'<'), _hdr(b'Message-Id', b'<a@b> <c@d>'), _hdr(b'Message-Id', b'\xff'),
    _hdr(b'In-Reply-To', b'<a@b>' * 50), _hdr(b'References', b'<a@b> ' * 200 + b'<'),
    _hdr(b'Subject', b're: ' * 50 + b'x'), _hdr(b'Subject', b'[' * 100 + b']' * 100), _hdr(b'Subject', b'fwd:' * 40),
    _hdr(b'Subject', b' ' * 200), _hdr(b'Subject', b'a\x00b'), _hdr(b'Subject', b'x' * 70), _hdr(b'Subject', b'"q" \\ \r'),
    _hdr(b'Content-Type', b'multipart/mixed'), _hdr(b'Content-Type', b'multipart/mixed; boundary='),
    _hdr(b'Content-Type', b'multipart/mixed; boundary=""'), _hdr(b'Content-Type', b'multipart/mixed; boundary="\xff"'),
    _hdr(b'Content-Type', b'multipart/mixed; boundary=x; boundary=y'), _hdr(b'Content-Type', b'/'),
    _hdr(b'Content-Type', b'text'), _hdr(b'Content-Type', b'text/'), _hdr(b'Content-Type', b'text/plain; charset'),
    _hdr(b'Content-Type', b'text/plain; charset*=utf-8\'\'%ff'), _hdr(b'Content-Type', b'text/plain; =x'),
    _hdr(b'Content-Type', b'text/plain; a*0=x; a*2=y'), _hdr(b'Content-Type', b'message/rfc822'),
    _hdr(b'Content-Type', b'message/rfc822; x=' + b'y' * 100), _hdr(b'Content-Type', b'\xff/\xfe'),
    _hdr(b'Content-Type', b'text/plain; charset="a\r\n b"'), _hdr(b'Content-Type', b'TEXT/PLAIN; NAME=' + b'z' * 64),
    _hdr(b'Content-Disposition', b'attachment; filename'), _hdr(b'Content-Disposition', b';'),
    _hdr(b'Content-Disposition', b'\xff'), _hdr(b'Content-Transfer-Encoding', b'base64'),
    _hdr(b'Content-Transfer-Encoding', b'bogus'), _hdr(b'Content-Transfer-Encoding', b'quoted-printable'),
    _hdr(b'Content-Transfer-Encoding', b''), _hdr(b'Content-Language', b'\xff'), _hdr(b'Content-Id', b'<'),
    _hdr(b'Content-Location', b'a\r\n b'), _hdr(b'Content-Description', b'=?x?='),
    b'Content-Type: multipart/mixed; boundary=b\r\n\r\n--b\r\n\r\nx\r\n--b--\r\n',
    b'Content-Type: multipart/mixed; boundary=b\r\n\r\n--b\r\n',
    b'Content-Type: multipart/mixed; boundary=b\r\n\r\n--b--\r\n',
    b'Content-Type: multipart/mixed; boundary=b\r\n\r\n--b\r\n--b\r\n--b--',
    b'Content-Type: multipart/mixed; boundary=b\r\n\r\npreamble only',
    b'Content-Type: multipart/mixed; boundary=b\r\n\r\n--b\r\nContent-Type: multipart/x; boundary=b\r\n\r\n--b\r\n\r\ny\r\n--b--\r\n--b--\r\n',
    b'Content-Type: multipart/mixed; boundary="(.*"\r\n\r\n--(.*\r\n\r\nx\r\n--(.*--\r\n',
    b'Content-Type: message/rfc822\r\n\r\n', b'Content-Type: message/rfc822\r\n\r\nSubject: inner\r\n\r\nx',
    b'Content-Type: message/rfc822\r\n\r\nContent-Type: message/rfc822\r\n\r\nContent-Type: message/rfc822\r\n\r\n',
    b'Content-Type: message/rfc822\r\nContent-Transfer-Encoding: base64\r\n\r\nU3ViamVjdDogeA0KDQp4',
    b'Content-Type: text/plain\r\nContent-Transfer-Encoding: base64\r\n\r\n!!!not base64!!!',
    b'Content-Type: text/plain\r\nContent-Transfer-Encoding: base64\r\n\r\nQQ',
    b'Content-Type: text/plain\r\nContent-Transfer-Encoding: quoted-printable\r\n\r\n=ZZ=\r\n=',
    b'Content-Type: text/plain; charset=bogus\r\n\r\n\xff', b'Content-Type: text/plain; charset=utf-16\r\n\r\nx',
    b'Content-Type: text/plain; charset=utf-8\r\n\r\n\xff\xfe', b'Content-Type: text/plain; charset=hex\r\n\r\nzz',
    b'Content-Type: text/plain; charset="\xff"\r\n\r\nx', b'Content-Type: text/plain; charset=undefined\r\n\r\nx',
    b'Content-Type: text/plain; charset=punycode\r\n\r\n\xff-', b'Content-Type: text/plain; charset=idna\r\n\r\nxn--\xff',
    b'Date: x\r\nDate: y\r\nFrom: a\r\nFrom: b\r\nSubject: 1\r\nSubject: 2\r\n\r\n',
    b'A' * 1000 + b': x\r\n\r\n', b'X: ' + b'y' * 5000 + b'\r\n\r\n', b'a:b\rc:d\r\re', b'a:b\nc:d\n\ne',
    b'Subject: x\r\n\r\n' + b'line\r\n' * 200, b'Subject: x\r\n\r\n\x00\x01\x02', b'\x00',
    b'From: a@b\r\nTo:\r\nCc: ;\r\nBcc: ,\r\n\r\n',
    b'Content-Type : multipart/mixed; boundary=b\r\n\r\n--b\r\nx\r\n--b--\r\n', b'Content-Type\t: text/plain\r\n\r\nx',
    b'Date : x\r\nFrom \x0b: <\r\nSubject\x0c: y\r\n\r\n', b'From: =?utf-8?q?=ff?= <\xe9@\xe9>, \xff\r\nTo: \x80\r\n\r\n',
    b'Content-Type: message/rfc822\r\n\r\nDate: nope\r\nFrom: <\r\nSender: a@b, c@d\r\n\r\nx',
]

# a literal that two alternatives of the grammar can reach (the parser
# backtracks over it): must draw one continuation request, not two
BACKTRACK_LINES = [
    b'k1 SEARCH RETURN (OR (SUBJECT {1}\r\nx y\r\n',
    b'k2 SEARCH RETURN (OR (SUBJECT {1}\r\nx)) ALL\r\n',
    b'k3 SEARCH RETURN (OR (SUBJECT {1}\r\nx ALL) ALL)\r\n',
    b'k4 UID SEARCH RETURN (NOT (TO {2}\r\nab {1}\r\nc\r\n',
    b'k5 APPEND INBOX X ({1}\r\na junk\r\n',
    b'k6 APPEND INBOX X (a {1}\r\nb) {1}\r\nx\r\n',
    b'k7 CREATE x (USE ({3}\r\nabc (\r\n',
    b'k8 FETCH 1 BODY[HEADER.FIELDS ({1}\r\nx junk\r\n',
    b'k9 FETCH 1 (BODY[HEADER.FIELDS ({1}\r\nx)] FLAGS) (CHANGEDSINCE {1}\r\n5)\r\n',
    b'k10 SEARCH (SUBJECT {1}\r\nxy)\r\n',
    b'k11 STORE 1 (UNCHANGEDSINCE ({1}\r\n5 x) FLAGS ()\r\n',
    b'k12 SEARCH RETURN (OR (OR (SUBJECT {1}\r\nx FROM {1}\r\ny) ALL) ALL\r\n',
    b'k13 SELECT x (OR (SUBJECT {1}\r\nx y\r\n',
    b'k14 SEARCH RETURN (SUBJECT ({1}\r\nx) SUBJECT {1}\r\ny\r\n',
]

SIEVE_LINES = [
    b'NOOP\r\n', b'NOOP "tag"\r\n', b'NOOP {3+}\r\nabc\r\n', b'noop x\r\n', b'CAPABILITY\r\n', b'CAPABILITY x\r\n',
    b'STARTTLS\r\n', b'UNAUTHENTICATE\r\n', b'HAVESPACE "x" 5\r\n', b'HAVESPACE "x" ' + b'1' * 4301 + b'\r\n',
    b'HAVESPACE "" 5\r\n', b'HAVESPACE "\xff" 5\r\n', b'HAVESPACE "x" x\r\n', b'PUTSCRIPT "x" {4+}\r\nkeep\r\n',
    b'PUTSCRIPT "x" "keep;"\r\n', b'PUTSCRIPT "x" {5+}\r\nkeep;\r\n', b'PUTSCRIPT "x" {4}\r\n', b'PUTSCRIPT {1+}\r\nx "y"\r\n',
    b'PUTSCRIPT "x" {' + b'1' * 4301 + b'+}\r\n', b'PUTSCRIPT "x" {99999+}\r\nshort\r\n', b'LISTSCRIPTS\r\n',
    b'SETACTIVE "x"\r\n', b'SETACTIVE ""\r\n', b'SETACTIVE "nope"\r\n', b'GETSCRIPT "x"\r\n', b'GETSCRIPT "nope"\r\n',
    b'GETSCRIPT\r\n', b'DELETESCRIPT "x"\r\n', b'DELETESCRIPT "nope"\r\n', b'RENAMESCRIPT "x" "y"\r\n',
    b'RENAMESCRIPT "x"\r\n', b'RENAMESCRIPT "nope" "z"\r\n', b'CHECKSCRIPT "keep;"\r\n', b'CHECKSCRIPT "bogus"\r\n',
    b'CHECKSCRIPT {3+}\r\n\xff\xfe\xfd\r\n', b'CHECKSCRIPT\r\n', b'BOGUS\r\n', b'\r\n', b'\n', b'"NOOP"\r\n', b' NOOP\r\n',
    b'AUTHENTICATE "PLAIN" "AHRlc3R1c2VyAHRlc3RwYXNz"\r\n', b'AUTHENTICATE "PLAIN" "!!!"\r\n', b'AUTHENTICATE "BOGUS"\r\n',
    b'AUTHENTICATE PLAIN\r\n', b'AUTHENTICATE "PLAIN" {4+}\r\nAAAA\r\n', b'AUTHENTICATE "PLAIN" "AHgAeQ=="\r\n',
    b'AUTHENTICATE "PLAIN" "/////w=="\r\n', b'AUTHENTICATE "LOGIN"\r\n', b'LOGOUT x\r\n', b'PUTSCRIPT "a/b" "keep;"\r\n',
    b'PUTSCRIPT "x" "if true {"\r\n', b'PUTSCRIPT "x" "' + b'a' * 5000 + b'"\r\n', b'{1+}\r\nN\r\n',
]
