"""C16: IDLE on the real maildir backend under a virtual clock, and the real
_AsyncioEvent objects.

`VirtualLoop` is a SelectorEventLoop whose clock only moves when nothing is
ready: the selector is asked for ready file objects without waiting and the
clock jumps by the time the loop wanted to sleep.  The maildir backend's poll
(`update_selected`: `await wait_on.wait(timeout=1.0)`) therefore costs no real
time and every run is deterministic.  One tick = 0.25 s, the poll period P = 4
ticks.  The backend runs with `Subsystem.for_asyncio()` (harness/pymap_env.py
MaildirEnv), all sessions in this process.
"""
from __future__ import annotations

import asyncio
import re

from .pymap_env import MaildirEnv
from .syncdrv import Shadow, settle, parse_flags

TICK = 0.25
PERIOD_TICKS = 4
MSG = b'From: a@example.com\r\nSubject: t\r\n\r\nbody\r\n'


class VirtualLoop(asyncio.SelectorEventLoop):
    def __init__(self) -> None:
        super().__init__()
        self._vtime = 0.0
        real = self._selector
        loop = self

        class _Sel:
            def select(self, timeout=None):
                events = real.select(0)
                if not events and timeout is not None and timeout > 0:
                    loop._vtime += timeout
                return events

            def __getattr__(self, name):
                return getattr(real, name)

        self._selector = _Sel()

    def time(self) -> float:
        return self._vtime


def vrun(coro, timeout: float = 600.0):
    """run on a fresh virtual-time loop (the watchdog is virtual time too)"""
    async def _wrapped():
        return await asyncio.wait_for(coro, timeout)
    return asyncio.run(_wrapped(), loop_factory=VirtualLoop)


_FETCHLINE = re.compile(rb'^\* (\d+) FETCH \((.*)\)\r?$')


async def truth_of(probe) -> list:
    """the mailbox as a freshly synchronised session sees it: flags per message"""
    await probe.send(b'p NOOP\r\n')
    out = await probe.send(b'p FETCH 1:* (FLAGS)\r\n')
    res = {}
    for line in out.split(b'\n'):
        m = _FETCHLINE.match(line)
        if m:
            res[int(m.group(1))] = parse_flags(m.group(2))
    return [res[k] for k in sorted(res)]


class MdIdleRun:
    """One idler, a writer session, a reader session (for \\Seen by FETCH
    BODY[]) and a probe.  actions: ('change', kind) | ('adv', n) |
    ('line', bytes) | ('neutral', kind)."""

    def __init__(self, layout: str = '++') -> None:
        self.layout = layout
        self.env = None
        self.shadow = Shadow()
        self.expunged_real = 0      # messages really expunged by the writer
        self.expunges_told = 0      # `* n EXPUNGE` lines written to the idler
        self.flags: list[set] = []  # the harness's own idea of the mailbox (to pick real changes)
        self.log: list[dict] = []
        self.n_appended = 0

    async def start(self, pre=()) -> dict:
        """pre: kinds of changes another session makes after the idler's last
        command before IDLE (pending, not yet told to it, when IDLE starts)"""
        self.env = await MaildirEnv(self.layout).start()
        env = self.env
        self.w = await env.login()
        for _ in range(2):
            await self.w.send(b'a APPEND INBOX {%d+}\r\n' % len(MSG) + MSG + b'\r\n')
            self.flags.append(set())
        await self.w.send(b's SELECT INBOX\r\n')
        self.r = await env.login()
        await self.r.send(b's SELECT INBOX\r\n')
        self.probe = await env.login()
        await self.probe.send(b's SELECT INBOX\r\n')
        self.c = await env.login()
        sel = await self.c.send(b's SELECT INBOX\r\n')
        sel += await self.c.send(b'f FETCH 1:* (FLAGS)\r\n')
        self.shadow.feed(sel)
        loop = asyncio.get_running_loop()
        off = loop.time() % TICK
        if off:
            await asyncio.sleep(TICK - off)
        for kind in pre:
            await self.change(kind)
        self.c.take()
        self.c.feed_nowait(b'i1 IDLE\r\n')
        await settle()
        return self._observe(('idle',))

    def _observe(self, action) -> dict:
        out = self.c.take()
        rest = self.shadow.feed(out)
        untagged = [ln for ln in out.split(b'\n') if ln.startswith(b'* ')]
        self.expunges_told += sum(1 for ln in untagged if re.match(rb'^\* \d+ EXPUNGE', ln))
        ended = None
        for ln in rest:
            if ln.startswith(b'i1 OK'):
                ended = True
            elif ln.startswith(b'i1 BAD') or ln.startswith(b'i1 NO'):
                ended = False
        rec = {'action': action, 'out': out, 'wrote': bool(untagged), 'ended': ended,
               'exc': repr(self.c.exc) if self.c.exc else None}
        self.log.append(rec)
        return rec

    async def change(self, kind: str) -> str:
        """a change another session makes; returns what was really done"""
        n = len(self.flags)
        if kind == 'store' and n:
            # only ever *add* a flag (a later change must never undo an earlier one of the
            # same poll window: the idler would, rightly, have nothing to report)
            start = (self.n_appended + len(self.log)) % n
            for k in [(start + d) % n for d in range(n)]:
                for flag in (b'\\Flagged', b'\\Answered', b'\\Draft'):
                    name = flag[1:].decode().lower()
                    if name not in self.flags[k]:
                        await self.w.send(b'c STORE %d +FLAGS (%s)\r\n' % (k + 1, flag))
                        self.flags[k].add(name)
                        return f'store {k + 1} {name}'
        if kind == 'seen' and n:
            ks = [k for k in range(n) if 'seen' not in self.flags[k]]
            if ks:
                # the reader's view may be stale: synchronise it first, then FETCH BODY[]
                await self.r.send(b'n NOOP\r\n')
                await self.r.send(b'c FETCH %d BODY[]\r\n' % (ks[0] + 1))
                self.flags[ks[0]].add('seen')
                return f'seen {ks[0] + 1}'
        if kind == 'expunge' and n > 1:
            k = 0      # never the message appended last: it may be unknown to the idler
            await self.w.send(b'c STORE %d +FLAGS (\\Deleted)\r\n' % (k + 1))
            out = await self.w.send(b'c EXPUNGE\r\n')
            cnt = len(re.findall(rb'^\* \d+ EXPUNGE', out, re.M))
            self.expunged_real += cnt
            if cnt:
                del self.flags[k]
            return f'expunge {k + 1}'
        fl = b'(\\Flagged) ' if self.n_appended % 2 else b''
        await self.w.send(b'c APPEND INBOX ' + fl + b'{%d+}\r\n' % len(MSG) + MSG + b'\r\n')
        self.n_appended += 1
        self.flags.append({'flagged'} if fl else set())
        return 'append'

    async def neutral(self, kind: str) -> None:
        """activity that changes nothing a client is told about"""
        if kind == 'select3':
            s3 = await self.env.login()
            await s3.send(b's SELECT INBOX\r\n')
            await s3.send(b'x LOGOUT\r\n')
        elif kind == 'peek':
            await self.r.send(b'n NOOP\r\n')
            await self.r.send(b'c FETCH 1 BODY.PEEK[]\r\n')
        elif kind == 'examine3':
            s3 = await self.env.login()
            await s3.send(b's EXAMINE INBOX\r\n')
            await s3.send(b'x LOGOUT\r\n')

    async def act(self, action) -> dict:
        what = action[0]
        if what == 'change':
            done = await self.change(action[1])
            await settle()
            rec = self._observe(action)
            rec['did'] = done
            return rec
        if what == 'neutral':
            await self.neutral(action[1])
            await settle()
            return self._observe(action)
        if what == 'adv':
            for _ in range(action[1]):
                await asyncio.sleep(TICK)
                await settle()
            return self._observe(action)
        if what == 'line':
            self.c.feed_nowait(action[1])
            await settle()
            return self._observe(action)
        raise ValueError(action)

    async def truth(self) -> list:
        return await truth_of(self.probe)

    async def after_done(self) -> None:
        """one NOOP on the idler's session after IDLE ended"""
        out = await self.c.send(b'n1 NOOP\r\n')
        self.shadow.feed(out)
        self.expunges_told += len(re.findall(rb'^\* \d+ EXPUNGE', out, re.M))

    def close(self) -> None:
        if self.env is not None:
            self.env.close()


# -------------------------------------------------------------------- events
def events_run(ops) -> list:
    """ops on real _AsyncioEvent objects: ('new',) | ('or', [ids]) | ('set', id) |
    ('clear', id); returns after each op the flags of all events so far"""
    from pymap.concurrent import Event
    evs = []
    res = []
    for op in ops:
        if op[0] == 'new':
            evs.append(Event.for_asyncio())
        elif op[0] == 'or':
            first, rest = evs[op[1][0]], [evs[i] for i in op[1][1:]]
            evs.append(first.or_event(*rest))
        elif op[0] == 'set':
            evs[op[1]].set()
        elif op[0] == 'clear':
            evs[op[1]].clear()
        res.append([e.is_set() for e in evs])
    return res
