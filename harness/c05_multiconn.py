"""C05 — several connections on ONE server object ("worlds").

The property speaks of "the connection state reached so far": the state of
*this* connection.  The single-connection families of harness/props/C05.py
build a fresh backend + configuration + server per command sequence, so state
that outlives a connection (something cached on the IMAPConfig, the IMAPServer,
a class attribute, a module global) and is changed by one connection can never
be seen by them.  Here one `IMAPServer` object (one config, one backend) serves
2..4 connections — local and remote peers, TLS-enabled configuration, STARTTLS
completed, logins, BAD streaks — one after the other and interleaved.

(K)  the world model Conn/MultiConn.v (product of per-connection `conn_step`s,
     sharing only the backend and the immutable configuration) is run in Coq on
     the events in the order the server processed them (`chk_world`,
     Conn/MultiConnCheck.v): per event the answer and the glass-box view of that
     connection's own ConnectionState must be the model's.
(S)  monitors, against the statement: (1) the RFC state-table monitor of
     props/C05.py on every connection's own command sequence; (2) *history
     independence*: every connection's own command sequence is run again alone
     on a fresh server of the same configuration and peer; greeting, answer
     class, BYE/closed and the capability state must be the same as long as no
     command's outcome legitimately depended on shared mailbox data.
"""
from __future__ import annotations

import asyncio

from . import coqterm as T
from .conn_common import Recorder, cache_sasl_entry_points, has_bye, run_exchange, \
    small_dict_env, tagged

WHDR = 'From PV Require Import Conn.MultiConn Conn.MultiConnCheck.\n'

# server configurations: (tls_enabled, bad_command_limit)
WCFG = {
    'tls': dict(tls=True, limit=5),
    'plain': dict(tls=False, limit=5),
    'tls_nolimit': dict(tls=True, limit=None),
}

# what an EARLIER connection did; none of it may matter to a later one
HISTORIES = {
    'nothing': [],
    'capability': ['capability'],
    'starttls': ['starttls'],
    'starttls_twice': ['starttls', 'starttls'],
    'starttls_login': ['starttls', 'login_ok'],
    'starttls_auth': ['starttls', 'auth_plain_ok', 'capability'],
    'starttls_login_select': ['starttls', 'login_ok', 'select_inbox', 'store'],
    'login': ['login_ok'],
    'login_select': ['login_ok', 'examine_inbox'],
    'login_bad': ['login_bad', 'login_args'],
    'auth_cancel': ['auth_plain_cancel', 'auth_unknown_mech'],
    'bad3': ['unknown', 'noop_args', 'fetch'],
    'bad4': ['unknown', 'unknown', 'list', 'check'],
    'bad5': ['unknown', 'unknown', 'unknown', 'unknown', 'unknown'],
    'starttls_bad4': ['starttls', 'unknown', 'unknown', 'unknown', 'unknown'],
}
ENDINGS = ('eof', 'logout', 'open')
# what the LATER connection is asked: first command x, then a fixed tail that
# reveals what the connection offers and accepts
PROBES = ['capability', 'starttls', 'login_ok', 'login_bad', 'auth_plain_ok', 'auth_login_ok',
          'auth_unknown_mech', 'unknown', 'noop', 'list', 'select_inbox', 'id_nil', 'logout',
          'starttls_args', 'login_lit', 'idle_done']
PROBE_TAIL = ['capability', 'starttls', 'capability', 'login_ok', 'capability', 'starttls',
              'select_inbox', 'check', 'unknown', 'unknown', 'unknown', 'unknown', 'logout']

_DATA_FREE = ('authenticate', 'authorize', 'new_session')
_SOLO_CACHE: dict = {}


def _P():
    from .props import C05
    return C05


# ---------------------------------------------------------------- running a world
async def run_world(rec: Recorder, wcfg: dict, events: list) -> dict:
    """events: ('open', cid, local) | ('cmd', cid, key) | ('eof', cid).
    One environment and ONE IMAPServer object for all of them."""
    from .pymap_env import Conn
    P = _P()
    env = await small_dict_env(tls=wcfg['tls'], boxes=P.BOXES, bad_command_limit=wcfg['limit'])
    server = env.imap()
    ncap_login = len(env.config.login_capability)
    conns: dict[int, dict] = {}
    obs = []

    def view(c, out, used, cond, text):
        if c['state'] is None:      # the connection died before it had a ConnectionState
            snap = {'owner': None, 'selected': None, 'readonly': None, 'mechs': False,
                    'starttls': False, 'ncaps': 0}
        else:
            snap = rec.snapshot(c['state'])
        nbase = 2 + (1 if snap['starttls'] else 0)
        return {
            'out': out, 'used': used, 'cond': cond, 'text': text,
            'bye': has_bye(out), 'closed': c['conn'].closed, 'snap': snap,
            'logincaps': (snap['ncaps'] - nbase) // ncap_login,
            'capsrem': (snap['ncaps'] - nbase) % ncap_login,
            'calls': rec.log.take(),
            'exc': None if c['conn'].exc is None else type(c['conn'].exc).__name__,
        }
    for ev in events:
        if ev[0] == 'open':
            _, cid, local = ev
            rec.log.take()
            nstates = len(rec.states)
            conn = Conn(server, local=local)
            conn.greeting = await conn.start()
            c = conns[cid] = {'conn': conn, 'local': local, 'n': 0,
                              'state': rec.states[-1] if len(rec.states) > nstates else None}
            g = conn.greeting
            gcond = 'OK' if g.startswith((b'* OK', b'* PREAUTH')) else 'NOTAG'
            obs.append(view(c, g, 0, gcond, g))
        elif ev[0] == 'cmd':
            _, cid, key = ev
            c = conns[cid]
            sym = P.BYKEY[key]
            tag = b't%d' % c['n']
            c['n'] += 1
            out, used = await run_exchange(c['conn'], tag + b' ' + sym.line, sym.lines)
            cond, text = tagged(out, tag)
            obs.append(view(c, out, used, cond, text))
        else:
            _, cid = ev
            c = conns[cid]
            if not c['conn'].closed:
                await c['conn'].send_eof()
            rec.log.take()
            obs.append(None)
    for c in conns.values():
        if not c['conn'].closed:
            await c['conn'].send_eof()
    rec.log.take()
    return {'obs': obs}


def split_world(events: list, res: dict) -> dict[int, dict]:
    """Per connection: peer, own keys, greeting and steps (the shape
    props/C05.py run_sequence returns)."""
    per: dict[int, dict] = {}
    for ev, v in zip(events, res['obs']):
        if ev[0] == 'open':
            per[ev[1]] = {'local': ev[2], 'keys': [], 'greeting': v, 'steps': []}
        elif ev[0] == 'cmd':
            per[ev[1]]['keys'].append(ev[2])
            per[ev[1]]['steps'].append(v)
    return per


async def run_world_and_solos(rec: Recorder, wname: str, events: list) -> dict:
    """The world, and every connection's own commands alone on a fresh server."""
    P = _P()
    wcfg = WCFG[wname]
    res = await run_world(rec, wcfg, events)
    per = split_world(events, res)
    solos = {}
    for cid, d in per.items():
        # (deterministic on a fresh server: the same solo run serves every world of this worker)
        ck = (wname, d['local'], tuple(d['keys']))
        if ck not in _SOLO_CACHE:
            variant = dict(tls=wcfg['tls'], local=d['local'], limit=wcfg['limit'])
            _SOLO_CACHE[ck] = await P.run_sequence(rec, variant, d['keys'])
        solos[cid] = _SOLO_CACHE[ck]
    res['solos'] = solos
    return res


def _worker(batch):
    cache_sasl_entry_points()

    async def main():
        out = []
        with Recorder() as rec:
            for wname, events in batch:
                out.append(await asyncio.wait_for(run_world_and_solos(rec, wname, events), 600))
        return out
    return asyncio.run(main())


def run_all(worlds, jobs: int = 8):
    import multiprocessing as mp
    if len(worlds) < 100:
        return _worker(worlds)
    ctxmp = mp.get_context('fork')
    n = max(20, len(worlds) // (jobs * 6))
    batches = [worlds[i:i + n] for i in range(0, len(worlds), n)]
    with ctxmp.Pool(jobs) as pool:
        res = pool.map(_worker, batches)
    return [r for b in res for r in b]


# ---------------------------------------------------------------------- monitors
class _CtxProxy:
    """Lets the single-connection monitor report with the world as replay."""

    def __init__(self, ctx, wname, events, cid):
        self._ctx, self._w, self._ev, self._cid = ctx, wname, events, cid

    def failure(self, clause, what, replay, obs=None):
        rp = {'world': self._w, 'events': [list(e) for e in self._ev], 'conn': self._cid,
              'step': replay.get('step'), 'command': replay.get('command'),
              'response': replay.get('response')}
        self._ctx.failure(clause, f'[connection {self._cid} of a {len(self._ev)}-event world] '
                          + what, rp, obs)

    def __getattr__(self, name):
        return getattr(self._ctx, name)


def _data_calls(v) -> bool:
    return any(c['meth'] not in _DATA_FREE for c in v['calls'])


def _cap_state(v) -> dict:
    if v['closed']:
        return {}       # nothing more to see of a closed connection
    s = v['snap']
    return {'authenticated': s['owner'] is not None, 'mechs': s['mechs'],
            'starttls': s['starttls'], 'ncaps': s['ncaps']}


def monitor_world(ctx, wname: str, events: list, res: dict) -> None:
    P = _P()
    per = split_world(events, res)
    for cid, d in per.items():
        proxy = _CtxProxy(ctx, wname, events, cid)
        # (1) the RFC table, on this connection's own history
        P.monitor_sequence(proxy, wname, d['keys'], d, shared_data=len(per) > 1)
        # (2) history independence: the same commands alone on a fresh server
        solo = res['solos'][cid]
        rp = {'world': wname, 'events': [list(e) for e in events], 'conn': cid}
        g, sg = d['greeting'], solo['greeting']
        if g['out'] != sg['out'] or _cap_state(g) != _cap_state(sg):
            ctx.failure('gate', f'connection {cid} ({"local" if d["local"] else "remote"} peer) is '
                        f'greeted differently after what other connections did: {g["out"][:160]!r} '
                        f'/ {_cap_state(g)}; alone on a fresh server: {sg["out"][:160]!r} / '
                        f'{_cap_state(sg)}', dict(rp, step='greeting'),
                        {'kind': 'depends_on_other_connections', 'command': 'greeting'})
            continue
        for i, (key, v, s) in enumerate(zip(d['keys'], d['steps'], solo['steps'])):
            sym = P.BYKEY[key]
            a = (v['cond'], P._why(v['cond'], v['text'], v['out'], v['closed']), v['bye'],
                 v['closed'], v['used'], tuple(sorted(_cap_state(v).items())))
            b = (s['cond'], P._why(s['cond'], s['text'], s['out'], s['closed']), s['bye'],
                 s['closed'], s['used'], tuple(sorted(_cap_state(s).items())))
            data = _data_calls(v) or _data_calls(s)
            same = a == b and (data or v['out'] == s['out'])
            if same:
                continue
            if data:
                break    # mailbox data are shared: from here on the two runs may differ
            ctx.failure('gate', f'connection {cid} ({"local" if d["local"] else "remote"} peer), '
                        f'own history {d["keys"][:i]}: {sym.line[:40]!r} answered '
                        f'{v["cond"]} {v["text"][:60]!r} bye={v["bye"]} closed={v["closed"]} '
                        f'{_cap_state(v)}; the same connection alone on a fresh server: '
                        f'{s["cond"]} {s["text"][:60]!r} bye={s["bye"]} closed={s["closed"]} '
                        f'{_cap_state(s)} - the answer depends on what OTHER connections did',
                        dict(rp, step=i, command=sym.line.decode('latin-1'),
                             response=v['out'].decode('latin-1')[-300:],
                             alone=s['out'].decode('latin-1')[-300:]),
                        {'kind': 'depends_on_other_connections', 'command': sym.name})
            break


# -------------------------------------------------------------------- generators
def _seq_world(h1, loc1, ending, loc2, probe, third=None):
    ev = [('open', 0, loc1)] + [('cmd', 0, k) for k in h1]
    if ending == 'eof':
        ev.append(('eof', 0))
    elif ending == 'logout':
        ev.append(('cmd', 0, 'logout'))
    ev.append(('open', 1, loc2))
    ev += [('cmd', 1, k) for k in [probe] + PROBE_TAIL]
    if third is not None:
        ev.append(('open', 2, third))
        ev += [('cmd', 2, k) for k in PROBE_TAIL]
    if ending == 'open':
        # the first connection goes on: it must not have been affected either
        ev += [('cmd', 0, k) for k in PROBE_TAIL[:8]]
    return ev


def gen_worlds(ctx) -> list[tuple[str, list]]:
    P = _P()
    rng = ctx.rng
    worlds: list[tuple[str, list]] = []
    hist = sorted(HISTORIES)
    # A. an earlier connection with every history, then a fresh connection with every probe
    for wname in ('tls', 'plain'):
        for h in hist:
            for loc1 in (False, True):
                for loc2 in (False, True):
                    endings, probes = ENDINGS, PROBES
                    if ctx.quick:
                        # always the commands whose acceptance hangs on the capability
                        # state; a sample of the rest of the product
                        endings = [rng.choice(ENDINGS)]
                        if wname == 'tls':
                            probes = ['starttls', 'login_ok', rng.choice(PROBES[2:])]
                        elif rng.random() < 0.3:
                            probes = [rng.choice(PROBES)]
                        else:
                            continue
                    for ending in endings:
                        for p in probes:
                            third = rng.choice([None, None, False, True])
                            worlds.append((wname, _seq_world(HISTORIES[h], loc1, ending, loc2, p,
                                                             third)))
    # B. interleaved: both connections advance in turns (every pair of histories)
    for wname in ('tls', 'tls_nolimit'):
        for h1 in hist:
            for h2 in hist:
                if ctx.quick and rng.random() < 0.75:
                    continue
                loc1, loc2 = rng.random() < 0.5, rng.random() < 0.5
                a = [('cmd', 0, k) for k in HISTORIES[h1] + PROBE_TAIL[:7]]
                b = [('cmd', 1, k) for k in HISTORIES[h2] + PROBE_TAIL[:7]]
                ev = [('open', 0, loc1), ('open', 1, loc2)]
                while a or b:
                    src = a if (a and (not b or rng.random() < 0.5)) else b
                    ev.append(src.pop(0))
                worlds.append((wname, ev))
    # C. random worlds: 2..4 connections, random peers, random interleaving of random
    # command sequences over the full alphabet (biased to legal commands)
    full = [s.key for s in P.ALPHABET]
    nonauth = [s.key for s in P.ALPHABET
               if s.valid and s.name and P.NONAUTH in P.RFC_TABLE[s.name] and s.key != 'logout']
    for _ in range(ctx.scale(250, 6000)):
        wname = rng.choice(['tls', 'tls', 'tls', 'plain', 'tls_nolimit'])
        ncon = rng.randint(2, 4)
        ev = []
        opened: list[int] = []
        budget = rng.randint(6, 40)
        nxt = 0
        while budget > 0:
            budget -= 1
            if nxt < ncon and (not opened or rng.random() < 0.15):
                ev.append(('open', nxt, rng.random() < 0.5))
                opened.append(nxt)
                nxt += 1
                continue
            cid = rng.choice(opened)
            r = rng.random()
            if r < 0.03:
                ev.append(('eof', cid))
                opened.remove(cid)
                if not opened and nxt >= ncon:
                    break
                continue
            if r < 0.45:
                k = rng.choice(nonauth)
            elif r < 0.6:
                k = rng.choice(['starttls', 'login_ok', 'capability', 'select_inbox', 'unknown'])
            else:
                k = rng.choice(full)
            ev.append(('cmd', cid, k))
        # every world ends with a fresh connection that is asked what it offers
        ev.append(('open', nxt, rng.random() < 0.5))
        ev += [('cmd', nxt, k) for k in PROBE_TAIL[:7]]
        worlds.append((wname, ev))
    return worlds


# --------------------------------------------------------------------- Coq terms
def world_term(wname: str, events: list, res: dict) -> str:
    P = _P()
    wcfg = WCFG[wname]
    cfg = P.INTERN('cfg_', f'(mk_config {T.boolean(wcfg["tls"])} false '
                   f'{T.N(wcfg["limit"] or 0)} true true None)', 'config')
    evs = []
    for ev, v in zip(events, res['obs']):
        if ev[0] == 'open':
            evs.append(f'(mk_wev (EOpen {ev[1]} {T.boolean(ev[2])}) {P._script_term(v["calls"])} '
                       f'{P._obs_term(v, True)})')
        elif ev[0] == 'cmd':
            key = ev[2]
            # (scripts and observations are interned in the shared header; the event itself
            # is of a type only the world cases import)
            evs.append(f'(mk_wev (ECmd {ev[1]} sym_{key}) '
                       f'{P._script_term(v["calls"], P.BYKEY[key].name == "IDLE")} '
                       f'{P._obs_term(v)})')
    return f'(mk_wcase {cfg} {T.lst(evs)})'


# --------------------------------------------------------------------------- run
def prepare(ctx) -> dict:
    """Generate and run the worlds, run the monitors, build the Coq terms (they
    are interned into the shared header, so this must happen before
    header_with_symbols())."""
    import time
    t0 = time.time()
    worlds = gen_worlds(ctx)
    seen, uniq = set(), []
    for w, ev in worlds:
        k = (w, tuple(ev))
        if k not in seen:
            seen.add(k)
            uniq.append((w, ev))
    results = run_all(uniq)
    terms = []
    nconn = {}
    for (wname, events), res in zip(uniq, results):
        monitor_world(ctx, wname, events, res)
        terms.append(world_term(wname, events, res))
        n = sum(1 for e in events if e[0] == 'open')
        nconn[n] = nconn.get(n, 0) + 1
        accepted = any(v is not None and v['cond'] in ('OK', 'NO') for v in res['obs'])
        ctx.count(('world', wname, tuple(events)), nontrivial=accepted)
    ctx.extra['worlds'] = {'n': len(uniq), 'connections_histogram': dict(sorted(nconn.items())),
                           't_impl_s': round(time.time() - t0, 1)}
    if uniq:
        ctx.sample({'world': uniq[-1][0], 'events': [list(e) for e in uniq[-1][1]][:12]})
    return {'worlds': uniq, 'results': results, 'terms': terms}


def check(ctx, mc: dict, hdr: str) -> None:
    from . import coqrun
    whdr = hdr + WHDR
    bad = ctx.run_cases('conn_worlds', whdr, 'world_case', mc['terms'], 'chk_world',
                        shard=400, jobs=12)
    for i in bad[:5]:
        wname, events = mc['worlds'][i]
        where = coqrun.eval_term(ctx.prop, f'wwhere_{i}', whdr, f'where_bad_world {mc["terms"][i]}')
        res = mc['results'][i]
        ctx.disagreement('conn_worlds', {
            'world': wname, 'events': [list(e) for e in events],
            'impl': [None if v is None else
                     (v['cond'], v['text'].decode('latin-1')[:50], v['snap'],
                      [c['meth'] + ':' + c.get('out', '?') for c in v['calls']])
                     for v in res['obs']],
            'model': where[-1200:]})


def replay(ctx, obj) -> int:
    cache_sasl_entry_points()
    events = [tuple(e) for e in obj['events']]
    wname = obj['world']

    async def main():
        with Recorder() as rec:
            return await run_world_and_solos(rec, wname, events)
    res = asyncio.run(main())
    P = _P()
    for ev, v in zip(events, res['obs']):
        if v is None:
            print(ev)
        elif ev[0] == 'open':
            print(ev, '->', v['out'][:120], _cap_state(v))
        else:
            print(ev, P.BYKEY[ev[2]].line, '->', v['cond'], v['text'][:70], _cap_state(v))
    monitor_world(ctx, wname, events, res)
    for v in ctx.violations:
        print('FAIL', v['clause'], v['what'])
    return 1 if ctx.violations else 0
