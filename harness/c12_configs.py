"""C12 — read-only selections under every maildir configuration (round 5).

The generators of rounds 1-4 ran the maildir backend in one configuration only (layout '++',
default info delimiter ':') and issued CHECK — the one command that runs the backend's
housekeeping (`MailboxData.cleanup`: `Maildir.clean()` + rewriting every dovecot-uidlist
record) — about once in sixty commands.  This module adds

 * the configuration dimension: layout ('++' | 'fs') x --colon (default | '!' | ';'), programs
   inside EXAMINE selections whose alphabet is weighted towards CHECK / NOOP / STATUS (the
   commands that reach housekeeping and re-listing paths) next to every message command;
 * a persistent-state monitor that looks at the **files**: the dovecot-uidlist header and
   records and the message file names of every folder, taken immediately before and
   immediately after each command of the read-only session (before the probe looks, so the
   probe's own mailbox lookups cannot repair or hide anything).

The statement says a read-only selection changes neither flags, nor the set of messages, nor
which messages the next read-write session is given as \\Recent.  On disk that is: no record
of an existing file changes its UID or its key, no file changes its flag letters or
its directory (new/ = still to be given as \\Recent), UIDVALIDITY and the UID counter stay;
additions only by an APPEND/COPY into a writable destination.  (Records of files that no
longer exist may be dropped by CHECK: they denote no message.)
"""
from __future__ import annotations

from . import refmodel as R

CONFIGS = [('++', '!'), ('fs', '!'), ('fs', None), ('++', ';'), ('fs', ';'), ('++', None)]

# the whole C12 alphabet, housekeeping commands much more often
WEIGHTS = {'append': 8, 'store': 10, 'expunge': 5, 'uidexpunge': 4, 'copy': 9, 'move': 8,
           'fetch': 12, 'close': 2, 'noop': 8, 'check': 16, 'status': 8, 'search': 5}


def first(i: int):
    """how a program enters its read-only selection and reaches housekeeping"""
    box = i % 3
    ex = {'k': 'select', 'box': box, 'ro': True}
    fe = {'k': 'fetch', 'uid': True, 'ss': [(1, '*')], 'attrs': 1}
    if i % 4 == 0:
        return [ex, {'k': 'check'}, {'k': 'noop'}, fe]
    if i % 4 == 1:
        return [ex, fe, {'k': 'check'}, {'k': 'check'}, {'k': 'status', 'box': box}]
    if i % 4 == 2:
        return [{'k': 'select', 'box': 0, 'ro': True}, {'k': 'noop'}, {'k': 'check'},
                {'k': 'copy', 'uid': False, 'ss': [(1, '*')], 'dest': 1}, {'k': 'check'}]
    return [ex]


def file_monitor(ctx, kind: str, init, sts, replay_obj) -> None:
    """the files of every folder before / after each command of the read-only session"""
    if kind != 'maildir':
        return
    names = R.NAMES[kind]
    ro_box = {b['name']: b.get('ro', False) for b in init}
    nfail = 0
    for k, st in enumerate(sts):
        if 'cmd' not in st or 'files' not in st:
            continue
        cmd, out = st['cmd'], st['out']
        kk = cmd['k']
        dest = names[cmd['dest']] if kk in ('copy', 'move') else \
            names[cmd['box']] if kk == 'append' else None
        before, after = st['files']

        def fail(cls, what):
            nonlocal nfail
            nfail += 1
            if nfail <= 2:
                ctx.failure('unchanged', f'maildir: step {k} ({st["wire"][:60]!r}): {what}',
                            dict(replay_obj(kind, init, sts[:k + 1], k),
                                 files_before={n: _js(v) for n, v in before.items()},
                                 files_after={n: _js(v) for n, v in after.items()}),
                            {'kind': cls, 'backend': kind})
        for name, old in before.items():
            new = after.get(name)
            if new is None:
                fail(f'files_{kk}_folder_gone', f'the directory of {name} disappeared')
                continue
            delivers = dest == name and not ro_box.get(name, False) and kk in ('append', 'copy')
            live = {u: key for u, key in old['records'].items() if key in old['files']}
            for u, key in live.items():
                if new['records'].get(u) != key:
                    fail(f'files_{kk}_uid_record_changed',
                         f'{name}: dovecot-uidlist record of UID {u} named {key!r}, now '
                         f'{new["records"].get(u)!r}')
                    break
            for key, (sub, info) in old['files'].items():
                if key not in new['files']:
                    fail(f'files_{kk}_file_removed', f'{name}: message file {key} is gone')
                    break
                nsub, ninfo = new['files'][key]
                if nsub != sub:
                    fail(f'files_{kk}_file_moved', f'{name}: {key} moved from {sub}/ to {nsub}/')
                    break
                if _letters(ninfo) != _letters(info):
                    fail(f'files_{kk}_flag_letters', f'{name}: info of {key} was {info!r}, now {ninfo!r}')
                    break
            added_f = set(new['files']) - set(old['files'])
            added_r = set(new['records']) - set(old['records'])
            if (added_f or added_r) and not (delivers and out['cond'] == 'OK'):
                fail(f'files_{kk}_added', f'{name}: new files {sorted(added_f)} / records {sorted(added_r)}')
            if any(u < (old['next'] or 0) for u in added_r):
                fail(f'files_{kk}_uid_reused', f'{name}: new record below the old UID counter')
            if new['uidv'] != old['uidv']:
                fail(f'files_{kk}_uidvalidity', f'{name}: UIDVALIDITY in dovecot-uidlist changed')
            if new['next'] != old['next'] and not (delivers and (new['next'] or 0) > (old['next'] or 0)):
                fail(f'files_{kk}_uidnext', f'{name}: next UID in dovecot-uidlist {old["next"]} -> {new["next"]}')
        for name in after:
            if name not in before:
                fail(f'files_{kk}_folder_created', f'a directory for {name} appeared')


def _letters(info: str) -> frozenset:
    """the flag letters of a file-name info ('2,FS'); a name without info has none"""
    return frozenset(info[2:].split(',')[0]) if info.startswith('2,') else frozenset()


def _js(ent):
    return {'uidv': ent['uidv'], 'next': ent['next'],
            'records': {str(u): k for u, k in sorted(ent['records'].items())},
            'files': {k: list(v) for k, v in sorted(ent['files'].items())}}


def run(ctx) -> None:
    from .props import C10, C12
    n = ctx.scale(9, 60)

    def on_program(k, init, sts):
        C12.monitor(ctx, k, init, sts)
        file_monitor(ctx, k, init, sts, C10._replay_obj)
    # program i runs under configuration i mod 6 and enters by first(i): 6 and 4 are not
    # coprime, so the entry shape is rotated with the round
    nc = len(CONFIGS)
    C10.run_programs(ctx, 'ro_configs', [('maildir', n * nc, 12)], WEIGHTS,
                     first=lambda i: first(i + i // nc), final=C12.final_rw_select,
                     observer=lambda i: i % 2 == 1, on_program=on_program,
                     layout=lambda i: CONFIGS[i % nc][0], colon=lambda i: CONFIGS[i % nc][1], salt='-cfg')
    # with another connection writing in between (the non-default configurations)
    C10.run_programs(ctx, 'ro_configs_interference', [('maildir', max(n, 8), 12)],
                     WEIGHTS, first=lambda i: first(i + i // 5), final=C12.final_rw_select,
                     interfere=0.35, on_program=on_program,
                     layout=lambda i: CONFIGS[i % 5][0], colon=lambda i: CONFIGS[i % 5][1], salt='-cfgi')
