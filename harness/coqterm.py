"""Render Python values as Gallina terms for generated case files.

Conventions (see coq/theories/Base/Prelude.v): byte/code point/number = N,
bytes/str = list N, Python int that may be negative = Z, indices/fuel = nat.
"""
from __future__ import annotations

from typing import Iterable


def N(n: int) -> str:
    assert n >= 0, n
    return f'{n}%N'


def Z(n: int) -> str:
    return f'({n})%Z'


def nat(n: int) -> str:
    assert 0 <= n < 5000, n   # never write big nat literals
    return f'{n}%nat'


def boolean(b: bool) -> str:
    return 'true' if b else 'false'


def lst(items: Iterable[str]) -> str:
    items = list(items)
    if not items:
        return 'nil'
    return '[' + '; '.join(items) + ']'


def bytes_(b: bytes | bytearray | memoryview) -> str:
    """bytes -> list N"""
    b = bytes(b)
    if not b:
        return '(@nil N)'
    return '[' + ';'.join(str(x) for x in b) + ']%N'


def codepoints(s: str) -> str:
    """str -> list N of code points (surrogates kept as they are)"""
    if not s:
        return '(@nil N)'
    return '[' + ';'.join(str(ord(c)) for c in s) + ']%N'


def nlist(ns: Iterable[int]) -> str:
    ns = list(ns)
    if not ns:
        return '(@nil N)'
    return '[' + ';'.join(str(x) for x in ns) + ']%N'


def option(x: str | None) -> str:
    return 'None' if x is None else f'(Some {x})'


def pair(*xs: str) -> str:
    return '(' + ', '.join(xs) + ')'


def app(f: str, *args: str) -> str:
    return '(' + ' '.join((f,) + args) + ')'
