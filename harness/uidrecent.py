"""Shared driver of the C04 (UIDs) and C17 (\\Recent) checks.

A *history* is a list of abstract operations issued by numbered connections
of one user against the real server (DictEnv or MaildirEnv).  `World.do`
executes one operation (one or two whole IMAP commands, atomically) and
returns what the server answered in a canonical form; `enc_case` writes the
history with its observations as a Gallina term for
coq/theories/UidRecent/Check.v (`chk_history`), where the model replays it.

Monitors (class `Monitor`) are written against the property statements and
only look at the transcripts, never at the model.
"""
from __future__ import annotations

import asyncio
import gc
import itertools
import math
import re

from . import coqterm as T

HEADER = ('From PV Require Import Base.Prelude Wire.SeqSet '
          'UidRecent.Model UidRecent.Check.\n')

NAMES = {0: b'INBOX', 1: b'Abox', 2: b'Bbox', 3: b'Cbox',
         5: b'Abox/Sub', 6: b'Bbox/Sub', 7: b'Cbox/Sub'}   # inferior of p is p + 4


# ---------------------------------------------------------------- encoding
def enc_set(st) -> str:
    return 'None' if st is None else f'(Some {T.nlist(st)})'


def enc_uset(st) -> str:
    """None = 1:*, a list = UID set, ('seq', list) = message sequence numbers"""
    if st is None:
        return 'UAll'
    if isinstance(st, tuple) and st and st[0] == 'seq':
        return f'(USeqs {T.nlist(st[1])})'
    return f'(UUids {T.nlist(st)})'


def enc_op(op) -> str:
    k = op[0]
    if k == 'delete':
        return f'(Delete {T.N(op[1])} {T.N(op[2])})'
    if k in ('idle', 'done'):
        return f'({k.capitalize()} {T.N(op[1])})'
    if k == 'idlewake':
        return f'(IdleWake {T.N(op[1])})'
    if k == 'makero':
        return f'(MakeRo {T.N(op[1])})'
    if k == 'adopt':
        ms = T.lst(f'({T.N(m)}, {T.boolean(d)}, {T.boolean(r)})' for m, d, r in op[2])
        return f'(Adopt {T.N(op[1])} {ms})'
    if k == 'create':
        return f'(Create {T.N(op[1])} {T.N(op[2])})'
    if k == 'rename':
        return f'(Rename {T.N(op[1])} {T.N(op[2])} {T.N(op[3])})'
    if k == 'append':
        ms = T.lst(f'({T.N(m)}, {T.boolean(d)}, {T.boolean(r)})' for m, d, r in op[3])
        if not op[3]:
            ms = '(@nil (N * bool * bool))'
        return f'(Append {T.N(op[1])} {T.N(op[2])} {ms})'
    if k == 'select':
        return f'(Select {T.N(op[1])} {T.N(op[2])} {T.boolean(op[3])})'
    if k in ('close', 'logout', 'noop', 'fetch'):
        return f'({k.capitalize()} {T.N(op[1])})'
    if k == 'expunge':
        return f'(Expunge {T.N(op[1])} {enc_set(op[2])})'
    if k in ('copy', 'move'):
        return f'({k.capitalize()} {T.N(op[1])} {enc_uset(op[2])} {T.N(op[3])})'
    if k == 'status':
        return f'(Status {T.N(op[1])} {T.N(op[2])})'
    if k == 'store':
        md = {'add': 'SAdd', 'del': 'SDel', 'repl': 'SRepl'}[op[3]]
        return (f'(Store {T.N(op[1])} {enc_set(op[2])} {md} '
                f'{T.boolean(op[4])} {T.boolean(op[5])})')
    raise ValueError(op)


def enc_optN(x) -> str:
    return 'None' if x is None else f'(Some {T.N(x)})'


def enc_post(p) -> str:
    if p == 'bye':
        return 'PBye'
    exp, ex, rc = p
    return f'(PSync (mkSync {T.N(exp)} {enc_optN(ex)} {enc_optN(rc)}))'


def enc_obs(ob) -> str:
    k = ob['k']
    if k == 'bad':
        return 'OBad'
    if k == 'no':
        return 'ONo'
    if k == 'ok':
        return f'(OOk {enc_post(ob["post"])})'
    if k == 'append':
        return f'(OAppend {T.N(ob["v"])} {T.bytes_(ob["uids"])} {enc_post(ob["post"])})'
    if k == 'copy':
        if ob['r'] is None:
            r = 'None'
        else:
            v, a, b = ob['r']
            r = f'(Some ({T.N(v)}, {T.bytes_(a)}, {T.bytes_(b)}))'
        return f'(OCopy {r} {enc_post(ob["post"])})'
    if k == 'select':
        return (f'(OSelect {T.N(ob["v"])} {T.boolean(ob["ro"])} {T.N(ob["exists"])} '
                f'{T.N(ob["recent"])} {T.N(ob["uidnext"])})')
    if k == 'status':
        return (f'(OStatus {T.N(ob["v"])} {T.N(ob["messages"])} {T.N(ob["recent"])} '
                f'{T.N(ob["uidnext"])} {enc_post(ob["post"])})')
    if k == 'fetch':
        rows = T.lst(f'({T.N(u)}, {T.boolean(r)}, {T.boolean(d)}, {T.N(m)})'
                     for u, r, d, m in ob['rows'])
        if not ob['rows']:
            rows = '(@nil (N * bool * bool * N))'
        return f'(OFetch {enc_post(ob["post"])} {rows})'
    if k == 'store':
        return f'(OStore {enc_post(ob["post"])} {T.boolean(ob["ok"])})'
    raise ValueError(ob)


def enc_case(base: int, shared: bool, hist) -> str:
    """hist: list of (op, obs)"""
    body = T.lst(f'({enc_op(o)}, {enc_obs(b)})' for o, b in hist)
    if not hist:
        body = '(@nil (op * out))'
    return f'({T.N(base)}, {T.boolean(shared)}, {body})'


# ------------------------------------------------------------ wire parsing
_TAGGED = re.compile(rb'^(t\d+) (OK|NO|BAD)\b([^\r\n]*)\r\n', re.M)
_EXISTS = re.compile(rb'^\* (\d+) EXISTS\r\n', re.M)
_RECENT = re.compile(rb'^\* (\d+) RECENT\r\n', re.M)
_EXPUNGE = re.compile(rb'^\* (\d+) EXPUNGE\r\n', re.M)
_BYE = re.compile(rb'^\* BYE\b([^\r\n]*)\r\n', re.M)
_APPENDUID = re.compile(rb'\[APPENDUID (\d+) ([0-9:,]+)\]')
_COPYUID = re.compile(rb'\[COPYUID (\d+) ([0-9:,]+) ([0-9:,]+)\]')
_UIDNEXT = re.compile(rb'\[UIDNEXT (\d+)\]')
_UIDVALIDITY = re.compile(rb'\[UIDVALIDITY (\d+)\]')
_STATUS = re.compile(rb'^\* STATUS \S+ \(MESSAGES (\d+) RECENT (\d+) UIDNEXT (\d+) '
                     rb'UIDVALIDITY (\d+)\)\r\n', re.M)
_ROW = re.compile(rb'^\* (\d+) FETCH \(UID (\d+) FLAGS \(([^)]*)\) '
                  rb'BODY\[HEADER\.FIELDS \(SUBJECT\)\] \{(\d+)\}\r\n'
                  rb'Subject: m(\d+)\r?\n', re.M)


def expand_set(b: bytes) -> list[int]:
    """What a client does with a printed uid-set (RFC 4315: in order)."""
    out: list[int] = []
    for part in b.split(b','):
        if b':' in part:
            lo, hi = part.split(b':')
            lo, hi = int(lo), int(hi)
            out.extend(range(lo, hi + 1) if lo <= hi else range(lo, hi - 1, -1))
        else:
            out.append(int(part))
    return out


class Unexpected(Exception):
    """The server did something the driver has no canonical form for."""


def tagged(raw: bytes, tag: bytes) -> tuple[str, bytes]:
    for m in _TAGGED.finditer(raw):
        if m.group(1) == tag:
            return m.group(2).decode().lower(), m.group(3)
    return ('bye', b'') if _BYE.search(raw) else ('none', b'')


def post_of(raw: bytes):
    if _BYE.search(raw):
        return 'bye'
    ex = _EXISTS.findall(raw)
    rc = _RECENT.findall(raw)
    return (len(_EXPUNGE.findall(raw)),
            int(ex[-1]) if ex else None,
            int(rc[-1]) if rc else None)


def message_bytes(mark: int) -> bytes:
    return b'Subject: m%d\r\nFrom: x@example.com\r\n\r\nbody %d\r\n' % (mark, mark)


def set_bytes(st) -> bytes:
    if isinstance(st, tuple) and st and st[0] == 'seq':
        st = st[1]
    return b'1:*' if st is None else b','.join(b'%d' % u for u in st)


# ------------------------------------------------------------------- world
class World:
    """One user's store on one backend, its connections, the transcript."""

    def __init__(self, env, user: bytes, password: bytes, *, maildir: bool = False) -> None:
        self.env = env
        self.user = user
        self.password = password
        self.maildir = maildir
        self.conns: dict[int, object] = {}
        self.ntag = 0
        self.log: list[dict] = []          # every command sent: s, cmd, raw
        self.hist: list[tuple] = []        # (op, obs)
        self.crashes: list[str] = []
        self.idle: dict[int, bytes] = {}   # connection -> tag of its running IDLE
        self.idle_rest: dict[int, bytes] = {}

    async def conn(self, s: int):
        c = self.conns.get(s)
        if c is None or c.closed:
            c = await self.env.login(self.user, self.password)
            self.conns[s] = c
        return c

    async def cmd(self, s: int, line: bytes) -> tuple[str, bytes, bytes]:
        c = await self.conn(s)
        self.ntag += 1
        tag = b't%d' % self.ntag
        raw = await asyncio.wait_for(c.send(tag + b' ' + line + b'\r\n'), 20)
        st, text = tagged(raw, tag)
        self.log.append({'s': s, 'cmd': line[:120], 'raw': raw})
        if b'SERVERBUG' in raw or c.exc is not None:
            self.crashes.append(f'conn {s} {line[:80]!r}: {raw[-200:]!r} exc={c.exc!r}')
        if c.closed:
            gc.collect()
        return st, text, raw

    async def close_all(self) -> None:
        for c in self.conns.values():
            if not c.closed:
                try:
                    await asyncio.wait_for(c.send(b'zz LOGOUT\r\n'), 5)
                except Exception:
                    pass
        self.conns.clear()
        gc.collect()

    # -- one abstract operation -> canonical observation
    async def do(self, op) -> dict:
        """Execute one operation; `self.hist` gains its entry, the entries of
        the operations it implies (the STATUS that makes a maildir reset adopt
        a dropped file) and one `idlewake` entry per idling connection that
        was pushed something."""
        ob = await self._do(op)
        self.hist.append((op, ob))
        if op[0] == 'adopt':
            st_op = ('status', 7, op[1])
            self.hist.append((st_op, await self._do(st_op)))
        await self.poll_idlers()
        return ob

    async def poll_idlers(self) -> None:
        for s in sorted(self.idle):
            c = self.conns.get(s)
            if c is None or c.closed:
                self.idle.pop(s, None)
                continue
            for _ in range(40):
                await asyncio.sleep(0)
            raw = self.idle_rest.pop(s, b'') + c.take()
            if raw:
                self.log.append({'s': s, 'cmd': b'(idle push)', 'raw': raw})
                self.hist.append((('idlewake', s), {'k': 'ok', 'post': post_of(raw)}))

    def drop_file(self, nm: int, mark: int, deleted: bool, in_new: bool) -> None:
        """maildir: an outside agent delivers a message file into the folder"""
        import os
        folder = os.path.join(self.env.base, self.user.decode())
        if nm != 0 and getattr(self.env, 'layout', '++') == 'fs':
            folder = os.path.join(folder, *NAMES[nm].decode().split('/'))
        elif nm != 0:
            folder = os.path.join(folder, '.' + NAMES[nm].decode().replace('/', '.'))
        colon = getattr(self.env, 'colon', None) or ':'
        name = '9%09d.V%d.verif' % (mark, mark)
        if in_new:
            path = os.path.join(folder, 'new', name)
        else:
            path = os.path.join(folder, 'cur', name + colon + '2,' + ('T' if deleted else ''))
        with open(path, 'wb') as f:
            f.write(message_bytes(mark))

    async def make_readonly(self, nm: int) -> None:
        """dict: the backend declares the mailbox read-only (as the demo data
        do for Trash)"""
        mailbox_set, _ = self.env.config.set_cache[self.user.decode()]
        mbx = await mailbox_set.get_mailbox(NAMES[nm].decode())
        mbx._readonly = True

    async def _simple(self, s: int, line: bytes) -> dict:
        st, _text, raw = await self.cmd(s, line)
        if st == 'ok':
            return {'k': 'ok', 'post': post_of(raw)}
        if st == 'bye':
            return {'k': 'ok', 'post': 'bye'}
        return {'k': st}

    async def _do(self, op) -> dict:
        k, s = op[0], op[1]
        if k == 'makero':
            await self.make_readonly(op[1])
            return {'k': 'ok', 'post': (0, None, None)}
        if k == 'adopt':
            await self.conn(7)      # the first login creates the INBOX maildir
            for mark, dl, in_new in op[2]:
                self.drop_file(op[1], mark, dl, in_new)
            return {'k': 'ok', 'post': (0, None, None)}
        if k == 'idle':
            c = await self.conn(s)
            self.ntag += 1
            tag = b't%d' % self.ntag
            raw = await asyncio.wait_for(c.send(tag + b' IDLE\r\n'), 20)
            self.log.append({'s': s, 'cmd': b'IDLE', 'raw': raw})
            if raw.startswith(b'+'):
                self.idle[s] = tag
                # changes pending at that moment are pushed right away
                self.idle_rest[s] = raw.split(b'\r\n', 1)[1]
                return {'k': 'ok', 'post': (0, None, None)}
            st, _t = tagged(raw, tag)
            return {'k': st}
        if k == 'done':
            tag = self.idle.pop(s)
            c = self.conns[s]
            raw = self.idle_rest.pop(s, b'') + c.take() \
                + await asyncio.wait_for(c.send(b'DONE\r\n'), 20)
            self.log.append({'s': s, 'cmd': b'DONE', 'raw': raw})
            st, _t = tagged(raw, tag)
            if st == 'ok':
                return {'k': 'ok', 'post': post_of(raw)}
            return {'k': st}
        if k == 'delete':
            return await self._simple(s, b'DELETE ' + NAMES[op[2]])
        if k == 'create':
            return await self._simple(s, b'CREATE ' + NAMES[op[2]])
        if k == 'rename':
            return await self._simple(s, b'RENAME ' + NAMES[op[2]] + b' ' + NAMES[op[3]])
        if k == 'noop':
            return await self._simple(s, b'NOOP')
        if k == 'close':
            return await self._simple(s, b'CLOSE')
        if k == 'logout':
            c = self.conns.get(s)
            if c is not None and not c.closed:
                self.ntag += 1
                raw = await asyncio.wait_for(c.send(b't%d LOGOUT\r\n' % self.ntag), 5)
                self.log.append({'s': s, 'cmd': b'LOGOUT', 'raw': raw})
            self.conns.pop(s, None)
            gc.collect()
            return {'k': 'ok', 'post': (0, None, None)}
        if k == 'expunge':
            line = b'EXPUNGE' if op[2] is None else b'UID EXPUNGE ' + set_bytes(op[2])
            return await self._simple(s, line)
        if k == 'append':
            parts = [b'APPEND ', NAMES[op[2]]]
            for mark, dl, rc in op[3]:
                flags = [f for f, on in ((b'\\Deleted', dl), (b'\\Recent', rc)) if on]
                body = message_bytes(mark)
                parts.append(b' ')
                if flags:
                    parts.append(b'(' + b' '.join(flags) + b') ')
                parts.append(b'{%d+}\r\n' % len(body) + body)
            st, text, raw = await self.cmd(s, b''.join(parts))
            if st != 'ok':
                return {'k': st if st != 'bye' else 'no'}
            m = _APPENDUID.search(text)
            if not m:
                raise Unexpected(f'APPEND OK without APPENDUID: {raw!r}')
            return {'k': 'append', 'v': int(m.group(1)), 'uids': m.group(2),
                    'post': post_of(raw)}
        if k in ('copy', 'move'):
            seq = isinstance(op[2], tuple) and op[2] and op[2][0] == 'seq'
            line = (b'' if seq else b'UID ') + (b'COPY ' if k == 'copy' else b'MOVE ') \
                + set_bytes(op[2]) + b' ' + NAMES[op[3]]
            st, text, raw = await self.cmd(s, line)
            if st != 'ok':
                return {'k': st}
            m = _COPYUID.search(raw)
            r = (int(m.group(1)), m.group(2), m.group(3)) if m else None
            return {'k': 'copy', 'r': r, 'post': post_of(raw)}
        if k == 'select':
            line = (b'EXAMINE ' if op[3] else b'SELECT ') + NAMES[op[2]]
            st, text, raw = await self.cmd(s, line)
            if st != 'ok':
                return {'k': st}
            ro = b'READ-ONLY' in text
            if not ro and b'READ-WRITE' not in text:
                raise Unexpected(f'SELECT OK without access code: {raw!r}')
            return {'k': 'select', 'ro': ro,
                    'v': int(_UIDVALIDITY.search(raw).group(1)),
                    'exists': int(_EXISTS.search(raw).group(1)),
                    'recent': int(_RECENT.search(raw).group(1)),
                    'uidnext': int(_UIDNEXT.search(raw).group(1))}
        if k == 'status':
            st, text, raw = await self.cmd(
                s, b'STATUS ' + NAMES[op[2]] + b' (MESSAGES RECENT UIDNEXT UIDVALIDITY)')
            if st == 'bye':
                pass
            elif st != 'ok':
                return {'k': st}
            m = _STATUS.search(raw)
            if not m:
                raise Unexpected(f'STATUS without data: {raw!r}')
            rest = raw[:m.start()] + raw[m.end():]
            return {'k': 'status', 'messages': int(m.group(1)), 'recent': int(m.group(2)),
                    'uidnext': int(m.group(3)), 'v': int(m.group(4)),
                    'post': post_of(rest)}
        if k == 'fetch':
            st, _t, raw = await self.cmd(s, b'NOOP')
            if st == 'no':
                return {'k': 'no'}
            c = self.conns.get(s)
            if c is None or c.closed:
                return {'k': 'ok', 'post': 'bye'}
            post = post_of(raw)
            st2, _t2, raw2 = await self.cmd(
                s, b'UID FETCH 1:* (UID FLAGS BODY.PEEK[HEADER.FIELDS (SUBJECT)])')
            if st2 != 'ok':
                return {'k': st2}
            rows = []
            for m in _ROW.finditer(raw2):
                flags = m.group(3).split()
                rows.append((int(m.group(2)), b'\\Recent' in flags, b'\\Deleted' in flags,
                             int(m.group(5))))
            nfetch = len(re.findall(rb'^\* \d+ FETCH ', raw2, re.M))
            if nfetch != len(rows) or post_of(raw2) != (0, None, None):
                raise Unexpected(f'UID FETCH after NOOP announced changes: {raw2!r}')
            return {'k': 'fetch', 'post': post, 'rows': rows}
        if k == 'store':
            st, _t, raw = await self.cmd(s, b'NOOP')
            if st == 'no':
                return {'k': 'no'}
            post = post_of(raw)
            flags = [f for f, on in ((b'\\Deleted', op[4]), (b'\\Recent', op[5])) if on]
            item = {'add': b'+FLAGS.SILENT', 'del': b'-FLAGS.SILENT',
                    'repl': b'FLAGS.SILENT'}[op[3]]
            st2, _t2, raw2 = await self.cmd(
                s, b'UID STORE ' + set_bytes(op[2]) + b' ' + item
                + b' (' + b' '.join(flags) + b')')
            if st2 == 'bad':
                return {'k': 'bad'}
            if post_of(raw2) not in ((0, None, None),):
                raise Unexpected(f'UID STORE after NOOP announced changes: {raw2!r}')
            return {'k': 'store', 'post': post, 'ok': st2 == 'ok'}
        raise ValueError(op)


# ------------------------------------------------------------------ mirror
class Mirror:
    """The driver's own bookkeeping of names, selections and idling
    connections, used to steer generation (mostly valid arguments).  Not a
    model: it only follows the OK/NO answers."""

    def __init__(self) -> None:
        self.names = {0: 0}
        self.ntok = 1
        self.sel: dict[int, tuple[int, int, bool] | None] = {}
        self.uids: dict[int, list[int]] = {0: []}
        self.nmark = 0
        self.idle: set[int] = set()
        self.ro: set[int] = set()

    def follow(self, op, ob) -> None:
        k = op[0]
        if k in ('makero', 'adopt'):
            if k == 'makero' and op[1] in self.names:
                self.ro.add(self.names[op[1]])
            return
        s = op[1]
        bye = ob.get('post') == 'bye'
        if k == 'create' and ob['k'] == 'ok':
            self.names[op[2]] = self.ntok
            self.uids[self.ntok] = []
            self.ntok += 1
        elif k == 'delete' and ob['k'] == 'ok':
            self.names.pop(op[2], None)
        elif k == 'rename' and ob['k'] == 'ok':
            a, b = op[2], op[3]
            tok = self.names.pop(a, None)
            if tok is not None:
                self.names[b] = tok
            if a == 0:
                self.names[0] = self.ntok
                self.uids[self.ntok] = []
                self.ntok += 1
            elif 1 <= a <= 3 and 1 <= b <= 3 and a + 4 in self.names:
                self.names[b + 4] = self.names.pop(a + 4)
        elif k == 'select':
            self.sel[s] = (op[2], self.names[op[2]], op[3]) if ob['k'] == 'select' else None
        elif k == 'close' and ob['k'] == 'ok':
            self.sel[s] = None
        elif k == 'logout':
            self.sel[s] = None
            self.idle.discard(s)
        elif k == 'idle' and ob['k'] == 'ok':
            self.idle.add(s)
        elif k == 'done':
            self.idle.discard(s)
        elif k == 'append' and ob['k'] == 'append':
            self.uids[self.names[op[2]]].extend(expand_set(ob['uids']))
        elif k in ('copy', 'move') and ob['k'] == 'copy' and ob['r'] is not None:
            self.uids[self.names[op[3]]].extend(expand_set(ob['r'][2]))
        if bye:
            self.sel[s] = None
            self.idle.discard(s)


# --------------------------------------------------------------- generators
def gen_set(rng, known):
    r = rng.random()
    if r < 0.35 or not known:
        return None
    k = rng.randint(1, min(4, len(known)))
    st = rng.sample(known, k)
    if rng.random() < 0.15:
        st.append(max(known) + rng.randint(1, 3))
    rng.shuffle(st)
    return st


def gen_op(rng, mir: Mirror, nsess: int, profile: str, *, maildir: bool = False,
           flat: bool = False, move_within: bool = False):
    """One more operation of a random history."""
    s = rng.randrange(nsess)
    if s in mir.idle:
        if rng.random() < 0.35:
            return ('done', s)
        others = [x for x in range(nsess) if x not in mir.idle]
        if not others:
            return ('done', s)
        s = rng.choice(others)
    cur = mir.sel.get(s)
    names = list(mir.names)
    # the fs layout needs the superior to exist before an inferior is created (C11's
    # business): flat names only there
    free = [n for n in NAMES if n not in mir.names and not (flat and n > 3)]

    def some_name(p_missing=0.08):
        if free and rng.random() < p_missing:
            return rng.choice(free)
        return rng.choice(names)

    def new_msgs():
        n = 1 if rng.random() < 0.8 else 2
        out = []
        for _ in range(n):
            mir.nmark += 1
            out.append((mir.nmark, rng.random() < 0.2, rng.random() < 0.15))
        return out

    if profile == 'uid':
        w = {'append': 22, 'copy': 14, 'move': 10, 'expunge': 9, 'store': 9, 'select': 12,
             'close': 3, 'status': 7, 'noop': 3, 'fetch': 8, 'create': 5, 'rename': 5,
             'logout': 2, 'delete': 3, 'idle': 2, 'makero': 1, 'adopt': 6}
    else:
        w = {'append': 24, 'copy': 8, 'move': 5, 'expunge': 4, 'store': 8, 'select': 20,
             'close': 6, 'status': 6, 'noop': 5, 'fetch': 14, 'create': 2, 'rename': 1,
             'logout': 3, 'delete': 2, 'idle': 4, 'makero': 1, 'adopt': 6}
    if maildir:
        # RENAME of the maildir backend is the C11 builder's; IDLE polls with a
        # real one-second timeout; read-only mailboxes do not exist
        w['rename'] = w['idle'] = w['makero'] = 0
    else:
        w['adopt'] = 0
    if mir.idle:
        # the idler resolved its mailbox before it went to sleep: no name changes
        w['create'] = w['rename'] = w['delete'] = w['makero'] = 0
    if not cur:
        for k in ('copy', 'move', 'expunge', 'store', 'close', 'fetch'):
            w[k] = w[k] // 6
        w['idle'] = 0
    kinds = list(w)
    k = rng.choices(kinds, [w[x] for x in kinds])[0]
    known = mir.uids.get(cur[1], []) if cur else []
    if k == 'append':
        nm = cur[0] if cur and rng.random() < 0.5 and cur[0] in mir.names else some_name()
        return ('append', s, nm, new_msgs())
    if k in ('copy', 'move'):
        if rng.random() < 0.3:
            n = len(known) + 1
            st = ('seq', sorted(rng.sample(range(1, n + 2), rng.randint(1, min(3, n + 1)))))
        else:
            st = gen_set(rng, known)
        if k == 'move' and move_within and cur:
            # maildir with a non-default --colon: the delimiter is applied to the INBOX
            # only, so a MOVE between INBOX and another folder loses the flags in the file
            # name (reported, not a C04/C17 matter): MOVE stays inside the selected mailbox
            return (k, s, st, cur[0])
        return (k, s, st, some_name())
    if k == 'expunge':
        return ('expunge', s, gen_set(rng, known) if rng.random() < 0.5 else None)
    if k == 'store':
        r = rng.random()
        if r < 0.65:
            return ('store', s, gen_set(rng, known), rng.choice(['add', 'add', 'del', 'repl']),
                    True, rng.random() < 0.2)
        return ('store', s, gen_set(rng, known), rng.choice(['add', 'del', 'repl']),
                rng.random() < 0.3, True)
    if k == 'select':
        return ('select', s, some_name(0.05), rng.random() < 0.35)
    if k == 'status':
        return ('status', s, some_name())
    if k == 'create':
        return ('create', s, rng.choice(free) if free and rng.random() < 0.85
                else rng.choice([n for n in NAMES if not (flat and n > 3)]))
    if k == 'delete':
        return ('delete', s, some_name(0.1))
    if k == 'rename':
        allowed = [n for n in NAMES if not (flat and n > 3)]
        a = rng.choice(names) if rng.random() < 0.9 else rng.choice(allowed)
        b = rng.choice(free) if free and rng.random() < 0.85 else rng.choice(allowed)
        if 1 <= a <= 3 and a + 4 in mir.names and not 1 <= b <= 3:
            # an inferior would move below an inferior name: outside the modelled names
            return ('noop', s)
        return ('rename', s, a, b)
    if k == 'makero':
        cand = [n for n in names if n != 0]
        return ('makero', rng.choice(cand)) if cand else ('noop', s)
    if k == 'adopt':
        mir.nmark += 1
        in_new = rng.random() < 0.6
        return ('adopt', rng.choice(names), [(mir.nmark, (not in_new) and rng.random() < 0.3,
                                              in_new)])
    return (k, s)


def final_probe(mir: Mirror, probe_s: int = 9):
    """Ops appended to every history: a fresh connection looks at every
    mailbox (STATUS, EXAMINE + dump), then selects it read-write and dumps."""
    ops = []
    for nm in sorted(mir.names):
        ops += [('status', probe_s, nm), ('select', probe_s, nm, True), ('fetch', probe_s),
                ('select', probe_s, nm, False), ('fetch', probe_s)]
    ops.append(('logout', probe_s))
    return ops


# ---- exhaustive interleavings of small per-connection scripts
def interleavings(scripts):
    """All merges of the scripts that keep each script's own order."""
    def rec(pos):
        if all(p == len(sc) for p, sc in zip(pos, scripts)):
            yield []
            return
        for i, sc in enumerate(scripts):
            if pos[i] < len(sc):
                nxt = pos[:i] + (pos[i] + 1,) + pos[i + 1:]
                for rest in rec(nxt):
                    yield [sc[pos[i]]] + rest
    yield from rec(tuple(0 for _ in scripts))


def recent_scripts():
    """Per-connection scripts for the \\Recent enumeration; `S` is replaced by
    the connection number, marks are assigned at run time (mark None)."""
    A = lambda nm=0, n=1: ('append', 'S', nm, [(None, False, False)] * n)
    return {
        'rw': [('select', 'S', 0, False), ('fetch', 'S')],
        'ro': [('select', 'S', 0, True), ('fetch', 'S')],
        'rw_close': [('select', 'S', 0, False), ('fetch', 'S'), ('close', 'S')],
        'app': [A()],
        'app2': [A(n=2)],
        'ro_app': [('select', 'S', 0, True), A(), ('fetch', 'S')],
        'rw_app': [('select', 'S', 0, False), A(), ('fetch', 'S')],
        'other_app': [('select', 'S', 1, False), A(), ('noop', 'S')],
        'rw_resel': [('select', 'S', 0, False), ('select', 'S', 0, False), ('fetch', 'S')],
        'app_rw': [A(), ('select', 'S', 0, False), ('fetch', 'S')],
        'ro_rw': [('select', 'S', 0, True), ('select', 'S', 0, False), ('fetch', 'S')],
        'rw_copy': [('select', 'S', 0, False), ('copy', 'S', None, 0), ('fetch', 'S')],
        'rw_logout': [('select', 'S', 0, False), ('logout', 'S')],
    }


def instantiate(script, s, mir: Mirror):
    out = []
    for op in script:
        op = tuple(s if x == 'S' else x for x in op)
        if op[0] == 'append':
            ms = []
            for _m, d, r in op[3]:
                mir.nmark += 1
                ms.append((mir.nmark, d, r))
            op = ('append', op[1], op[2], ms)
        out.append(op)
    return out


# ----------------------------------------------------------------- monitors
class Monitor:
    """Property oracles over one history's observations (no model).

    C04: uid_monotone, uid_reuse, uidnext_low, uidnext_high, appenduid_truth,
         copyuid_truth, copyuid_shape
    C17: recent_twice, recent_readonly, recent_count, first_select, store_recent
    """

    def __init__(self) -> None:
        self.fail: list[tuple[str, str, dict]] = []
        self.maxuid: dict[tuple, int] = {}         # (token, validity) -> highest uid assigned/seen
        self.content: dict[tuple[int, int], int] = {}   # (validity, uid) -> mark
        self.uidnext: dict[int, int] = {}          # validity -> highest UIDNEXT reported
        self.sel: dict[int, dict | None] = {}      # connection -> current selection
        self.ninst = 0
        self.shown: dict[tuple[int, int], dict] = {}   # (v, uid) -> {inst: ro}
        self.unclaimed: dict[int, set[int]] = {}   # v -> uids that arrived with no rw selection
        self.pending_assign: list | None = None    # (v, [(uid, mark)]) of the previous op
        self.prev: tuple | None = None
        # Two different mailboxes may legitimately carry the same UIDVALIDITY
        # value (it is 16 time bits + 16 random bits), so everything is keyed
        # by (mailbox token, UIDVALIDITY); tokens follow CREATE/RENAME answers.
        self.claims: list = []                     # (key, uids, RECENT told, connection, t)
        self.tok: dict[int, int] = {0: 0}          # name -> mailbox token
        self.ntok = 1
        self.n_checks = 0

    def key(self, nm: int, v: int) -> tuple[int, int]:
        if nm not in self.tok:
            self.tok[nm] = self.ntok
            self.ntok += 1
        return (self.tok[nm], v)

    def bad(self, clause: str, what: str, **obs) -> None:
        if len(self.fail) < 5:
            self.fail.append((clause, what, dict(obs, kind=clause)))

    def _assign(self, v: int, uids: list[int], marks: list[int | None], t: int) -> None:
        last = self.maxuid.get(v, 0)
        for u, mk in zip(uids, marks):
            self.n_checks += 1
            if u <= last:
                self.bad('uid_monotone', f'op {t}: UID {u} assigned in validity {v} after {last}',
                         uid=u, after=last)
            if v in self.uidnext and u < self.uidnext[v]:
                self.bad('uidnext_high', f'op {t}: UID {u} assigned after UIDNEXT '
                         f'{self.uidnext[v]} had been reported', uid=u)
            last = max(last, u)
            if mk is not None:
                old = self.content.get((v, u))
                if old is not None and old != mk:
                    self.bad('uid_reuse', f'op {t}: ({v},{u}) denoted m{old}, now m{mk}', uid=u)
                self.content[(v, u)] = mk
        self.maxuid[v] = last
        rw = [x for x in self.sel.values() if x and x['v'] == v and not x['ro']]
        if not rw:
            self.unclaimed.setdefault(v, set()).update(uids)

    def step(self, t: int, op, ob) -> None:
        k, s = op[0], op[1]
        if k in ('makero', 'adopt'):          # labels of the environment
            self.pending_assign = None
            self.prev = (op, ob)
            return
        cur = self.sel.get(s)
        pend, self.pending_assign = self.pending_assign, None
        prev, self.prev = self.prev, (op, ob)
        if ob.get('post') == 'bye':
            self.sel[s] = None
        if isinstance(ob.get('post'), tuple) and ob['post'][2] is not None and cur:
            cur['announced'] = ob['post'][2]
        if k == 'logout':
            self.sel[s] = None
        elif k == 'close' and ob['k'] == 'ok':
            self.sel[s] = None
        elif k == 'create' and ob['k'] == 'ok':
            self.tok[op[2]] = self.ntok
            self.ntok += 1
        elif k == 'delete' and ob['k'] == 'ok':
            self.tok.pop(op[2], None)
        elif k == 'rename' and ob['k'] == 'ok':
            if op[2] in self.tok:
                self.tok[op[3]] = self.tok.pop(op[2])
            if op[2] == 0:
                self.tok[0] = self.ntok
                self.ntok += 1
            elif 1 <= op[2] <= 3 and 1 <= op[3] <= 3 and op[2] + 4 in self.tok:
                self.tok[op[3] + 4] = self.tok.pop(op[2] + 4)
        elif k == 'append' and ob['k'] == 'append':
            v = self.key(op[2], ob['v'])
            uids = expand_set(ob['uids'])
            marks = [m for m, _d, _r in op[3]]
            if len(uids) != len(marks):
                self.bad('appenduid_truth', f'op {t}: {len(marks)} messages appended, '
                         f'APPENDUID lists {len(uids)} UIDs', n=len(uids))
            self._assign(v, uids, marks, t)
            self.pending_assign = (v, list(zip(uids, marks)))
        elif k in ('copy', 'move') and ob['k'] == 'copy' and ob['r'] is not None:
            v, a, b = ob['r']
            v = self.key(op[3], v)
            src, dst = expand_set(a), expand_set(b)
            if len(src) != len(dst):
                self.bad('copyuid_shape', f'op {t}: COPYUID lists {len(src)} sources and '
                         f'{len(dst)} destinations', n=len(src))
            marks = [self.content.get((cur['v'], u)) if cur else None for u in src]
            self._assign(v, dst, marks[:len(dst)] + [None] * (len(dst) - len(marks)), t)
            self.pending_assign = (v, [(u, m) for u, m in zip(dst, marks) if m is not None])
        elif k == 'select':
            if ob['k'] != 'select':
                self.sel[s] = None
                return
            v = self.key(op[2], ob['v'])
            self.ninst += 1
            self.sel[s] = {'v': v, 'ro': ob['ro'], 'inst': self.ninst,
                           'announced': ob['recent'], 'uidnext': ob['uidnext'],
                           'fresh': True, 'claim': None}
            self._uidnext(v, ob['uidnext'], t)
            if not ob['ro']:
                self.sel[s]['claim'] = self.unclaimed.pop(v, set())
                if self.sel[s]['claim']:
                    self.claims.append((v, set(self.sel[s]['claim']), ob['recent'], s, t))
        elif k == 'status' and ob['k'] == 'status':
            self._uidnext(self.key(op[2], ob['v']), ob['uidnext'], t)
        elif k == 'fetch' and ob['k'] == 'fetch' and cur:
            self._dump(t, s, cur, ob, pend, prev)
        if cur and k != 'select':
            cur['fresh'] = False

    def _uidnext(self, v: int, n: int, t: int) -> None:
        self.n_checks += 1
        self.uidnext[v] = max(self.uidnext.get(v, 0), n)

    def _dump(self, t, s, cur, ob, pend, prev) -> None:
        v = cur['v']
        rows = ob['rows']
        uids = [r[0] for r in rows]
        self.n_checks += len(rows) + 1
        if uids != sorted(set(uids)):
            self.bad('uid_reuse', f'op {t}: UID FETCH lists {uids}', uid=uids[0] if uids else 0)
        for u, rc, _dl, mk in rows:
            old = self.content.get((v, u))
            if old is not None and old != mk:
                self.bad('uid_reuse', f'op {t}: ({v},{u}) was m{old}, UID FETCH finds m{mk}',
                         uid=u)
            self.content[(v, u)] = mk
            if u > self.maxuid.get(v, 0):
                self.maxuid[v] = u
            if rc:
                seen = self.shown.setdefault((v, u), {})
                seen[cur['inst']] = cur['ro']
                if cur['ro']:
                    self.bad('recent_readonly', f'op {t}: read-only selection of connection {s} '
                             f'is shown \\Recent on UID {u}', uid=u)
                elif len([i for i, ro in seen.items() if not ro]) > 1:
                    self.bad('recent_twice', f'op {t}: UID {u} shown \\Recent to a second '
                             f'read-write selection (connection {s})', uid=u)
        # a read-write SELECT was told fewer RECENT than the messages that had
        # arrived unselected and (as this dump shows) existed at that time
        for (kv, cuids, told, cs, ct) in list(self.claims):
            if kv == v:
                alive = [u for u in uids if u in cuids]
                if len(alive) > told:
                    self.bad('first_select', f'op {t}: UIDs {alive} arrived while no read-write '
                             f'selection existed and still exist; the first read-write SELECT '
                             f'(connection {cs}, op {ct}) was told RECENT {told}', uid=alive[0])
                    self.claims.remove((kv, cuids, told, cs, ct))
        # UIDNEXT of a SELECT directly followed by the dump
        if cur.get('fresh') and prev and prev[0][0] == 'select' and prev[0][1] == s:
            for u in uids:
                if u >= cur['uidnext']:
                    self.bad('uidnext_low', f'op {t}: UIDNEXT {cur["uidnext"]} announced, '
                             f'UID {u} exists', uid=u)
        # RECENT announced == rows flagged (read-write selections)
        if not cur['ro']:
            n = sum(1 for r in rows if r[1])
            if n != cur['announced']:
                self.bad('recent_count', f'op {t}: connection {s} was told {cur["announced"]} '
                         f'RECENT, sees {n} messages flagged', told=cur['announced'], sees=n)
        # first read-write SELECT claims what arrived unselected
        if cur.get('claim') is not None and not cur['ro']:
            for u in sorted(cur['claim']):
                for r in rows:
                    if r[0] == u and not r[1]:
                        self.bad('first_select', f'op {t}: UID {u} arrived while no read-write '
                                 f'selection existed; the first read-write SELECT (connection '
                                 f'{s}) does not see it \\Recent', uid=u)
            cur['claim'] = None
        # the assignment announced by the previous command is what FETCH finds
        if pend and pend[0] == v:
            have = {r[0]: r[3] for r in rows}
            for u, mk in pend[1]:
                if have.get(u) != mk:
                    self.bad('appenduid_truth' if prev[0][0] == 'append' else 'copyuid_truth',
                             f'op {t}: UID {u} announced for m{mk}, UID FETCH finds '
                             f'{"nothing" if u not in have else "m%d" % have[u]}', uid=u)
        # STORE .. (\Recent) between two dumps of the same connection
        if prev and prev[0][0] == 'store' and prev[0][1] == s and prev[0][5] \
                and cur.get('last_dump') is not None and cur.get('last_dump_t') == t - 2:
            before = cur['last_dump']
            for u, rc, _d, _m in rows:
                if u in before and before[u] != rc:
                    self.bad('store_recent', f'op {t}: STORE changed \\Recent of UID {u}', uid=u)
        cur['last_dump'] = {r[0]: r[1] for r in rows}
        cur['last_dump_t'] = t


# ------------------------------------------------------------ running cases
C04_CLAUSES = {'uid_monotone', 'uid_reuse', 'uidnext_low', 'uidnext_high', 'appenduid_truth',
               'copyuid_truth', 'copyuid_shape'}
C17_CLAUSES = {'recent_twice', 'recent_readonly', 'recent_count', 'first_select',
               'store_recent'}


async def run_history(env, user, password, ops_or_gen, *, maildir=False, probe=True):
    """Execute a history.  `ops_or_gen` is a list of ops or a callable
    (mirror) -> next op or None.  Returns (world, monitor, mirror)."""
    w = World(env, user, password, maildir=maildir)
    mir = Mirror()
    mon = Monitor()
    t = 0

    async def one(op):
        nonlocal t
        n0 = len(w.hist)
        await w.do(op)
        for o, ob in w.hist[n0:]:
            mir.follow(o, ob)
            mon.step(t, o, ob)
            t += 1

    try:
        if callable(ops_or_gen):
            while True:
                op = ops_or_gen(mir)
                if op is None:
                    break
                await one(op)
        else:
            for op in ops_or_gen:
                await one(op)
        if probe:
            for s in sorted(mir.idle):
                await one(('done', s))
            for op in final_probe(mir):
                await one(op)
    finally:
        await w.close_all()
    return w, mon, mir


def hist_json(hist):
    def j(x):
        if isinstance(x, bytes):
            return x.decode('latin-1')
        if isinstance(x, (list, tuple)):
            return [j(y) for y in x]
        if isinstance(x, dict):
            return {k: j(v) for k, v in x.items()}
        return x
    return [[j(op), j(ob)] for op, ob in hist]


def fixed_histories_dict():
    A = lambda s, nm, *ms: ('append', s, nm, list(ms))
    return [
        # a backend-read-only mailbox (like the demo Trash): selected read-only even by
        # SELECT, refuses APPEND/COPY/MOVE into it, never claims \\Recent
        ('readonly_box', [('create', 0, 1), A(0, 1, (1, False, False)), ('makero', 1),
                          A(0, 1, (2, False, False)), ('select', 0, 1, False), ('fetch', 0),
                          ('store', 0, None, 'add', True, False), ('expunge', 0, None),
                          ('copy', 0, None, 0), ('copy', 0, None, 1), ('move', 0, None, 0),
                          ('select', 1, 0, False), ('copy', 1, None, 1), ('move', 1, None, 1),
                          ('close', 0), ('status', 1, 1), ('select', 2, 1, True), ('fetch', 2)]),
        # RENAME INBOX by another connection (C04-F1) and by the selecting connection itself
        ('rename_inbox_selected', [A(1, 0, (1, False, False)), ('select', 0, 0, False),
                                   ('select', 2, 0, False), ('fetch', 0), ('rename', 2, 0, 1),
                                   A(1, 0, (2, False, False)), ('noop', 2), ('fetch', 0),
                                   ('status', 0, 0), ('status', 2, 1), ('select', 2, 1, False),
                                   ('fetch', 2), ('select', 0, 0, False), ('fetch', 0)]),
        # IDLE: deliveries and expunges by others are pushed; pending changes at IDLE start
        ('idle_push', [('select', 0, 0, False), ('select', 1, 0, True), A(2, 0, (1, False, False)),
                       ('idle', 0), ('idle', 1), A(2, 0, (2, True, False)),
                       A(2, 0, (3, False, False), (4, False, False)), ('select', 2, 0, False),
                       ('expunge', 2, None), ('done', 1), A(2, 0, (5, False, False)),
                       ('done', 0), ('fetch', 0), ('fetch', 1), ('idle', 3), ('idle', 2),
                       ('done', 2)]),
    ]


def fixed_histories_maildir():
    A = lambda s, nm, *ms: ('append', s, nm, list(ms))
    return [
        # files appear in new/ and cur/ without a uidlist record (external delivery): the
        # next reset gives them the next UIDs; those in new/ are claimed by the first SELECT
        ('external_delivery', [A(0, 0, (1, False, False)), ('adopt', 0, [(2, False, True)]),
                               ('select', 1, 0, True), ('fetch', 1),
                               ('adopt', 0, [(3, True, False)]), ('select', 0, 0, False),
                               ('fetch', 0), ('adopt', 0, [(4, False, True)]), ('fetch', 0),
                               A(0, 0, (5, False, False)), ('select', 2, 0, False), ('fetch', 2),
                               ('create', 0, 1), ('adopt', 1, [(6, False, False)]),
                               ('copy', 2, None, 1), ('status', 0, 1)]),
    ]


async def add_dict_user(env, name: str, password: str) -> None:
    """A fresh dict-backend user: one empty INBOX (pymap_env.DictEnv.add_user
    does not match Identity's signature)."""
    from pymap.user import Passwords, UserMetadata
    from pymap.backend.dict import Identity
    hashed = await Passwords(env.config).hash_password(password)
    ident = Identity(name, env.backend.login, None, set())
    await ident.set(UserMetadata(env.config, name, password=hashed))


# ------------------------------------------------------- batches of histories
def _mk_env(maildir: bool, mcfg=('++', None)):
    """mcfg = (layout, colon) of the maildir backend: '++' or 'fs', the
    file-name info delimiter (None = ':')"""
    from .pymap_env import DictEnv, MaildirEnv, FakeArgs

    class MaildirEnvCfg(MaildirEnv):
        colon = mcfg[1]

        async def start(self):
            from pysasl.hashing import BuiltinHash
            from pymap.backend.maildir import Config, Login, Identity
            from pymap.concurrent import Subsystem
            from pymap.user import Passwords, UserMetadata
            args = FakeArgs(base_dir=self.base, layout=self.layout, concurrency=None,
                            colon=self.colon, users_file=None, passwords_file=None)
            sub = Subsystem.for_asyncio()
            parsed = dict(Config.parse_args(args))
            parsed['subsystem'] = sub
            self.config = Config(
                args, host=None, port=0, debug=False, tls_enabled=False,
                **parsed, cpu_subsystem=sub,
                hash_context=BuiltinHash(hash_name='sha1', salt_len=0, rounds=1),
                invalid_user_sleep=0.0)
            self.config.apply_context()
            self.login_obj = Login(self.config)
            for name, password in self.users:
                hashed = await Passwords(self.config).hash_password(password)
                ident = Identity(self.config, self.login_obj.tokens, name, None, {'admin'})
                try:
                    await ident.get()
                except Exception:
                    await ident.set(UserMetadata(self.config, name, password=hashed,
                                                 params={'mailbox_path': name}))
            return self
    if not maildir:
        return DictEnv()
    return MaildirEnvCfg(layout=mcfg[0], users=(('u1', 'pass'),))


async def _batch_async(spec) -> list[dict]:
    import random
    out = []
    maildir = spec.get('maildir', False)
    env = None if maildir else await _mk_env(False).start()
    nuser = 0

    async def one(ops_or_gen, label):
        nonlocal nuser
        if maildir:
            e = await _mk_env(True, tuple(spec.get('mcfg', ('++', None)))).start()
            user, pw = b'u1', b'pass'
        else:
            e = env
            nuser += 1
            user, pw = b'h%d' % nuser, b'pw'
            await add_dict_user(e, user.decode(), 'pw')
        if maildir and spec.get('mcfg'):
            label += '@%s,%s' % tuple(spec['mcfg'])
        rec = {'label': label, 'base': 0 if maildir else 100, 'shared': not maildir,
               'hist': [], 'fails': [], 'crashes': [], 'error': None, 'checks': 0}
        try:
            w = mon = None
            try:
                w, mon, _mir = await run_history(e, user, pw, ops_or_gen, maildir=maildir)
            except (Unexpected, asyncio.TimeoutError, AssertionError) as exc:
                rec['error'] = f'{type(exc).__name__}: {exc}'[:600]
            if w is not None:
                rec['hist'] = w.hist
                rec['crashes'] = w.crashes[:3]
            if mon is not None:
                rec['fails'] = mon.fail
                rec['checks'] = mon.n_checks
        finally:
            if maildir:
                e.close()
        out.append(rec)

    if spec['kind'] == 'random':
        rng = random.Random(spec['seed'])
        for k in range(spec['n']):
            nsess = rng.choice([1, 2, 2, 3, 3, 3])
            nops = rng.randint(3, spec.get('maxops', 22))
            cnt = [0]
            profile = spec['profile']

            def gen(mir, cnt=cnt, nops=nops, nsess=nsess):
                if cnt[0] >= nops:
                    return None
                cnt[0] += 1
                return gen_op(rng, mir, nsess, profile, maildir=maildir,
                              flat=maildir and tuple(spec.get('mcfg', ('++', None)))[0] == 'fs',
                              move_within=maildir and bool(tuple(spec.get('mcfg', ('++', None)))[1]))
            await one(gen, f'random/{spec["profile"]}/{spec["seed"]}/{k}')
    elif spec['kind'] == 'scripts':
        lib = recent_scripts()
        for combo in spec['combos']:
            mirror = Mirror()
            scripts = [instantiate(lib[name], s, mirror) for s, name in enumerate(combo)]
            pre = spec.get('pre', [])
            k, n = spec.get('part', (0, 1))
            for idx, order in enumerate(interleavings(scripts)):
                if idx % n == k:
                    await one(list(pre) + order, 'scripts/' + '+'.join(combo))
    elif spec['kind'] == 'fixed':
        for label, ops in spec['hists']:
            await one(ops, label)
    return out


def run_batch(spec) -> list[dict]:
    from .pymap_env import run
    return run(_batch_async(spec), timeout=spec.get('timeout', 3000))


def fixed_histories():
    """Witnesses of the defects fixed in /repo (must stay quiet) and a few
    hand-written corner cases."""
    A = lambda s, nm, *ms: ('append', s, nm, list(ms))
    return [
        # C17-F1: EXAMINE + APPEND by the same connection, then SELECT elsewhere
        ('examine_append', [('select', 0, 0, True), A(0, 0, (1, False, False)), ('fetch', 0),
                            ('select', 1, 0, False), ('fetch', 1)]),
        # C17-F2: APPEND (\Recent) is not stored as a flag
        ('append_recent_flag', [A(0, 0, (1, False, True)), ('select', 0, 0, False), ('fetch', 0),
                                ('select', 1, 0, False), ('fetch', 1), ('create', 1, 1),
                                ('copy', 1, None, 1), ('select', 2, 1, False), ('fetch', 2),
                                ('select', 0, 1, False), ('fetch', 0)]),
        # C17-F3 (maildir): several messages arrive unselected, first SELECT sees all
        ('many_unselected', [A(0, 0, (1, False, False)), A(0, 0, (2, False, False)),
                             A(0, 0, (3, False, False), (4, False, False)),
                             A(1, 0, (5, False, False)), ('status', 1, 0),
                             ('select', 0, 0, True), ('fetch', 0),
                             ('select', 1, 0, False), ('fetch', 1), ('select', 2, 0, False),
                             ('fetch', 2)]),
        # expunge the highest UID, append again
        ('expunge_highest', [A(0, 0, (1, False, False), (2, True, False)), ('select', 0, 0, False),
                             ('fetch', 0), ('expunge', 0, None), A(1, 0, (3, False, False)),
                             ('fetch', 0), ('status', 1, 0)]),
        # COPY spelled in descending order, into the same mailbox
        ('copy_descending', [A(0, 0, (1, False, False), (2, False, False)), A(0, 0, (3, False, False)),
                             ('select', 0, 0, False), ('copy', 0, [103, 101], 0), ('fetch', 0),
                             ('move', 0, [102, 101], 0), ('fetch', 0)]),
        # RENAME carries the counter; a new mailbox of the old name starts afresh
        ('rename_carries', [('create', 0, 1), A(0, 1, (1, False, False), (2, False, False)),
                            ('select', 1, 1, False), ('store', 1, [102], 'add', True, False),
                            ('expunge', 1, None), ('rename', 0, 1, 2), ('noop', 1),
                            A(0, 2, (3, False, False)), ('status', 0, 2), ('create', 0, 1),
                            A(0, 1, (4, False, False)), ('status', 0, 1), ('status', 1, 2)]),
        # the selected name disappears (RENAME by someone else): CLOSE answers NO but
        # deselects (read-write) / OK (read-only); other commands answer NO; STATUS/APPEND
        # by that connection get BYE
        ('name_gone', [('create', 0, 1), A(0, 1, (1, True, False)), ('select', 1, 1, False),
                       ('rename', 0, 1, 2), ('noop', 1), ('close', 1), ('noop', 1),
                       ('select', 1, 2, True), ('rename', 0, 2, 3), ('fetch', 1), ('close', 1),
                       ('noop', 1), ('select', 1, 3, False), ('select', 2, 3, False),
                       ('rename', 0, 3, 1), ('expunge', 1, None), ('move', 1, None, 0),
                       A(0, 1, (2, False, False)), ('status', 2, 1), ('status', 1, 0),
                       ('noop', 1)]),
        # C17-F4: a selection dropped by a failed SELECT must not be picked any more
        ('ghost_selection', [('select', 1, 0, False), ('select', 0, 0, True),
                             A(2, 0, (1, False, False)), ('fetch', 1), ('select', 1, 1, False),
                             A(1, 0, (3, False, False)), ('select', 0, 0, False), ('fetch', 0),
                             ('select', 2, 0, False), ('fetch', 2), ('close', 2),
                             A(1, 0, (4, False, False)), ('close', 0), A(1, 0, (5, False, False)),
                             ('select', 1, 0, False), ('fetch', 1)]),
        # a message delivered by another connection while A has the mailbox selected, copied
        # by A into the mailbox it has selected, then B SELECTs read-write: the copy is
        # \Recent for A only (maildir keeps the unclaimed source in new/: seeded C17-2)
        ('copy_unclaimed_source', [('select', 0, 0, False), A(1, 0, (1, False, False)),
                                   ('fetch', 0), ('copy', 0, None, 0), ('fetch', 0),
                                   ('select', 2, 0, False), ('fetch', 2), ('fetch', 0),
                                   A(1, 0, (2, False, False)), ('noop', 0), ('copy', 0, [3], 0),
                                   ('move', 0, [1], 0), ('fetch', 0), ('select', 1, 0, False),
                                   ('fetch', 1)]),
        # DELETE and re-CREATE: new UIDVALIDITY, UIDs restart; the connection that had the
        # old mailbox selected is told it is gone (NO, BYE), never served the new one
        ('delete_recreate', [('create', 0, 1), A(0, 1, (1, False, False), (2, False, False)),
                             ('select', 1, 1, False), ('fetch', 1), ('delete', 0, 1),
                             ('create', 0, 1), A(0, 1, (3, False, False)), ('status', 0, 1),
                             ('fetch', 1), ('noop', 1), ('status', 1, 0), ('select', 2, 1, False),
                             ('fetch', 2), ('delete', 2, 0), ('delete', 2, 5)]),
        # hierarchy: RENAME carries the inferior, conflicts with a superior-only name
        ('hierarchy', [('create', 0, 5), A(0, 5, (1, False, False)), ('rename', 0, 1, 2),
                       ('status', 0, 6), ('create', 0, 1), ('rename', 0, 1, 2), ('create', 0, 2),
                       A(0, 2, (2, False, False)), ('select', 1, 6, False), ('rename', 0, 2, 3),
                       ('noop', 1), ('status', 0, 7), ('status', 0, 3), ('delete', 0, 3),
                       ('status', 0, 7), ('rename', 0, 7, 1), ('status', 0, 1)]),
        # message sequence numbers in COPY / MOVE (positions of the connection's own view)
        ('seq_sets', [A(0, 0, (1, False, False), (2, False, False)), A(0, 0, (3, False, False)),
                      ('select', 0, 0, False), ('select', 1, 0, False), ('expunge', 0, None),
                      ('store', 1, [101], 'add', True, False), ('expunge', 1, None),
                      ('copy', 0, ('seq', [1, 3]), 0), ('fetch', 0), ('copy', 0, ('seq', [1, 9]), 0),
                      ('move', 0, ('seq', [2]), 0), ('fetch', 0), ('fetch', 1)]),
        # STORE with \Recent in every mode
        ('store_recent', [A(0, 0, (1, False, False), (2, False, False)), ('select', 0, 0, False),
                          ('fetch', 0), ('store', 0, None, 'del', False, True), ('fetch', 0),
                          ('store', 0, [101], 'add', False, True), ('fetch', 0),
                          ('store', 0, [102], 'repl', True, True), ('fetch', 0),
                          ('select', 1, 0, False), ('fetch', 1),
                          ('store', 1, None, 'add', False, True), ('fetch', 1), ('fetch', 0)]),
    ]


async def stale_inbox_scenario() -> dict | None:
    """RENAME INBOX while another connection has INBOX selected: does that
    connection keep answering, under the UIDVALIDITY it was given, with the
    messages of the *new* INBOX?  (finding C04-F1)"""
    env = await _mk_env(False).start()
    await add_dict_user(env, 'stale', 'pw')
    w = World(env, b'stale', b'pw')
    try:
        await w.do(('append', 1, 0, [(1, False, False)]))
        sel = await w.do(('select', 0, 0, False))
        before = await w.do(('fetch', 0))
        await w.do(('rename', 1, 0, 1))
        await w.do(('append', 1, 0, [(2, False, False)]))
        st, _t, raw1 = await w.cmd(0, b'NOOP')
        st2, _t2, raw2 = await w.cmd(
            0, b'UID FETCH 101 (UID BODY.PEEK[HEADER.FIELDS (SUBJECT)])')
        m = re.search(rb'UID 101 BODY\[HEADER\.FIELDS \(SUBJECT\)\] \{\d+\}\r\nSubject: m(\d+)', raw2)
        told = b'BYE' in raw1 or b'BYE' in raw2 or st in ('no',) or st2 in ('no',)
        if m and int(m.group(1)) != before['rows'][0][3] and not told:
            return {'kind': 'inbox_replaced_under_selection', 'validity_given': sel['v'],
                    'uid': 101, 'was': before['rows'][0][3], 'now': int(m.group(1)),
                    'noop': raw1.decode('latin-1'), 'fetch': raw2.decode('latin-1')[:300]}
        return None
    finally:
        await w.close_all()


async def contended_maildir_scenario(variant: str, mcfg=('++', None)) -> dict:
    """Two connections add messages to the same maildir mailbox while an
    outside agent holds `dovecot-uidlist.lock` for a moment (the harness
    creates the lock file at the instant the first message file has been
    written, i.e. between a writer's reset and its uidlist update, and removes
    it a few milliseconds later).  Every UID the server announces must be
    unique and denote the message it was announced for (C04; seeded C04-1).
    Returns {'fails': [...], 'transcript': [...]}."""
    import os
    from pymap.backend.maildir.mailbox import Maildir
    env = await _mk_env(True, mcfg).start()
    w = World(env, b'u1', b'pass', maildir=True)
    mon = Monitor()
    t = [0]

    def feed(op, ob):
        w.hist.append((op, ob))
        mon.step(t[0], op, ob)
        t[0] += 1

    async def do(op):
        ob = await w._do(op)
        feed(op, ob)
        return ob
    inbox_path = os.path.realpath(os.path.join(env.base, 'u1'))
    lock_path = os.path.join(inbox_path, 'dovecot-uidlist.lock')
    armed = [0]
    orig = Maildir.add

    def unlock():
        try:
            os.unlink(lock_path)
        except FileNotFoundError:
            pass

    def add(self, message):
        key = orig(self, message)
        if armed[0] > 0 and os.path.realpath(self._path) == inbox_path:
            armed[0] -= 1
            try:
                with open(lock_path, 'x'):
                    pass
            except FileExistsError:
                pass
        return key
    try:
        await do(('append', 0, 0, [(1, False, False)]))
        await do(('create', 0, 1))
        await do(('append', 0, 1, [(2, False, False), (3, False, False)]))
        await do(('select', 1, 1, False))
        await do(('fetch', 1))
        # every connection has resolved INBOX before (its MailboxSet caches the
        # MailboxData; a first resolution would wait for the lock earlier, in
        # UidList.with_init)
        await do(('status', 2, 0))
        await do(('status', 3, 0))
        await do(('status', 1, 0))
        if variant == 'append+append':
            jobs = [('append', 2, 0, [(10, False, False), (11, False, False)]),
                    ('append', 3, 0, [(12, False, False)])]
        elif variant == 'copy+append':
            jobs = [('copy', 1, None, 0), ('append', 3, 0, [(12, False, False)])]
        else:
            jobs = [('append', 2, 0, [(10, False, False), (11, False, False)]),
                    ('append', 3, 0, [(12, False, False)]),
                    ('copy', 1, None, 0)]
        Maildir.add = add
        armed[0] = 1
        done: list = []

        async def job(op):
            ob = await w._do(op)
            done.append((op, ob))
        # the first writer runs until it waits for the lock the outside agent
        # took right after its message file was written; then the others start
        # and wait too; then the agent lets go
        tasks = [asyncio.create_task(job(jobs[0]))]
        for _ in range(2000):
            if os.path.exists(lock_path) or tasks[0].done():
                break
            await asyncio.sleep(0)
        for op in jobs[1:]:
            tasks.append(asyncio.create_task(job(op)))
            for _ in range(50):
                await asyncio.sleep(0)
        await asyncio.sleep(0.003)
        unlock()
        await asyncio.wait_for(asyncio.gather(*tasks), 60)
        Maildir.add = orig
        unlock()
        for op, ob in done:
            feed(op, ob)
        await do(('select', 9, 0, False))
        await do(('fetch', 9))
        await do(('append', 0, 0, [(20, False, False)]))
        await do(('fetch', 9))
        await do(('status', 0, 0))
    finally:
        if Maildir.__dict__.get('add') is add:
            Maildir.add = orig
        unlock()
        await w.close_all()
        env.close()
    return {'fails': mon.fail, 'hist': w.hist, 'crashes': w.crashes}


def explain(prop: str, case: str, full: bool) -> str:
    from . import coqrun
    return coqrun.eval_term(prop, 'explain', HEADER,
                            f'explain_history {"true" if full else "false"} {case}')


def run_check(ctx, prop: str) -> None:
    """The body of ./check C04 and ./check C17."""
    from concurrent.futures import ProcessPoolExecutor
    from .pymap_env import run
    full = prop == 'C17'
    clauses = C17_CLAUSES if full else C04_CLAUSES
    profile = 'recent' if full else 'uid'
    ctx.check_proofs(['UidRecent/Check'])
    rng = ctx.rng
    specs = []
    nb = ctx.scale(9, 40)
    per = ctx.scale(20, 50)
    for _ in range(nb):
        specs.append({'kind': 'random', 'seed': rng.getrandbits(40), 'n': per, 'profile': profile})
    # the other profile too, at a quarter of the volume
    for _ in range(max(2, nb // 4)):
        specs.append({'kind': 'random', 'seed': rng.getrandbits(40), 'n': per,
                      'profile': 'uid' if full else 'recent'})
    # maildir, reduced volume
    # over its configurations: layout '++' / 'fs', default and non-default info delimiter
    mcfgs = [('++', None), ('++', '!'), ('fs', None), ('fs', '!')]
    for k in range(ctx.scale(4, 12)):
        specs.append({'kind': 'random', 'seed': rng.getrandbits(40), 'n': ctx.scale(6, 25),
                      'profile': profile, 'maildir': True, 'maxops': 16,
                      'mcfg': mcfgs[k % 4]})
    specs.append({'kind': 'fixed', 'hists': fixed_histories() + fixed_histories_dict()})
    for mc in mcfgs:
        hs = fixed_histories() + fixed_histories_maildir()
        if mc[0] == 'fs':
            hs = [h for h in hs if h[0] != 'hierarchy']
        specs.append({'kind': 'fixed', 'hists': hs, 'maildir': True, 'mcfg': mc})
    # every interleaving of small per-connection scripts
    names = sorted(recent_scripts())
    pairs = [(a, b) for i, a in enumerate(names) for b in names[i:]]
    triples_pool = ['rw', 'ro', 'app', 'app2', 'rw_logout', 'ro_app']
    lib0 = recent_scripts()
    nmsg = {k: sum(len(op[3]) for op in v if op[0] == 'append')
            for k, v in lib0.items()}
    triples = [(a, b, c) for i, a in enumerate(triples_pool)
               for j, b in enumerate(triples_pool[i:], i) for c in triples_pool[j:]
               if nmsg[a] + nmsg[b] + nmsg[c] <= 2]
    if ctx.quick:
        pairs = rng.sample(pairs, 14 if full else 6)
        small = [t for t in triples
                 if math.factorial(sum(len(lib0[x]) for x in t))
                 // math.prod(math.factorial(len(lib0[x])) for x in t) <= 90]
        triples = rng.sample(small, 3 if full else 1)
    else:
        triples = triples if full else rng.sample(triples, 30)
    for k in range(0, len(pairs), 4):
        specs.append({'kind': 'scripts', 'combos': pairs[k:k + 4]})
    lib = recent_scripts()
    for t in triples:
        ls = [len(lib[x]) for x in t]
        cnt = math.factorial(sum(ls)) // math.prod(math.factorial(x) for x in ls)
        parts = max(1, -(-cnt // 150))
        for k in range(parts):
            specs.append({'kind': 'scripts', 'combos': [t], 'part': (k, parts)})
    results: list[dict] = []
    with ProcessPoolExecutor(max_workers=12) as ex:
        for res in ex.map(run_batch, specs):
            results.extend(res)
    # ---- monitors, cases
    cases, keep = [], []
    kinds: dict[str, int] = {}
    nops = 0
    for r in results:
        lab = r['label'].split('/')[0] + ('-maildir' if not r['shared'] else '')
        kinds[lab] = kinds.get(lab, 0) + 1
        hist = r['hist']
        nops += len(hist)
        nontrivial = any(ob['k'] in ('append', 'copy') for _op, ob in hist)
        ctx.count((r['label'], repr(hist)), nontrivial=nontrivial)
        ctx.evaluations += r['checks']
        for clause, what, obs in r['fails']:
            if clause in clauses:
                ctx.failure(clause, what, {'hist': hist_json(hist), 'base': r['base'],
                                           'shared': r['shared'], 'label': r['label']}, obs)
        if r['error']:
            ctx.disagreement('driver', {'label': r['label'], 'error': r['error'],
                                        'hist': hist_json(hist)})
            continue
        if r['crashes']:
            ctx.extra.setdefault('server_crashes', []).append(
                {'label': r['label'], 'crash': r['crashes'][0]})
        cases.append(enc_case(r['base'], r['shared'], hist))
        keep.append(r)
    if keep:
        ctx.sample({'history': hist_json(keep[0]['hist'])[:8]})
        ctx.sample({'history': hist_json(keep[-1]['hist'])[:8]})
    chk = 'chk_history' if full else 'chk_history_uid'
    bad = ctx.run_cases('histories', HEADER, 'N * bool * list (op * out)', cases, chk, shard=120)
    for i in bad[:4]:
        r = keep[i]
        model = explain(ctx.prop, cases[i], full)
        ctx.disagreement('histories', {
            'label': r['label'], 'base': r['base'], 'shared': r['shared'],
            'hist': hist_json(r['hist']),
            'model_answers_up_to_first_mismatch': model[-1500:],
            'monitor_failures_any_clause': [f[:2] for f in r['fails']]})
    # ---- printing of uid sets (AppendUid / CopyUid), C04 only
    if not full:
        from pymap.parsing.specials.sequenceset import SequenceSet
        ucases = []
        for _ in range(ctx.scale(400, 4000)):
            l = [rng.randint(1, 40) for _ in range(rng.randint(1, 10))]
            if rng.random() < 0.5:
                l = sorted(set(l))
            ucases.append(T.pair(T.nlist(l), T.bytes_(bytes(SequenceSet.build(l)))))
            ctx.count(('uidset', tuple(l)))
        for i in ctx.run_cases('uidset', HEADER, 'list N * bytes', ucases, 'chk_uidset')[:3]:
            ctx.disagreement('uidset', {'case': ucases[i]})
    # ---- maildir writers contending for dovecot-uidlist.lock
    if not full:
        for variant, mc in (('append+append', ('++', None)), ('copy+append', ('++', '!')),
                            ('three', ('fs', None))):
            res = run(contended_maildir_scenario(variant, mc), timeout=120)
            ctx.count(('contended', variant))
            for clause, what, obs in res['fails']:
                if clause in clauses:
                    ctx.failure(clause, f'maildir, writers contending for the uidlist lock '
                                f'({variant}): ' + what,
                                {'scenario': 'contended_maildir_scenario', 'variant': variant,
                                 'hist': hist_json(res['hist'])}, obs)
    # ---- the open finding
    if not full:
        obs = run(stale_inbox_scenario(), timeout=60)
        if obs is not None:
            ctx.failure('stale_selection',
                        'after RENAME INBOX a connection that has INBOX selected is answered, '
                        'under the UIDVALIDITY it was given, with a message of the new INBOX',
                        {'scenario': 'stale_inbox_scenario'}, obs)
    ctx.extra['histories'] = kinds
    ctx.extra['operations'] = nops
    ctx.rule = ('a case is a history (list of abstract operations by numbered connections of one '
                'fresh user, executed as whole IMAP commands on the real server) with every answer; '
                'random histories: 3-22 operations, 1-3 connections, weights per profile '
                '(see harness/uidrecent.py gen_op), arguments mostly valid; scripts: every '
                'interleaving of 2-3 fixed per-connection scripts; each history ends with a probe '
                'connection that STATUSes, EXAMINEs, SELECTs and dumps every mailbox; '
                'non-trivial = at least one UID was assigned; distinct = by history')
    ctx.assumptions += [
        'a dict-backend command runs without suspending (whole commands are atomic); the '
        'correspondence would disagree otherwise',
        'CPython refcounting removes a dropped SelectedMailbox from the WeakSet at once '
        '(the driver calls gc.collect() after every closed connection)',
        'IDLE: the generator issues no CREATE/RENAME/DELETE while a connection idles (the idler '
        'resolved its mailbox before it went to sleep); maildir IDLE (1 s poll) is not driven',
        'names: INBOX, three top-level names and one inferior of each; a RENAME that would move '
        'an inferior below an inferior name is not generated',
        'maildir external delivery: one dropped file at a time, adopted by the STATUS that '
        'follows (the listing order of several unknown files is not modelled)',
    ]


def replay_history(ctx, obj) -> int:
    from .pymap_env import run
    if obj.get('scenario') == 'contended_maildir_scenario':
        res = run(contended_maildir_scenario(obj['variant']), timeout=120)
        for t, (op, ob) in enumerate(res['hist']):
            print(t, op, '->', ob)
        print('monitor:', res['fails'])
        return 1 if res['fails'] else 0
    if obj.get('scenario') == 'stale_inbox_scenario':
        print(run(stale_inbox_scenario(), timeout=60))
        return 0
    ops = [tuple(tuple(y) if isinstance(y, list) and y and not isinstance(y[0], list) else y
                 for y in op) for op, _ob in obj['hist']]

    def fix(op):
        op = list(op)
        if op[0] == 'append':
            op[3] = [tuple(m) for m in op[3]]
        if op[0] in ('expunge', 'copy', 'move', 'store') and isinstance(op[2], tuple):
            op[2] = list(op[2])
        return tuple(op)
    ops = [fix(op) for op in ops]
    res = run_batch({'kind': 'fixed', 'hists': [('replay', ops)],
                     'maildir': not obj.get('shared', True)})[0]
    for t, (op, ob) in enumerate(res['hist']):
        print(t, op, '->', ob)
    print('monitor:', res['fails'], 'error:', res['error'])
    case = enc_case(res['base'], res['shared'], res['hist'])
    print('model:', explain(ctx.prop, case, ctx.prop == 'C17')[-1200:])
    return 1 if res['fails'] else 0
