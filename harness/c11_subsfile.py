"""C11 helper - the maildir `subscriptions` file and the names that some
Python string function treats specially.

Model: coq/theories/Namespace/SubsFile.v (write_file / read_file: UTF-8,
universal newlines, line iteration, rstrip('\\r\\n'), dict insertion), theorems
in SubsFileProofs.v / Props/C11.v (`subscriptions_file_roundtrip`,
`subscriptions_model_is_the_file`).

Two things live here:

* `sec_subsfile(ctx, jobs)`: the real `Subscriptions` object of
  pymap/backend/maildir/subscriptions.py on real files against the byte-level
  model - what `file_write` writes, what `file_read` reads back from it, what
  `file_read` makes of hand-written files (LF / CRLF / CR line ends, blank
  lines, no final newline, ill-formed UTF-8) - for name sets drawn from
  `SPECIAL` (every code point CPython's str.splitlines / str.isspace single
  out, case-folding and NFKC oddities, delimiter look-alikes, code points
  whose encodings contain 0x0a / 0x0d / 0x2e / 0x2f octets, the edges of the
  surrogate gap and of the code space).  Monitor, written against the
  property and not against the model: a set of names without CR / LF that is
  written is read back as exactly that set, in order.
* `exotic_programs` / `exotic_ops`: the same names as arguments of the
  namespace commands through the IMAP server (fixed programs on every tier +
  a branch of the random generator), judged by C11's model and monitor.
"""
from __future__ import annotations

import os
import shutil
import tempfile
import unicodedata

from . import coqterm as T

HEADER = ('From PV Require Import Base.Prelude MaildirFS.UidList Namespace.SubsFile '
          'Namespace.SubsFileCheck.\n')


# =====================================================================
# the code points
# =====================================================================
def _cpython_tables():
    """what CPython itself singles out: line boundaries of str.splitlines,
    str.isspace, characters whose upper()/lower()/casefold() changes length
    or leaves the BMP letter it came from in an unexpected place"""
    brk, space = [], []
    for c in range(0x110000):
        if 0xd800 <= c < 0xe000:
            continue
        ch = chr(c)
        if len(('a' + ch + 'b').splitlines()) > 1:
            brk.append(ch)
        if ch.isspace():
            space.append(ch)
    return brk, space


LINE_BREAKS, SPACES = _cpython_tables()          # 10 and 25 characters on CPython 3.12

def _cps(*cps):
    return [''.join(chr(c) for c in (x if isinstance(x, tuple) else (x,))) for x in cps]


# sharp s (both), dotless i, dotted I, Kelvin sign, long s, Dz digraph, 'n, iota with dialytika
# and tonos, Sigma / final sigma, fi and st ligatures, j caron
CASE = _cps(0xdf, 0x1e9e, 0x131, 0x130, 0x212a, 0x17f, 0x1c5, 0x149, 0x390, 0x3a3, 0x3c2, 0xfb01,
            0xfb06, 0x1f0)
# not stable under NFC / NFKC: ligature, circled digit, Angstrom, Ohm, half-width katakana,
# e-acute composed and decomposed, long s with dots, square kg, half-width voiced mark,
# combining ypogegrammeni, feminine ordinal, full-width digit and letter, no-break space, micro
NFKC = _cps(0xfb01, 0x2460, 0x212b, 0x2126, 0xff76, 0xe9, (0x65, 0x301), (0x1e9b, 0x323), 0x338f,
            0xff9e, 0x345, 0xaa, 0xff12, 0xff21, 0xa0, 0xb5)
# look-alikes of / . \ * % & (division slash, fraction slash, full-width forms, one dot leader,
# ideographic full stop, big solidus, box diagonal, small percent, middle dot, Armenian full stop)
LOOKALIKE = _cps(0x2215, 0x2044, 0xff0f, 0xff0e, 0x3002, 0x2024, 0xff3c, 0x29f8, 0x2571, 0xff0a,
                 0xff05, 0xfe6a, 0xff06, 0xb7, 0x589)
# UTF-16 / UTF-32 / Latin-1 forms contain 0x0a 0x0d 0x2e 0x2f 0x00; C1 controls; BOM; replacement
# character and non-characters; the edges of the surrogate gap, of the planes and of the code
# space; format characters (ZWSP, ZWJ, LRM, RLO, WJ, ALM, soft hyphen, tag); C0 controls and DEL
ENCODING = _cps(0x10a, 0xa0d, 0xd0a, 0x2f2e, 0x2e2f, 0x12f, 0x2f00, 0xa00, 0x100, 0xe9, 0xad, 0xff,
                0x80, 0x9f, 0x7ff, 0x800, 0xfeff, 0xfffd, 0xfffe, 0xffff, 0xd7ff, 0xe000, 0x10000,
                0x1f600, 0xe0001, 0x10ffff, 0x200b, 0x200d, 0x200e, 0x202e, 0x2060, 0x61c,
                0x7f, 0x00, 0x1f, 0x1b)
STRUCT = ['\n', '\r', '\r\n', '\n\r']              # the only structure of the file format
SURR = ['\ud800', '\udfff', '\udc80', '\udcff']    # cannot be encoded: write raises

def _guard_passes(ch: str) -> bool:
    return not any(ord(c) < 32 or ord(c) == 127 for c in ch)


# those that the maildir name guard lets through come first (they reach the file through IMAP)
SPECIAL = sorted(set(LINE_BREAKS + SPACES + CASE + NFKC + LOOKALIKE + ENCODING) - {'\n', '\r'},
                 key=lambda ch: (not _guard_passes(ch), ch))

BASES = ['a', 'ab', 'Notes', 'x y', '\u00e9', 'INBOX', 'a/b', 'Sent', '\u65e5\u672c', 'q']


def special_name(rng, base=None) -> str:
    """a base name with one or two special characters at the start, inside or
    at the end"""
    s = base if base is not None else rng.choice(BASES)
    for _ in range(rng.choice([1, 1, 1, 2])):
        ch = rng.choice(SPECIAL)
        k = rng.choice([0, len(s), rng.randint(0, len(s))])
        s = s[:k] + ch + s[k:]
    return s


def md_ok(layout: str, n: str) -> bool:
    """may a maildir store hold this name (statement of the guard, as in C11)"""
    from .props.C11 import md_valid_name
    return md_valid_name(layout, n)


# =====================================================================
# the real Subscriptions object on real files
# =====================================================================
class Store:
    def __init__(self):
        self.dir = tempfile.mkdtemp(prefix='pymapverif-c11-subs-')

    def close(self):
        shutil.rmtree(self.dir, ignore_errors=True)

    def fresh(self) -> str:
        p = os.path.join(self.dir, 'subscriptions')
        for f in os.listdir(self.dir):
            os.unlink(os.path.join(self.dir, f))
        return p

    def write(self, names):
        """-> bytes of the file written by Subscriptions.file_write, None for
        UnicodeEncodeError"""
        from pymap.backend.maildir.subscriptions import Subscriptions
        p = self.fresh()
        subs = Subscriptions(self.dir)
        for n in names:
            subs.add(n)
        try:
            subs.file_write()
        except UnicodeEncodeError:
            return None
        with open(p, 'rb') as f:
            return f.read()

    def read(self, data: bytes | None):
        """-> names Subscriptions.file_read finds in a file holding `data`
        (None: the file as it is), None for UnicodeDecodeError"""
        from pymap.backend.maildir.subscriptions import Subscriptions
        if data is not None:
            with open(self.fresh(), 'wb') as f:
                f.write(data)
        try:
            return list(Subscriptions.file_read(self.dir).subscribed)
        except UnicodeDecodeError:
            return None

    def trip(self, names):
        if self.write(names) is None:
            return None
        return self.read(None)


def enc_names(names) -> str:
    return T.lst(T.codepoints(n) for n in names) if names else '(@nil (list N))'


def enc_opt(x) -> str:
    return 'None' if x is None else f'(Some {x})'


def carriable(n: str) -> bool:
    return not any(c in '\r\n' or 0xd800 <= ord(c) < 0xe000 for c in n)


def gen_name_sets(ctx) -> list:
    rng = ctx.rng
    sets = []
    # sweep (every tier): every special character at the start, in the middle and at the
    # end of a name, alone and next to an ordinary name
    for ch in SPECIAL:
        sets.append(['a' + ch + 'b'])
        sets.append([ch + 'ab', 'ab' + ch, 'ab'])
    sets.append([ch for ch in SPECIAL])
    sets.append(['Notes\u2028Old', 'Memo\u00852024', 'Plain'])
    for s in STRUCT:
        sets.append(['a' + s + 'b', 'c'])
        sets.append([s, 'x' + s])
    for s in SURR:
        sets.append(['a' + s])
    sets += [[], [''], ['', 'a'], ['a', 'a'], ['a ', ' a', 'a'], ['a\t', '\ta'], ['a', 'b', 'a', 'c', 'b']]
    # random sets
    for _ in range(ctx.scale(100, 1500)):
        k = rng.choice([1, 1, 2, 3, 5])
        names = []
        for _ in range(k):
            r = rng.random()
            if r < 0.7:
                names.append(special_name(rng))
            elif r < 0.8:
                names.append(rng.choice(BASES))
            elif r < 0.9 and names:
                names.append(rng.choice(names))
            elif r < 0.95:
                names.append(special_name(rng) + rng.choice(STRUCT) + rng.choice(BASES + ['']))
            else:
                names.append(rng.choice(BASES) + rng.choice(SURR))
        sets.append(names)
    return sets


EOLS = ['\n', '\r\n', '\r', '\n', '\r\n', '', '\n\n', '\r\r\n', '\r\n\r\n']


def gen_files(ctx) -> list:
    """hand-written / foreign subscriptions files"""
    rng = ctx.rng
    files = [b'', b'a', b'a\n', b'a\r\n', b'a\r', b'a\n\nb\n', b'a\r\rb', b'\n', b'\r\n\r\n', b' a \n',
             b'a\nb', b'a\x0bb\n', b'a\x0cb\n', b'a\x1cb\x1db\x1eb\n', b'a\xc2\x85b\n',
             b'a\xe2\x80\xa8b\r\nc\xe2\x80\xa9d\r\n', b'\xef\xbb\xbfa\n', b'a\xc2\xa0\n\xc2\xa0b\n',
             b'a\xff\n', b'a\xc0\x8a\n', b'a\xed\xa0\x80\n', b'\xf4\x90\x80\x80', b'a\xe2\x80', b'\xc2',
             b'a\x00b\n', b'a\n' * 3]
    for _ in range(ctx.scale(100, 1500)):
        out = []
        for _ in range(rng.randint(0, 5)):
            r = rng.random()
            if r < 0.7:
                out.append(special_name(rng).encode('utf-8'))
            elif r < 0.9:
                out.append(rng.choice(BASES).encode('utf-8'))
            else:   # possibly ill-formed UTF-8
                out.append(bytes(rng.choice([0x61, 0x80, 0xbf, 0xc0, 0xc2, 0xe0, 0xe2, 0xed, 0xa0, 0xf0,
                                             0xf4, 0x8f, 0x90, 0xff, 0x0a])
                                 for _ in range(rng.randint(1, 4))))
            out.append(rng.choice(EOLS).encode())
        files.append(b''.join(out))
    return files


def sec_subsfile(ctx, jobs) -> None:
    st = Store()
    ctx.extra['special_code_points'] = {
        'line_breaks': [hex(ord(c)) for c in LINE_BREAKS], 'spaces': [hex(ord(c)) for c in SPACES],
        'total': len(SPECIAL)}
    try:
        sets = gen_name_sets(ctx)
        wcases, tcases = [], []
        reported = [0, 0]       # the monitor reports a few witnesses per family, not hundreds
        for names in sets:
            data = st.write(names)
            got = None if data is None else st.read(None)
            safe = all(carriable(n) for n in names)
            ctx.count(('subs_trip', tuple(names)), nontrivial=bool(names))
            # monitor: the subscribed names that were written are the subscribed names read
            want = list(dict.fromkeys(names))
            if safe and got != want and reported[0] < 4:
                reported[0] += 1
                ctx.failure('lsub_exact',
                            f'maildir subscriptions file: the names {ascii(want)} were written, '
                            f'{ascii(got)} are read back (file: {data!r})',
                            {'subscriptions_names': names},
                            {'kind': 'subscriptions_file', 'backend': 'maildir'})
            wcases.append(T.pair(enc_names(names), enc_opt(None if data is None else T.bytes_(data))))
            tcases.append(T.pair(enc_names(names), enc_opt(None if got is None else enc_names(got))))
        jobs.add('subs_write', HEADER, 'list (list N) * option bytes', wcases, 'chk_subs_write',
                 lambda i: ctx.disagreement('subs_write', {'names': sets[i], 'file': repr(st_write(sets[i]))}),
                 shard=120)
        jobs.add('subs_roundtrip', HEADER, 'list (list N) * option (list (list N))', tcases,
                 'chk_subs_trip',
                 lambda i: ctx.disagreement('subs_roundtrip', {'names': sets[i],
                                                               'read_back': st_trip(sets[i])}), shard=120)
        files = gen_files(ctx)
        rcases, ucases = [], []
        for data in files:
            got = st.read(data)
            ctx.count(('subs_read', data), nontrivial=bool(got))
            rcases.append(T.pair(T.bytes_(data), enc_opt(None if got is None else enc_names(got))))
            try:
                dec = data.decode('utf-8')
            except UnicodeDecodeError:
                dec = None
            ucases.append(T.pair(T.bytes_(data), enc_opt(None if dec is None else T.codepoints(dec))))
            # monitor: a file of LF/CRLF-terminated well-formed lines holds those lines
            if dec is not None and '\r' not in dec.replace('\r\n', ''):
                want = dec.replace('\r\n', '\n').split('\n')
                if want and want[-1] == '':
                    want.pop()
                want = list(dict.fromkeys(want))
                if got != want and reported[1] < 3:
                    reported[1] += 1
                    ctx.failure('lsub_exact', f'maildir subscriptions file {data!r} holds the lines '
                                f'{ascii(want)}, {ascii(got)} are read', {'subscriptions_file': data.hex()},
                                {'kind': 'subscriptions_file', 'backend': 'maildir'})
        jobs.add('subs_read', HEADER, 'bytes * option (list (list N))', rcases, 'chk_subs_read',
                 lambda i: ctx.disagreement('subs_read', {'file': repr(files[i]),
                                                          'read': st_read(files[i])}), shard=120)
        jobs.add('subs_utf8', HEADER, 'bytes * option (list N)', ucases, 'chk_utf8',
                 lambda i: ctx.disagreement('subs_utf8', {'bytes': repr(files[i])}), shard=120)
        ctx.sample({'subscriptions_set': repr(sets[len(SPECIAL)])})
    finally:
        st.close()


def _with_store(f):
    def g(x):
        st = Store()
        try:
            return f(st, x)
        finally:
            st.close()
    return g


st_write = _with_store(lambda st, names: st.write(names))
st_trip = _with_store(lambda st, names: st.trip(names))
st_read = _with_store(lambda st, data: st.read(data))


def replay(obj) -> int:
    """replay of a `subscriptions_file` failure on the tree under test"""
    if 'subscriptions_names' in obj:
        names = obj['subscriptions_names']
        data, got = st_write(names), st_trip(names)
        want = list(dict.fromkeys(names))
        print('written', ascii(names), '->', data, '\nread back', ascii(got), '\nexpected ', ascii(want))
        return 0 if got == want or not all(carriable(n) for n in names) else 1
    data = bytes.fromhex(obj['subscriptions_file'])
    print('file', data, '\nread', ascii(st_read(data)))
    return 0


# =====================================================================
# the same names through the IMAP server
# =====================================================================
# a fixed selection (every tier): one of each family
FIXED_EXOTIC = ['Notes\u2028Old', 'Memo\x852024', 'Par\u2029a', 'nb\xa0sp', '\u3000wide',
                'thin\u2009', 'Stra\xdfe', 'd\u0131\u015f', '\u212aelvin', '\ufb01le', '\xe9',
                'e\u0301', 'a\u2215b', 'a\uff0fb', 'a\uff0eb', '\ufeffbom', 'zw\u200bsp',
                '\u010a\u0a0d', '\u2f2e', 'x\x0by', 'x\x0cy', 'x\x1cy', 'x\x1ey', 'x\x85',
                '\U0010ffff', '\ud7ff\ue000']


def exotic_programs(backend: str) -> list:
    """SUBSCRIBE / LSUB (this session and a second one) / UNSUBSCRIBE, CREATE /
    LIST / RENAME / STATUS / DELETE with names holding special characters"""
    S = [('lsub', '', '*'), ('lsub2', '', '*')]
    L = [('list', '', '*')]
    progs = []
    for chunk in (FIXED_EXOTIC[0:9], FIXED_EXOTIC[9:18], FIXED_EXOTIC[18:]):
        prog = []
        for n in chunk:
            prog += [('create', n), ('subscribe', n)] + S
        prog += L
        for i, n in enumerate(chunk):
            if i % 3 == 0:
                prog += [('unsubscribe', n)] + S
            elif i % 3 == 1:
                m = chunk[(i + 1) % len(chunk)] + '2'
                prog += [('rename', n, m)] + L + [('status', m), ('status', n)]
            else:
                prog += [('append', n), ('status', n), ('delete', n)] + L + S
        # names that differ only by a compatibility / case mapping are different names
        prog += [('create', '\u00e9'), ('create', 'e\u0301'), ('create', 'STRASSE'),
                 ('create', 'stra\u00dfe'), ('create', 'file'), ('subscribe', 'file'),
                 ('unsubscribe', '\ufb01le')] + L + S
        progs.append(prog)
    return progs


def exotic_ops(rng, backend: str, existing) -> list:
    """one step of the random generator: a command with a special name"""
    n = special_name(rng, rng.choice(existing) if existing and rng.random() < 0.3 else None)
    r = rng.random()
    if r < 0.45:
        ops = [('create', n), ('subscribe', n)]
        if rng.random() < 0.5:
            ops.append(('unsubscribe', special_name(rng)) if rng.random() < 0.3 else ('unsubscribe', n))
    elif r < 0.65:
        ops = [('subscribe', n)]
    elif r < 0.85:
        src = rng.choice(existing) if existing else 'a'
        ops = [('create', src), ('rename', src, n), ('status', n)]
    else:
        ops = [('create', n), ('append', n), ('status', n), ('delete', n)]
    return ops + [('list', '', '*'), ('lsub', '', '*'), ('lsub2', '', '*')]
