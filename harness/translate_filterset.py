"""Fail-closed translator  pymap/backend/dict/filter.py  ->  Gallina.

Regenerates coq/theories/Sieve/FilterSetGen.v from the *current* source of the
dict backend's FilterSet (a ~57 line class over one dict and one optional
name) so that Sieve/FilterSetAgree.v re-proves, on every run, that the
hand-written model Sieve/FilterSet.v says what the code says now.

Only the constructs listed here are understood; anything else raises
TranslateError (the check reports it as a broken obligation).  Target
vocabulary: Sieve/PyDict.v.  Typing is by the parameter annotations
(str -> key, bytes -> bytes) and the two attributes
(self._filters : dict, self._active : str | None).
"""
from __future__ import annotations

import ast
import os

FIELDS = {'_filters': 'dict', '_active': 'optkey'}
ANNOT = {'str': 'key', 'bytes': 'bytes'}
EXCS = ('KeyError', 'ValueError')


class TranslateError(Exception):
    pass


def _fail(node, why: str):
    raise TranslateError(f'filter.py line {getattr(node, "lineno", "?")}: {why}: '
                         f'{ast.dump(node)[:160]}')


def _is_self_attr(n, name=None) -> bool:
    return (isinstance(n, ast.Attribute) and isinstance(n.value, ast.Name)
            and n.value.id == 'self' and n.attr in FIELDS
            and (name is None or n.attr == name))


class Method:
    def __init__(self, fn: ast.AsyncFunctionDef) -> None:
        if fn.decorator_list or fn.args.vararg or fn.args.kwarg or fn.args.defaults \
                or fn.args.kwonlyargs or fn.args.posonlyargs:
            _fail(fn, 'unsupported signature')
        args = fn.args.args
        if not args or args[0].arg != 'self':
            _fail(fn, 'first parameter must be self')
        self.name = fn.name
        self.params: dict[str, str] = {}
        for a in args[1:]:
            if not isinstance(a.annotation, ast.Name) or a.annotation.id not in ANNOT:
                _fail(fn, f'parameter {a.arg} needs annotation str or bytes')
            self.params[a.arg] = ANNOT[a.annotation.id]
        self.signature = dict(self.params)      # locals are added to params while translating
        self.fresh = 0
        self.body = self.block(list(fn.body))

    # ------------------------------------------------------------ expressions
    def expr(self, n, k) -> str:
        """CPS: k(term, type) builds the rest; a failing subscript raises."""
        if isinstance(n, ast.Name) and n.id in self.params:
            return k(n.id, self.params[n.id])
        if isinstance(n, ast.Constant) and n.value is None:
            return k('None', 'none')
        if _is_self_attr(n):
            return k(f'(fs_{n.attr[1:]} self)', FIELDS[n.attr])
        if isinstance(n, ast.Subscript) and _is_self_attr(n.value, '_filters') \
                and isinstance(n.ctx, ast.Load):
            def with_key(kt, ty):
                self.fresh += 1
                v = f'v{self.fresh}'
                return (f'match dict_get_opt (fs_filters self) {self.optkey(n, kt, ty)} with\n'
                        f'  | Some {v} => {k(v, "bytes")}\n'
                        f'  | None => Raise self (KeyError {self.optkey(n, kt, ty)})\n  end')
            return self.expr(n.slice, with_key)
        if isinstance(n, ast.Compare) and len(n.ops) == 1:
            op, left, right = n.ops[0], n.left, n.comparators[0]
            if isinstance(op, (ast.In, ast.NotIn)):
                if not _is_self_attr(right, '_filters'):
                    _fail(n, 'membership test must be on self._filters')
                def with_l(lt, ty):
                    if ty != 'key':
                        _fail(n, 'membership test of a non-str')
                    t = f'(dict_in (fs_filters self) {lt})'
                    return k(t if isinstance(op, ast.In) else f'(negb {t})', 'bool')
                return self.expr(left, with_l)
            if isinstance(op, (ast.Eq, ast.NotEq)):
                def with_l(lt, lty):
                    def with_r(rt, rty):
                        t = f'(optkey_eqb {self.optkey(n, lt, lty)} {self.optkey(n, rt, rty)})'
                        return k(t if isinstance(op, ast.Eq) else f'(negb {t})', 'bool')
                    return self.expr(right, with_r)
                return self.expr(left, with_l)
            if isinstance(op, (ast.Is, ast.IsNot)):
                if not (isinstance(right, ast.Constant) and right.value is None):
                    _fail(n, 'only "is None" is supported')
                def with_l(lt, ty):
                    t = f'(is_none {self.optkey(n, lt, ty)})'
                    return k(t if isinstance(op, ast.Is) else f'(negb {t})', 'bool')
                return self.expr(left, with_l)
        if isinstance(n, ast.Call) and isinstance(n.func, ast.Name) and n.func.id == 'list' \
                and len(n.args) == 1 and not n.keywords:
            c = n.args[0]
            if isinstance(c, ast.Call) and isinstance(c.func, ast.Attribute) \
                    and c.func.attr == 'keys' and _is_self_attr(c.func.value, '_filters') \
                    and not c.args and not c.keywords:
                return k('(dict_keys (fs_filters self))', 'keylist')
        _fail(n, 'unsupported expression')

    def optkey(self, n, t, ty) -> str:
        if ty == 'key':
            return f'(Some {t})'
        if ty in ('optkey', 'none'):
            return t
        _fail(n, f'a value of type {ty} is used where str | None is expected')

    # ------------------------------------------------------------- statements
    def block(self, stmts) -> str:
        """stmts = this block followed by everything that runs after it;
        what follows a raise/return is unreachable and dropped."""
        if not stmts:
            return 'Ret self VNone'
        s, rest = stmts[0], stmts[1:]
        if isinstance(s, ast.Pass) or (isinstance(s, ast.Expr) and isinstance(s.value, ast.Constant)
                                        and isinstance(s.value.value, str)):
            return self.block(rest)
        if isinstance(s, (ast.Assign, ast.AnnAssign)):
            tgt = s.targets[0] if isinstance(s, ast.Assign) and len(s.targets) == 1 \
                else getattr(s, 'target', None)
            if s.value is None or tgt is None:
                _fail(s, 'unsupported assignment')
            if isinstance(tgt, ast.Subscript) and _is_self_attr(tgt.value, '_filters'):
                def with_v(vt, vty):
                    if vty != 'bytes':
                        _fail(s, 'dict value must be bytes')
                    def with_k(kt, kty):
                        if kty != 'key':
                            _fail(s, 'dict key must be str')
                        return (f'let self := set_filters self (dict_set (fs_filters self) {kt} {vt}) in\n'
                                + self.block(rest))
                    return self.expr(tgt.slice, with_k)
                return self.expr(s.value, with_v)
            if isinstance(tgt, ast.Name) and tgt.id != 'self':      # a local variable
                def with_local(vt, vty):
                    if vty not in ('key', 'bytes', 'optkey', 'none'):
                        _fail(s, 'unsupported local variable type')
                    self.params[tgt.id] = vty
                    return f'let {tgt.id} := {vt} in\n' + self.block(rest)
                return self.expr(s.value, with_local)
            if _is_self_attr(tgt, '_active'):
                return self.expr(s.value, lambda vt, vty:
                                 f'let self := set_active self {self.optkey(s, vt, vty)} in\n'
                                 + self.block(rest))
            _fail(s, 'assignment target must be self._filters[..] or self._active')
        if isinstance(s, ast.Delete) and len(s.targets) == 1:
            t = s.targets[0]
            if isinstance(t, ast.Subscript) and _is_self_attr(t.value, '_filters'):
                def with_k(kt, kty):
                    if kty != 'key':
                        _fail(s, 'dict key must be str')
                    return (f'if dict_in (fs_filters self) {kt}\n'
                            f'then let self := set_filters self (dict_del (fs_filters self) {kt}) in\n'
                            f'{self.block(rest)}\nelse Raise self (KeyError (Some {kt}))')
                return self.expr(t.slice, with_k)
            _fail(s, 'del target must be self._filters[..]')
        if isinstance(s, ast.If):
            def with_t(tt, tty):
                if tty != 'bool':
                    _fail(s, 'condition must be a comparison')
                return (f'if {tt}\nthen ({self.block(list(s.body) + rest)})\n'
                        f'else ({self.block(list(s.orelse) + rest)})')
            return self.expr(s.test, with_t)
        if isinstance(s, ast.Raise):
            e = s.exc
            if s.cause is None and isinstance(e, ast.Call) and isinstance(e.func, ast.Name) \
                    and e.func.id in EXCS and len(e.args) == 1 and not e.keywords:
                return self.expr(e.args[0], lambda at, aty:
                                 f'Raise self ({e.func.id} {self.optkey(s, at, aty)})')
            _fail(s, 'only raise KeyError(x) / ValueError(x)')
        if isinstance(s, ast.Return):
            if s.value is None:
                return 'Ret self VNone'
            if isinstance(s.value, ast.Tuple) and len(s.value.elts) == 2:
                a, b = s.value.elts
                def with_a(at, aty):
                    def with_b(bt, bty):
                        if bty != 'keylist':
                            _fail(s, 'second tuple component must be list(self._filters.keys())')
                        return f'Ret self (VAll {self.optkey(s, at, aty)} {bt})'
                    return self.expr(b, with_b)
                return self.expr(a, with_a)
            def with_v(vt, vty):
                if vty == 'bytes':
                    return f'Ret self (VBytes {vt})'
                if vty == 'none':
                    return 'Ret self VNone'
                _fail(s, f'cannot return a value of type {vty}')
            return self.expr(s.value, with_v)
        _fail(s, 'unsupported statement')

    def gallina(self) -> str:
        ps = ''.join(f' ({p} : {t})' for p, t in self.signature.items())
        return f'Definition gen_{self.name} (self : fstate){ps} : outcome :=\n{self.body}.\n'


def _init(fn: ast.FunctionDef) -> str:
    """__init__ must set exactly  self._filters = {}  and  self._active = None."""
    seen = {}
    for s in fn.body:
        if isinstance(s, ast.Expr) and isinstance(s.value, ast.Call) \
                and isinstance(s.value.func, ast.Attribute) and s.value.func.attr == '__init__' \
                and isinstance(s.value.func.value, ast.Call) \
                and getattr(s.value.func.value.func, 'id', None) == 'super':
            continue
        tgt = s.target if isinstance(s, ast.AnnAssign) else \
            (s.targets[0] if isinstance(s, ast.Assign) and len(s.targets) == 1 else None)
        if tgt is None or not _is_self_attr(tgt) or s.value is None:
            _fail(s, 'unsupported statement in __init__')
        if tgt.attr == '_filters' and isinstance(s.value, ast.Dict) and not s.value.keys:
            seen['_filters'] = '[]'
        elif tgt.attr == '_active' and isinstance(s.value, ast.Constant) and s.value.value is None:
            seen['_active'] = 'None'
        else:
            _fail(s, 'unsupported initial value')
    if set(seen) != set(FIELDS):
        _fail(fn, '__init__ must initialise _filters and _active')
    return f'Definition gen_init : fstate := mk_fstate {seen["_filters"]} {seen["_active"]}.\n'


def translate(src: str) -> str:
    tree = ast.parse(src)
    cls = None
    for n in tree.body:
        if isinstance(n, (ast.Import, ast.ImportFrom)):
            continue
        if isinstance(n, ast.Assign) and getattr(n.targets[0], 'id', '') == '__all__':
            continue
        if isinstance(n, ast.Expr) and isinstance(n.value, ast.Constant):
            continue
        if isinstance(n, ast.ClassDef) and n.name == 'FilterSet' and cls is None \
                and not n.decorator_list and not n.keywords:
            cls = n
            continue
        _fail(n, 'unsupported module-level statement')
    if cls is None:
        raise TranslateError('class FilterSet not found')
    out = ['(* GENERATED by harness/translate_filterset.py from pymap/backend/dict/filter.py.',
           '   Do not edit: rewritten by ./check C19 whenever the source changes. *)',
           'From PV Require Import Base.Prelude Sieve.PyDict.', '']
    for n in cls.body:
        if isinstance(n, ast.Expr) and isinstance(n.value, ast.Constant):
            continue
        if isinstance(n, ast.FunctionDef) and n.name == '__init__':
            out.append(_init(n))
        elif isinstance(n, ast.AsyncFunctionDef) and not n.name.startswith('__'):
            out.append(Method(n).gallina())
        else:
            _fail(n, 'unsupported class member')
    return '\n'.join(out)


def regenerate(repo: str, coq_dir: str) -> tuple[bool, str]:
    """Returns (ok, message); writes Sieve/FilterSetGen.v only when it changes."""
    src_path = os.path.join(repo, 'pymap', 'backend', 'dict', 'filter.py')
    out_path = os.path.join(coq_dir, 'theories', 'Sieve', 'FilterSetGen.v')
    try:
        text = translate(open(src_path).read())
    except (TranslateError, SyntaxError, OSError) as exc:
        return False, f'translator refused {src_path}: {exc}'
    old = open(out_path).read() if os.path.exists(out_path) else None
    if old != text:
        with open(out_path, 'w') as f:
            f.write(text)
        return True, 'regenerated'
    return True, 'unchanged'


if __name__ == '__main__':
    import sys
    print(translate(open(sys.argv[1]).read()))
