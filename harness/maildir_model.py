"""Builds the Gallina terms of the MaildirFS case files (Check.v) from the
results of harness.maildirfs.crash_experiment, and generates histories.
Shared by harness/props/C14.py and C15.py."""
from __future__ import annotations

import re

from . import coqterm as T
from . import maildirfs as M

HEADER = ('From PV Require Import Base.Prelude MaildirFS.FS MaildirFS.UidList '
          'MaildirFS.Ops MaildirFS.Check.\n')

XHEADER = ('From PV Require Import Base.Prelude MaildirFS.FS MaildirFS.UidList '
           'MaildirFS.Ops MaildirFS.Check MaildirFS.Delete MaildirFS.DeleteCheck.\n')

LAYOUT = {'++': 'LPlus', 'fs': 'LFs'}


def b(s) -> str:
    return T.bytes_(s if isinstance(s, bytes) else s.encode())


def fname(parts) -> str:
    return M.enc_fname(parts)


def _pad(lst, n, fill=b''):
    return list(lst) + [fill] * max(0, n - len(lst))


def cmd_term(c, events, pm: M.PathMap) -> str:
    """History element + its observed events -> Ops.cmd term; the names the
    backend drew are read off the trace."""
    sp = [(e, pm.split(e[1])) for e in events]
    tmps = [s[2].encode() for e, s in sp if e[0] == 'creat' and s and s[0] == 'tmp']
    keys = [s[3].encode() for e, s in sp
            if e[0] == 'creat' and s and s[0] == 'msg' and s[2] == 'tmp']
    texts = [bytes.fromhex(e[2]) for e, s in sp
             if e[0] == 'write' and s and s[0] == 'tmp' and e[2] is not None]
    k = c[0]
    if k in ('select', 'examine'):
        order = []
        for e, s in sp:
            if e[0] == 'rename' and s and s[0] == 'msg' and s[2] == 'new':
                d = pm.split(e[2])
                if d and d[0] == 'msg' and d[2] == 'cur':
                    order.append(s[3].encode())
        return (f'CSelect {fname(c[1])} {T.boolean(k == "examine")} '
                f'{T.lst(b(x) for x in order)}')
    if k == 'append':
        n = len(c[2])
        keys, tmps, texts = _pad(keys, n), _pad(tmps, n), _pad(texts, n)
        msgs = []
        for i, (fl, cid) in enumerate(c[2]):
            last = texts[i].rstrip(b'\r\n').split(b'\n')[-1] if texts[i] else b''
            e = re.search(rb' E(\S+)', last)
            t = re.search(rb' T(\S+)', last)
            msgs.append('{| a_flags := %s; a_cid := %s; a_key := %s; a_tmp := %s; '
                        'a_e := %s; a_t := %s |}'
                        % (b(fl), T.N(cid), b(keys[i]), b(tmps[i]),
                           b(e.group(1) if e else b''), b(t.group(1) if t else b'')))
        return f'CAppend {fname(c[1])} {T.lst(msgs)}'
    if k == 'store':
        mode = {'+': 'MAdd', '-': 'MDel', '=': 'MSet'}[c[2]]
        return f'CStore {T.nlist(c[1])} {mode} {b(c[3])}'
    if k == 'copy':
        names = T.lst(f'({b(x)}, {b(y)})' for x, y in zip(keys, _pad(tmps, len(keys))))
        return f'CCopy {T.nlist(c[1])} {fname(c[2])} {names}'
    if k == 'move':
        if keys:        # destination = source: copy + delete, a new key per message
            tmps = [x for pair in zip(keys, _pad(tmps, len(keys))) for x in pair]
        return f'CMove {T.nlist(c[1])} {fname(c[2])} {T.lst(b(x) for x in tmps)}'
    if k == 'expunge':
        return 'CExpunge'
    if k == 'check':
        return f'CCheck {b(_pad(tmps, 1)[0])}'
    if k == 'noop':
        return 'CNoop'
    if k == 'close':
        return 'CClose'
    if k == 'create':
        val, guid = 0, b''
        if texts:
            m = re.match(rb'3 V(\d+) N\d+ G(\S+)', texts[0])
            if m:
                val, guid = int(m.group(1)), m.group(2)
        return f'CCreate {fname(c[1])} {T.N(val)} {b(guid)} {b(_pad(tmps, 1)[0])}'
    if k == 'rename':
        order = []
        for e, s in sp:
            if e[0] == 'rename' and s and s[0] == 'dir':
                order.append(s[1])
        return f'CRename {fname(c[1])} {fname(c[2])} {T.lst(fname(x) for x in order)}'
    if k == 'subscribe':
        return f'CSubscribe {b(M.mbx_name(c[1]))} {b(_pad(tmps, 1)[0])}'
    if k == 'unsubscribe':
        return f'CUnsubscribe {b(M.mbx_name(c[1]))} {b(_pad(tmps, 1)[0])}'
    raise ValueError(c)


def xcmd_terms(cmds, pm: M.PathMap) -> list[str]:
    """The commands of a reference run as Delete.xcmd terms: DELETE with the
    observed removal order, a delivery, the EXAMINE that follows deliveries
    into its folder as the adopting scan, everything else as XC (Ops.cmd)."""
    out = []
    pending: dict = {}
    for c in cmds:
        cmd = _tup(c['cmd'])
        evs = [tuple(e) for e in c['events']]
        k = cmd[0]
        if k == 'delete':
            order = []
            if c['status'] == 'OK':
                for e in evs:
                    if e[0] not in ('unlink', 'rmdir'):
                        break
                    sp = pm.split(e[1])
                    if sp and sp[0] == 'dir' and list(sp[1]) == list(cmd[1]):
                        break
                    order.append(pm.term(e[1]) or '(PDir nil)')
            out.append(f'XDelete {fname(cmd[1])} {T.lst(order)}')
            pending.pop(tuple(cmd[1]), None)
        elif k == 'deliver':
            _k, parts, sub, info, cid = cmd
            out.append(f'XDeliver {fname(parts)} {M.SUBS[sub]} {b(M.deliver_key(cid))} '
                       f'{b(info)} {T.N(cid)}')
            pending[tuple(parts)] = pending.get(tuple(parts), 0) + 1
        elif k == 'examine' and pending.get(tuple(cmd[1])):
            n = pending.pop(tuple(cmd[1]))
            sp = [(e, pm.split(e[1])) for e in evs]
            tmps = [s_[2].encode() for e, s_ in sp if e[0] == 'creat' and s_ and s_[0] == 'tmp']
            texts = [bytes.fromhex(e[2]) for e, s_ in sp
                     if e[0] == 'write' and s_ and s_[0] == 'tmp' and e[2] is not None]
            ets = []
            if texts:
                lines = texts[0].replace(b'\r\n', b'\n').rstrip(b'\n').split(b'\n')[1:]
                for line in lines[len(lines) - n:] if n <= len(lines) else []:
                    e = re.search(rb' E(\S+)', line)
                    t = re.search(rb' T(\S+)', line)
                    ets.append(f'({b(e.group(1) if e else b"")}, {b(t.group(1) if t else b"")})')
            out.append(f'XScan {fname(cmd[1])} {b(_pad(tmps, 1)[0])} {T.lst(ets)}')
        else:
            if k in ('select', 'examine'):
                pending.pop(tuple(cmd[1]), None)
            out.append('XC (' + cmd_term(cmd, evs, pm) + ')')
    return out


def xhistory_case(res: dict) -> tuple[str, list]:
    """xchk_history case of a reference run; also the unknown events."""
    ref = res['ref']
    pm = M.PathMap('/B/u1', res['layout'])
    items, unknown = [], []
    terms = xcmd_terms(ref['cmds'], pm)
    for c, t in zip(ref['cmds'], terms):
        evs = [tuple(e) for e in c['events']]
        ops, unk = ops_term(evs, pm)
        unknown += unk
        items.append(f'({t}, {ops}, {ack_term(c["status"])})')
    return (f'({LAYOUT[res["layout"]]}, {M.enc_fs(map(tuple, ref["fs0"]))}, '
            f'{T.lst(items)}, {M.enc_fs(map(tuple, ref["fs_final"]))})'), unknown


def xcrash_case(res: dict) -> str:
    ref = res['ref']
    pm = M.PathMap('/B/u1', res['layout'])
    cmds = xcmd_terms(ref['cmds'], pm)
    dumps = []
    for cr in res['crashes']:
        dumps.append(f'({T.nat(cr["k"])}, false, {dump_term(cr["dump_raw"])})')
        if 'dump_aged' in cr:
            dumps.append(f'({T.nat(cr["k"])}, true, {dump_term(cr["dump_aged"])})')
    return (f'({LAYOUT[res["layout"]]}, {M.enc_fs(map(tuple, ref["fs0"]))}, '
            f'{T.lst("(" + c + ")" for c in cmds)}, {T.lst(dumps)})')


def ack_term(status: str) -> str:
    return {'OK': 'AOk', 'NO': 'ANo'}.get(status, 'AUnmodelled')


def ops_term(events, pm: M.PathMap) -> tuple[str, list]:
    terms, unknown = [], []
    for e in events:
        t = M.enc_event(pm, e)
        if t is None:
            unknown.append(e)
            t = 'OUtime (PDir nil)'      # never produced by the model: forces a mismatch
        terms.append('(' + t + ')')
    return T.lst(terms), unknown


def name_parts(name: str):
    return [] if name.upper() == 'INBOX' else name.split('/')


def dump_term(d: dict) -> str:
    views = []
    for name in d['list']:
        if name in d['folders']:
            f = d['folders'][name]
            msgs = T.lst(f'({T.N(m["uid"])}, {b(m["flags"])}, {T.N(m["cid"])})'
                         for m in f['msgs'])
            v = f'OServed {T.N(f["validity"])} {T.N(f["uidnext"])} {msgs}'
        else:
            err = [e for e in d['errors'] if e['folder'] == name]
            v = 'OLocked' if err and err[0]['status'] == 'NO' \
                and 'TIMEOUT' in err[0].get('resp', 'TIMEOUT') else 'OBroken'
        views.append(f'({fname(name_parts(name))}, {v})')
    if d.get('lsub_status') == 'OK':
        lsub = '(Some ' + T.lst(b(n.encode('latin-1')) for n in d['lsub']) + ')'
    else:
        lsub = 'None'
    return '{| d_views := %s; d_lsub := %s |}' % (T.lst(views), lsub)


def history_case(res: dict) -> tuple[str, list]:
    """chk_history case of a reference run; also the unknown events."""
    ref = res['ref']
    pm = M.PathMap('/B/u1', res['layout'])
    items, unknown = [], []
    for c in ref['cmds']:
        evs = [tuple(e) for e in c['events']]
        ops, unk = ops_term(evs, pm)
        unknown += unk
        items.append(f'({cmd_term(_tup(c["cmd"]), evs, pm)}, {ops}, {ack_term(c["status"])})')
    return (f'({LAYOUT[res["layout"]]}, {M.enc_fs(map(tuple, ref["fs0"]))}, '
            f'{T.lst(items)}, {M.enc_fs(map(tuple, ref["fs_final"]))})'), unknown


def crash_case(res: dict) -> str:
    """chk_crash case: the history (with the names of the reference run) and
    one dump per crash point (two when lock files had to expire first)."""
    ref = res['ref']
    pm = M.PathMap('/B/u1', res['layout'])
    cmds = [cmd_term(_tup(c['cmd']), [tuple(e) for e in c['events']], pm)
            for c in ref['cmds']]
    dumps = []
    for cr in res['crashes']:
        dumps.append(f'({T.nat(cr["k"])}, false, {dump_term(cr["dump_raw"])})')
        if 'dump_aged' in cr:
            dumps.append(f'({T.nat(cr["k"])}, true, {dump_term(cr["dump_aged"])})')
    return (f'({LAYOUT[res["layout"]]}, {M.enc_fs(map(tuple, ref["fs0"]))}, '
            f'{T.lst("(" + c + ")" for c in cmds)}, {T.lst(dumps)})')


def _tup(c):
    """JSON turned tuples into lists: restore the history element."""
    def conv(x):
        if isinstance(x, list):
            return [conv(y) for y in x]
        return x
    c = list(c)
    if c[0] == 'append':
        return ('append', c[1], [tuple(m) for m in c[2]])
    return tuple(conv(x) for x in c)


# ----------------------------------------------------------------- histories
NAMES = ['foo', 'bar', 'qux']


class Shadow:
    """Just enough bookkeeping to generate commands that make sense."""

    def __init__(self) -> None:
        self.folders: dict[tuple, dict] = {(): {'next': 1, 'msgs': {}}}
        self.sel: tuple | None = None       # (folder, readonly)
        self.subs: set = set()
        self.cid = 0
        # names that were renamed away: the session's MailboxSet keeps the old
        # MailboxData (and its MAILBOXID) cached under the name, so a mailbox
        # re-created under it is confused with the renamed one (a pymap defect
        # outside C14/C15; the model does not reproduce it)
        self.retired: set = set()
        # folders whose uid list still records expunged messages (no CHECK since)
        self.stale: set = set()

    def new_cid(self) -> int:
        self.cid += 1
        return self.cid

    def apply(self, c) -> None:
        k = c[0]
        if k == 'append':
            f = self.folders[tuple(c[1])]
            for fl, cid in c[2]:
                f['msgs'][f['next']] = (set(fl), cid)
                f['next'] += 1
        elif k in ('select', 'examine'):
            self.sel = (tuple(c[1]), k == 'examine')
        elif k == 'store':
            f = self.folders[self.sel[0]]
            for u in c[1]:
                if u in f['msgs']:
                    fl, cid = f['msgs'][u]
                    new = {'+': fl | set(c[3]), '-': fl - set(c[3]), '=': set(c[3])}[c[2]]
                    f['msgs'][u] = (new, cid)
        elif k in ('copy', 'move'):
            src = self.folders[self.sel[0]]
            dst = self.folders.get(tuple(c[2]))
            if dst is None:
                return
            for u in list(c[1]):
                if u in src['msgs']:
                    dst['msgs'][dst['next']] = (set(src['msgs'][u][0]), src['msgs'][u][1])
                    dst['next'] += 1
                    if k == 'move':
                        del src['msgs'][u]
        elif k == 'expunge' or (k == 'close' and self.sel and not self.sel[1]):
            f = self.folders[self.sel[0]]
            for u in [u for u, (fl, _) in f['msgs'].items() if 'T' in fl]:
                del f['msgs'][u]
                self.stale.add(self.sel[0])
            if k == 'close':
                self.sel = None
        elif k == 'close':
            self.sel = None
        elif k == 'check':
            if self.sel:
                self.stale.discard(self.sel[0])
        elif k == 'create':
            self.folders[tuple(c[1])] = {'next': 1, 'msgs': {}}
        elif k == 'rename':
            a, bb = tuple(c[1]), tuple(c[2])
            for f in [f for f in self.folders if f[:len(a)] == a]:
                self.retired.add(f)
                self.folders[bb + f[len(a):]] = self.folders.pop(f)
        elif k == 'subscribe':
            self.subs.add(tuple(c[1]))
        elif k == 'unsubscribe':
            self.subs.discard(tuple(c[1]))
        elif k == 'delete':
            f = tuple(c[1])
            kids = [g for g in self.folders if g[:len(f)] == f and g != f]
            if f and f in self.folders and not (self.layout == 'fs' and kids):
                del self.folders[f]
                self.stale.discard(f)
        elif k == 'deliver':
            f = self.folders[tuple(c[1])]
            f['msgs'][f['next']] = (set(c[3][2:]) if c[3].startswith('2,') else set(), c[4])
            f['next'] += 1

    layout = None


def gen_history(rng, n: int, *, weights: dict | None = None, layout: str | None = None,
                failing_delete: bool = False) -> list:
    """A random history of n commands on one connection, mostly valid.
    'delete' and 'deliver' (an external delivery, always followed by the
    EXAMINE that adopts the file) only appear when given a weight."""
    sh = Shadow()
    sh.layout = layout
    w = {'append': 5, 'select': 3, 'examine': 1, 'store': 4, 'copy': 3, 'move': 3,
         'expunge': 2, 'check': 2, 'noop': 1, 'close': 1, 'create': 3, 'rename': 2,
         'subscribe': 2, 'unsubscribe': 1, 'delete': 0, 'deliver': 0}
    if weights:
        w.update(weights)
    out = []
    guard = 0
    while len(out) < n and guard < 200:
        guard += 1
        k = rng.choices(list(w), weights=list(w.values()))[0]
        folders = sorted(sh.folders)
        sel = sh.sel
        selmsgs = sorted(sh.folders[sel[0]]['msgs']) if sel else []
        c = None
        stale = [f for f in folders if f in sh.stale]
        if k == 'append':
            f = rng.choice(stale) if stale and rng.random() < 0.5 else rng.choice(folders)
            m = 1 if rng.random() < 0.7 else rng.randint(2, 3)
            c = ('append', list(f), [(''.join(sorted(rng.sample('DFRST', rng.randint(0, 2)))),
                                      sh.new_cid()) for _ in range(m)])
        elif k in ('select', 'examine'):
            c = (k, list(rng.choice(folders)))
        elif k == 'store':
            if not sel or sel[1] or not selmsgs:
                continue
            uids = sorted(rng.sample(selmsgs, rng.randint(1, min(2, len(selmsgs)))))
            if rng.random() < 0.15:
                uids.append(max(selmsgs) + 7)
            c = ('store', uids, rng.choice('+-='),
                 ''.join(sorted(rng.sample('DFRST', rng.randint(1, 2)))))
            if rng.random() < 0.4:
                c = ('store', uids, '+', 'T')
        elif k in ('copy', 'move'):
            if not sel or not selmsgs or (k == 'move' and sel[1]):
                continue
            others = [f for f in folders if f != sel[0]] if k == 'move' else folders
            if k == 'move' and (rng.random() < 0.15 or not others):
                others = [sel[0]]       # into the selected mailbox itself
            if not others:
                continue
            g = rng.choice(others)
            st = [f for f in others if f in sh.stale]
            if st and rng.random() < 0.6:
                g = rng.choice(st)      # a destination still recording expunged messages
            if k == 'copy' and rng.random() < 0.08:
                g = ('nonexistent',)
            uids = sorted(rng.sample(selmsgs, rng.randint(1, min(2, len(selmsgs)))))
            c = (k, uids, list(g))
        elif k == 'expunge':
            if not sel or sel[1]:
                continue
            c = ('expunge',)
        elif k in ('check', 'noop', 'close'):
            if not sel:
                continue
            c = (k,)
        elif k == 'create':
            free = [x for x in NAMES if (x,) not in sh.folders]
            parents = [f for f in folders if f and len(f) < 2]
            if parents and rng.random() < 0.4:
                p = rng.choice(parents)
                cand = [p + (x,) for x in NAMES if p + (x,) not in sh.folders]
            else:
                cand = [(x,) for x in free]
            cand = [x for x in cand if x not in sh.retired]
            if not cand:
                continue
            c = ('create', list(rng.choice(cand)))
        elif k == 'rename':
            srcs = [f for f in folders if f and not (sel and sel[0][:len(f)] == f)]
            if not srcs:
                continue
            a = rng.choice(srcs)
            cand = [(x,) for x in NAMES + ['zed'] if (x,) not in sh.folders
                    and (x,) not in sh.retired]
            if not cand:
                continue
            c = ('rename', list(a), list(rng.choice(cand)))
        elif k in ('subscribe', 'unsubscribe'):
            pool = [f for f in folders if f] or [('foo',)]
            if k == 'unsubscribe' and sh.subs and rng.random() < 0.8:
                pool = sorted(sh.subs)
            c = (k, list(rng.choice(pool)))
        elif k == 'delete':
            def kids(f):
                return [g for g in folders if g[:len(f)] == f and g != f]
            cand = [f for f in folders if f and not (sel and sel[0] == f)
                    and (layout is not None or not kids(f))
                    and f not in sh.retired]
            r = rng.random()
            if r < 0.06:
                c = ('delete', [])                      # INBOX: refused
            elif r < 0.14 and (layout == 'fs' or failing_delete):
                c = ('delete', ['nonexistent'])
            elif cand:
                nonempty = [f for f in cand if sh.folders[f]['msgs']]
                c = ('delete', list(rng.choice(nonempty if nonempty and rng.random() < 0.6
                                               else cand)))
            else:
                continue
        elif k == 'deliver':
            if len(out) + 2 > n:
                continue
            f = rng.choice(folders)
            # (a name without info part is adopted alike — fixed histories — but a
            # later COPY normalises it to ':2,', which Ops.copy_ops does not model)
            sub, info = ('new', '2,') if rng.random() < 0.6 else \
                rng.choice([('cur', '2,S'), ('cur', '2,'), ('new', '2,F'), ('cur', '2,FS')])
            m = 1      # one pending file per folder: the adoption order of several is os.listdir's
            for _ in range(m):
                c = ('deliver', list(f), sub, info, sh.new_cid())
                sh.apply(c)
                out.append(c)
            c = ('examine', list(f))
        if c is None:
            continue
        sh.apply(c)
        out.append(c)
        if c[0] == 'delete' and c[1] and c[1] != ['nonexistent'] and rng.random() < 0.6 \
                and len(out) + 2 <= n and tuple(c[1]) not in sh.folders:
            # DELETE then CREATE of the same name, then a message: no uid may
            # come back under the old UIDVALIDITY
            for extra in (('create', list(c[1])),
                          ('append', list(c[1]), [('', sh.new_cid())])):
                parent = tuple(extra[1][:-1])
                if parent and parent not in sh.folders:
                    break
                sh.apply(extra)
                out.append(extra)
        if c[0] == 'expunge' and rng.random() < 0.5 and len(out) + 3 <= n:
            # records dropped by CHECK, then new messages: uids must not come back
            f = list(sh.sel[0])
            for extra in (('check',), ('append', f, [('', sh.new_cid())]),
                          ('append', f, [('S', sh.new_cid())])):
                sh.apply(extra)
                out.append(extra)
    return out


# ------------------------------------------------------------------ monitors
def _msgs(d: dict) -> dict:
    """dump -> {(folder, uid): (flags, body)}"""
    out = {}
    for name, f in d['folders'].items():
        for m in f['msgs']:
            out[(name, m['uid'])] = (m['flags'], m['body'])
    return out


def _retarget(name: str, a: str, b_: str) -> str:
    if name == a:
        return b_
    if name.startswith(a + '/'):
        return b_ + name[len(a):]
    return name


def acked_count(cr: dict) -> int:
    return cr['acked']


def durability_failures(res: dict, cr: dict) -> list[tuple[str, str, dict]]:
    """The C15 oracle, written against the property statement (not the
    model): compare what a fresh server serves from the crashed directory
    with the states the crashed server had acknowledged.
    Returns (clause, text, observation) triples."""
    ref = res['ref']
    cmds = ref['cmds']
    a = acked_count(cr)                       # commands 0..a-1 were answered
    dumps = [ref['dump0']] + [c['dump'] for c in cmds]
    prev = dumps[a]
    nxt = dumps[a + 1] if a < len(cmds) else prev
    inflight = _tup(cmds[a]['cmd']) if a < len(cmds) else None
    fails: list[tuple[str, str, dict]] = []
    raw = cr['dump_raw']
    rec = cr.get('dump_aged', raw)
    # -- a lock file left behind blocks the folder until it is 600 s old
    if cr['locks']:
        blocked = [e['folder'] for e in raw['errors'] if e['status'] == 'NO'
                   and 'TIMEOUT' in e['resp']]
        acked_blocked = [f for f in blocked if f in prev['folders']]
        if acked_blocked or raw.get('lsub_status') == 'NO':
            fails.append(('served_after_restart',
                          f'after a kill at operation {cr["k"]} the lock file(s) {cr["locks"]} '
                          f'remain and a restarted server answers NO [TIMEOUT] for '
                          f'{acked_blocked or "LSUB"} until they are 600 s old',
                          {'kind': 'stale_lock'}))
    ren = None
    if inflight and inflight[0] == 'rename':
        ren = (M.mbx_name(inflight[1]).decode(), M.mbx_name(inflight[2]).decode())

    def names(f):
        return {f, _retarget(f, *ren)} if ren else {f}

    pm, nm, rm = _msgs(prev), _msgs(nxt), _msgs(rec)
    if ren:
        nm = pm            # a rename changes no message
    # -- every acknowledged mailbox is listed and readable
    for f in prev['list']:
        if ren is None and f not in nxt['list']:
            continue
        if inflight and inflight[0] == 'delete' and M.mbx_name(inflight[1]).decode() == f:
            continue      # being deleted (it may stay listed as the parent of a child)
        got = [g for g in names(f) if g in rec['list']]
        if not got:
            fails.append(('creations_persist', f'mailbox {f} is no longer listed after a kill '
                          f'at operation {cr["k"]}', {'kind': 'lost_mailbox'}))
            continue
        if f in prev['folders'] and not any(g in rec['folders'] for g in got):
            err = [e for e in rec['errors'] if e['folder'] in got]
            fails.append(('control_files_readable',
                          f'mailbox {f} cannot be opened after a kill at operation {cr["k"]}: '
                          f'{err[:1]}', {'kind': 'unreadable', 'status': err[0]['status'] if err else '?'}))
    # -- messages
    for (f, uid), (fl, body) in pm.items():
        cands = [rm.get((g, uid)) for g in names(f)]
        cands = [c for c in cands if c is not None]
        same_after = nm.get((f, uid))
        vals_prev = prev['folders'][f]['validity']
        for g in names(f):
            if g in rec['folders'] and rec['folders'][g]['validity'] != vals_prev:
                cands = []      # UIDVALIDITY changed: UIDs need not survive, bodies must
                bodies = [m['body'] for m in rec['folders'][g]['msgs']]
                if body in bodies:
                    cands = [(fl, body)]
        if same_after == (fl, body) or ren:
            if (fl, body) not in cands:
                kind = 'lost_message' if not cands else \
                    ('changed_content' if cands[0][1] != body else 'changed_flags')
                fails.append(('served_after_restart',
                              f'{f} uid {uid} acknowledged with flags {fl!r} is served as '
                              f'{[(c[0], M.cid_of(bytes.fromhex(c[1]))) for c in cands]} after a '
                              f'kill at operation {cr["k"]}', {'kind': kind}))
        else:
            allowed = [(fl, body)] + ([same_after] if same_after else [])
            if cands and cands[0] not in allowed:
                fails.append(('served_after_restart',
                              f'{f} uid {uid}: served {cands[0][0]!r} which is neither the state '
                              f'before nor after the interrupted command', {'kind': 'changed_flags'}))
            if not cands and same_after is not None:
                fails.append(('served_after_restart',
                              f'{f} uid {uid} lost by an interrupted {inflight[0]} that only '
                              f'changes flags', {'kind': 'lost_message'}))
            if not cands and inflight and inflight[0] == 'move':
                # not acknowledged as moved: the message must still be served,
                # from the source or from the destination
                if not any(m['body'] == body for g in rec['folders'].values() for m in g['msgs']):
                    fails.append(('served_after_restart',
                                  f'{f} uid {uid} (cid {M.cid_of(bytes.fromhex(body))}), '
                                  f'acknowledged, is served from no mailbox after a kill at '
                                  f'operation {cr["k"]} of {inflight}', {'kind': 'lost_message'}))
            if not cands:
                # gone from (f, uid): it must not still be in f under another uid
                # (unless the interrupted command itself adds such a copy to f)
                others = [m['uid'] for g in names(f) if g in rec['folders']
                          for m in rec['folders'][g]['msgs'] if m['body'] == body]
                adds = [k_ for k_, v in nm.items() if k_[0] == f and v[1] == body and k_ not in pm]
                if others and not adds and f in rec['folders'] \
                        and rec['folders'][f]['validity'] == vals_prev:
                    fails.append(('served_after_restart',
                                  f'{f} uid {uid}, acknowledged, is served as uid {others} after a '
                                  f'kill at operation {cr["k"]} (UIDVALIDITY unchanged)',
                                  {'kind': 'uid_changed'}))
    # -- nothing unknown appears; uids are never handed to another message
    new_bodies = {v[1] for k_, v in nm.items() if k_ not in pm or pm[k_][1] != v[1]}
    if a < len(cmds):
        new_bodies |= {m['body'] for f in nxt['folders'].values() for m in f['msgs']}
    known_bodies = {v[1] for v in pm.values()} | new_bodies
    # files a delivery agent dropped (or was dropping) into the store
    delivered = {c['cmd'][4] for c in cmds[:a + 1] if c['cmd'][0] == 'deliver'}
    # -- a mailbox that is listed is either served or refused, never a server bug
    for e in rec['errors']:
        if e['status'] in ('BYE', 'NONE'):
            fails.append(('served_after_restart',
                          f'after a kill at operation {cr["k"]} (during {inflight}) the listed '
                          f'mailbox {e["folder"]} ends the connection: {e["resp"][:60]!r} {e.get("exc")}',
                          {'kind': 'serverbug_after_crash'}))
    seen: dict = {}
    for d in dumps[:a + 2]:
        for name, f in d['folders'].items():
            for m in f['msgs']:
                seen.setdefault((f['validity'], m['uid']), set()).add(m['body'])
    for name, f in rec['folders'].items():
        uids = [m['uid'] for m in f['msgs']]
        if len(set(uids)) != len(uids):
            fails.append(('uid_unique', f'{name} serves a uid twice: {uids}', {'kind': 'dup_uid'}))
        for m in f['msgs']:
            if m['body'] not in known_bodies and m['cid'] not in delivered:
                fails.append(('served_after_restart',
                              f'{name} uid {m["uid"]} has content never stored (cid {m["cid"]})',
                              {'kind': 'phantom_message'}))
            old = seen.get((f['validity'], m['uid']))
            if old and m['body'] not in old:
                fails.append(('uid_unique',
                              f'{name} uid {m["uid"]} (validity {f["validity"]}) was the uid of '
                              f'another message before the kill at operation {cr["k"]}',
                              {'kind': 'uid_reuse'}))
        top = max([m['uid'] for d in dumps[:a + 1] for g in d['folders'].values()
                   if g['validity'] == f['validity'] for m in g['msgs']], default=0)
        top = max([top] + [g['uidnext'] - 1 for d in dumps[:a + 1]
                           for g in d['folders'].values() if g['validity'] == f['validity']])
        if f['uidnext'] <= top or (uids and f['uidnext'] <= max(uids)):
            fails.append(('uid_unique', f'{name}: UIDNEXT {f["uidnext"]} does not exceed the '
                          f'uids already used (max {max([top] + uids)})', {'kind': 'uidnext_low'}))
    # -- subscriptions acknowledged before and not being changed persist
    if rec.get('lsub_status') == 'OK':
        for n in set(prev['lsub']) & set(nxt['lsub']):
            if n not in rec['lsub'] and not (ren and _retarget(n, *ren) != n):
                fails.append(('subscriptions_persist', f'subscription {n} lost after a kill at '
                              f'operation {cr["k"]}', {'kind': 'lost_subscription'}))
    # -- everything acknowledged: the restart serves exactly the last state
    if a == len(cmds):
        if _msgs(rec) != pm or sorted(rec['list']) != sorted(prev['list']) \
                or sorted(rec['lsub']) != sorted(prev['lsub']):
            fails.append(('clean_restart', 'a server restarted after the whole history serves '
                          'something else than the stopped one', {'kind': 'restart_differs'}))
    return fails


def reference_failures(res: dict) -> list[tuple[str, str, dict]]:
    """UID discipline of the running (never killed) server over a history:
    under one UIDVALIDITY a uid always names the same body, and a message that
    stays in its mailbox keeps its uid from one command to the next."""
    ref = res['ref']
    dumps = [ref['dump0']] + [c['dump'] for c in ref['cmds']]
    fails = []
    seen: dict = {}
    for i, d in enumerate(dumps):
        for name, f in d['folders'].items():
            for m in f['msgs']:
                old = seen.setdefault((f['validity'], m['uid']), m['body'])
                if old != m['body']:
                    fails.append(('uid_unique', f'{name} uid {m["uid"]} names another message '
                                  f'after command {i - 1} {ref["cmds"][i - 1]["cmd"]}',
                                  {'kind': 'uid_reuse'}))
        if i == 0:
            continue
        prev, cmd = dumps[i - 1], _tup(ref['cmds'][i - 1]['cmd'])
        if cmd[0] == 'delete' and ref['cmds'][i - 1]['status'] == 'OK':
            name = M.mbx_name(cmd[1]).decode()
            if name in d['folders']:
                fails.append(('creations_persist', f'{name} is still listed after DELETE was '
                              f'acknowledged', {'kind': 'delete_not_done'}))
            lost = sorted(set(prev['lsub']) - set(d['lsub']))
            if lost:
                fails.append(('subscriptions_persist', f'DELETE {name} removed the '
                              f'subscription(s) {lost}', {'kind': 'delete_unsubscribed'}))
            def view(x):
                return x and (x['validity'], x['uidnext'],
                              [(m_['uid'], m_['flags'], m_['body']) for m_ in x['msgs']])
            for other, f in prev['folders'].items():
                if other != name and view(d['folders'].get(other)) != view(f):
                    fails.append(('served_after_restart', f'DELETE {name} changed mailbox {other}',
                                  {'kind': 'delete_not_isolated'}))
        for name, f in prev['folders'].items():
            g = d['folders'].get(name)
            if g is None or g['validity'] != f['validity']:
                continue
            now = {m['uid']: m['body'] for m in g['msgs']}
            for m in f['msgs']:
                if m['uid'] in now:
                    continue
                elsewhere = [u for u, b_ in now.items() if b_ == m['body']
                             and u not in {x['uid'] for x in f['msgs']}]
                into_itself = cmd[0] == 'move' and M.mbx_name(cmd[2]).decode() == name
                if elsewhere and cmd[0] not in ('copy', 'append') and not into_itself:
                    fails.append(('served_after_restart',
                                  f'{name} uid {m["uid"]} became uid {elsewhere} by {cmd} '
                                  f'(UIDVALIDITY unchanged)', {'kind': 'uid_changed'}))
    return fails


def determinism_ok(res: dict, cr: dict) -> bool:
    """The killed run must have executed a prefix of the reference trace."""
    flat = [tuple(e) for c in res['ref']['cmds'] for e in c['events']]
    got = [tuple(e) for e in cr['trace']]
    if len(got) != cr['k'] and cr['rc'] == M.KILL_STATUS:
        return False
    for x, y in zip(got, flat):
        if x[0] != y[0] or x[1] != y[1]:
            return False
    return True


def canon_dump(d: dict, known=None) -> dict:
    """What two dumps of the same state must agree on.  A UIDVALIDITY that no
    dump of the reference run shows was drawn by the restarted server itself
    (the folder had no uid list yet): it is random, so only its being fresh
    is compared."""
    def val(v):
        return v if known is None or v in known else 'fresh'
    return {'list': sorted(d['list']), 'lsub': sorted(d['lsub']), 'lsub_status': d.get('lsub_status'),
            'errors': sorted((e['folder'], e['status']) for e in d['errors']),
            'folders': {n: (val(f['validity']), f['uidnext'],
                            [(m['uid'], m['flags'], m['body']) for m in f['msgs']])
                        for n, f in d['folders'].items()}}


def kill_matches_copy(res: dict, kill: dict) -> bool:
    """A real kill at k leaves the same state as the copy taken at k."""
    snap = [c for c in res['crashes'] if c['k'] == kill['k'] and not c.get('post')]
    if not snap:
        return True
    s = snap[0]
    ref = res['ref']
    known = {f['validity'] for d in [ref['dump0']] + [c['dump'] for c in ref['cmds']]
             for f in d['folders'].values()}
    return (canon_dump(s['dump_raw'], known) == canon_dump(kill['dump_raw'], known)
            and s['acked'] == kill['acked'] and s['locks'] == kill['locks']
            and ('dump_aged' in s) == ('dump_aged' in kill)
            and ('dump_aged' not in s
                 or canon_dump(s['dump_aged'], known) == canon_dump(kill['dump_aged'], known)))
