"""Namespace traces for C01/C02: CREATE, DELETE and RENAME issued by any connection on any
mailbox — including mailboxes that connections (the issuing one too) have selected — mixed
into the multi-session store traces of harness/store_*.py, on the real dict backend.

* labels: those of store_env.py (the box numbers are mailbox *names*: 1 INBOX, 2 Sent,
  3 Trash, 4 Box4, 5 Box5, 6 Box6, 9 Nope) plus ('create', s, name), ('delete', s, name),
  ('rename', s, src, dst).
* NsRun(StoreRun): executes them; observes, glass-box, the *identity* of every mailbox
  object (MailboxData.mailbox_id, numbered 1, 2, ... in the order the objects appear — the
  order the model allocates them), the name -> identity map, the identity every connection
  has selected, and which connections the server has closed.
* NsMonitor: the shadow client of store_monitor.py per connection plus the clauses
    bye_clean     a `* BYE` comes with no EXPUNGE/EXISTS/RECENT/FETCH/SEARCH data, the
                  connection is closed afterwards and the server holds no selection for it
    stale_data    a connection whose selected name no longer denotes the mailbox object it
                  selected (glass box: deleted, renamed away, created again, INBOX renamed) is
                  sent message data by anything but SELECT/EXAMINE, or answered OK (without BYE)
                  by NOOP/CHECK/FETCH/STORE/SEARCH/EXPUNGE/COPY/MOVE
                  (the APPEND-through-the-renamed-object path is the open finding C10-F4 and
                  is left to C10)
    reattached    the mailbox identity of a connection's selection changes without SELECT
    view_sync, fetch_label, expunge_range, exists_shrinks ...   (the shadow client)
    converge_uids, converge_flags   at checkpoints every open, non-idling connection with a
                  selection sends NOOP; if it is answered OK its client must hold what a fresh
                  probe connection sees under *the name the client selected*
* enc_ns_case: Gallina terms for Store/NsCheck.v (chk_ns).
"""
from __future__ import annotations

import re

from . import store_env as SE
from .store_env import StoreRun, T, sel_obs, box_obs, parse_responses
from .store_gen import TraceGen
from .store_monitor import Probe, Shadow
from .store_trace import Trace, exec_label

for _name, _num in (('Box4', 4), ('Box5', 5), ('Box6', 6)):
    SE.BOX_NUM.setdefault(_name, _num)
    SE.BOX_NAME.setdefault(_num, _name)

NS_KINDS = ('create', 'delete', 'rename')
DATA = ('expunge', 'exists', 'recent', 'fetch', 'search')
# commands whose OK is a statement about the selected mailbox
ABOUT_SELECTION = ('noop', 'check', 'fetch', 'store', 'search', 'expunge', 'copy', 'move')

HEADER = ('From PV Require Import Base.Prelude Store.Base Store.Flags Store.ModSeq Store.Mailbox '
          'Store.View Store.Compare Store.Session Store.System Store.StoreCheck Store.SystemNs '
          'Store.NsCheck Wire.SeqSet.\nLocal Open Scope N_scope.\n')


def ns_cmd_bytes(tag: bytes, label) -> bytes:
    k = label[0]
    if k == 'create':
        return tag + b' CREATE ' + SE.BOX_NAME[label[2]].encode() + b'\r\n'
    if k == 'delete':
        return tag + b' DELETE ' + SE.BOX_NAME[label[2]].encode() + b'\r\n'
    if k == 'rename':
        return (tag + b' RENAME ' + SE.BOX_NAME[label[2]].encode() + b' '
                + SE.BOX_NAME[label[3]].encode() + b'\r\n')
    raise ValueError(label)


class NsRun(StoreRun):
    def __init__(self) -> None:
        super().__init__()
        self.ids: dict = {}          # ObjectId -> number
        self.objs: dict = {}         # number -> MailboxData (also of deleted mailboxes)

    # ---- identities
    def named(self) -> list[tuple[int, object]]:
        """(name number, mailbox object) of every mailbox that has a name now."""
        out = [(1, self.mailbox_set._inbox)]
        for name, mbx in self.mailbox_set._set.items():
            if name in SE.BOX_NUM:
                out.append((SE.BOX_NUM[name], mbx))
        return sorted(out, key=lambda x: x[0])

    def scan_ids(self) -> None:
        for _num, mbx in self.named():
            if mbx.mailbox_id not in self.ids:
                n = len(self.ids) + 1
                self.ids[mbx.mailbox_id] = n
                self.objs[n] = mbx

    def box(self, num: int):
        name = SE.BOX_NAME[num]
        if name == 'INBOX':
            return self.mailbox_set._inbox
        mbx = self.mailbox_set._set.get(name)
        # generator bias only: an unbound name has no messages
        return mbx if mbx is not None else self.mailbox_set._inbox

    def bound(self, num: int) -> bool:
        return num == 1 or SE.BOX_NAME.get(num) in self.mailbox_set._set

    def message_exists(self, num: int, uid: int) -> bool:
        return self.bound(num) and uid in set(self.box(num)._messages)

    def boxes(self) -> dict[int, object]:
        return dict(self.named())

    def is_stale(self, s: int) -> bool:
        """BaseSession._get_selected would raise MailboxNotFound (computed from the
        mailbox set, not by calling it)."""
        sel = self.selected(s)
        if sel is None:
            return False
        name = sel.lookup
        if isinstance(name, str) and name.isascii() and name.upper() == 'INBOX':
            mbx = self.mailbox_set._inbox
        else:
            mbx = self.mailbox_set._set.get(name)
        return mbx is None or mbx.mailbox_id != sel.mailbox_id

    def setup_labels(self) -> list[tuple]:
        self.scan_ids()
        return super().setup_labels()

    def observe(self, exclude=()) -> dict:
        self.scan_ids()
        sels = {}
        for s in sorted(self.conns):
            if s in exclude:
                continue
            sel = self.selected(s)
            sels[s] = None if sel is None else (self.ids.get(sel.mailbox_id, 0), sel_obs(sel))
        return {'sels': sels,
                'boxes': {self.ids[m.mailbox_id]: box_obs(m) for _n, m in self.named()},
                'names': {n: self.ids[m.mailbox_id] for n, m in self.named()},
                'closed': sorted(s for s, c in self.conns.items() if c.closed)}

    async def do(self, label):
        kind = label[0]
        if kind in NS_KINDS:
            s = label[1]
            conn = self.conns[s]
            self.ntag += 1
            tag = b't%d' % self.ntag
            before = conn.suspensions
            raw = await conn.send(ns_cmd_bytes(tag, label))
            if conn.suspensions != before:
                self.atomicity.append((label, conn.suspensions - before))
            self.raw[s].append(raw)
            return label, parse_responses(raw), raw
        if kind == 'deliver' and not self.bound(label[1]):
            return label, [], b''
        return await super().do(label)


# ------------------------------------------------------------------ generator
class NsGen(TraceGen):
    """TraceGen plus namespace commands; never speaks on a closed connection."""

    NAMES = [1, 2, 3, 4, 5]

    def __init__(self, rng, run: NsRun, sessions, *, p_ns: float = 0.25, **kw) -> None:
        super().__init__(rng, run, sessions, **kw)
        self.all_sessions = list(sessions)
        self.p_ns = p_ns

    def live(self) -> list[int]:
        return [s for s in self.all_sessions if not self.run.conns[s].closed]

    def ns_label(self):
        rng, run = self.rng, self.run
        speakers = [s for s in self.live() if s not in run.idle]
        if not speakers:
            return None
        s = rng.choice(speakers)
        bound = [n for n in self.NAMES if run.bound(n)]
        free = [n for n in self.NAMES if not run.bound(n)]
        selected = []
        for x in self.live():
            sel = run.selected(x)
            if sel is not None and SE.BOX_NUM.get(sel.lookup) in self.NAMES:
                selected.append(SE.BOX_NUM[sel.lookup])

        def src():
            r = rng.random()
            if r < 0.55 and selected:
                return rng.choice(selected)
            if r < 0.9 and bound:
                return rng.choice(bound)
            return rng.choice(self.NAMES)

        def dst():
            if rng.random() < 0.85 and free:
                return rng.choice(free)
            return rng.choice(self.NAMES)
        k = rng.choices(['rename', 'delete', 'create'], weights=[5, 3, 3])[0]
        if k == 'rename':
            return ('rename', s, src(), dst())
        if k == 'delete':
            return ('delete', s, src())
        # CREATE: mostly a name that is free now — often one that a stale selection still uses
        return ('create', s, dst())

    def next_label(self):
        self.sessions = self.live()
        if not self.sessions:
            return None
        if not self.queue and self.rng.random() < self.p_ns:
            lab = self.ns_label()
            if lab is not None:
                return lab
        lab = super().next_label()
        if lab[0] in ('cmd', 'done') and self.run.conns[lab[1]].closed:
            return None
        return lab


# -------------------------------------------------------------------- monitor
class NsMonitor:
    def __init__(self, checkpoint_every: int = 0) -> None:
        self.shadows: dict[int, Shadow] = {}
        self.failures: list[dict] = []
        self.sorted_after: dict[int, list | None] = {}
        self.stale: dict[int, bool] = {}       # after the previous step = before this one
        self.attached: dict[int, object] = {}  # mailbox identity at the connection's SELECT
        self.selname: dict[int, int] = {}      # the name the client selected
        self.checkpoint_every = checkpoint_every
        self.probe: Probe | None = None
        self.n_checkpoints = self.n_compared = self.n_bye = self.n_stale_cmds = 0

    def fail(self, clause, what, obs, idx, s) -> None:
        self.failures.append({'clause': clause, 'what': what, 'obs': obs, 'step': idx, 'session': s})

    def hook(self, run: NsRun, trace: Trace, idx: int, label, responses, raw) -> None:
        kind = label[0]
        if kind == 'deliver':
            self._after(run, idx)
            return
        s = label[1]
        sh = self.shadows.setdefault(s, Shadow(s))
        sel = run.selected(s)
        name = label[2][0] if kind == 'cmd' else kind
        flabel = ('cmd', s, ('touch',)) if kind in NS_KINDS else label
        tagged = next((r for r in responses if r[0] == 'tagged'), None)
        ok = tagged is not None and tagged[1] == 'OK'
        was_stale = self.stale.get(s, False)
        has_bye = any(r[0] == 'bye' for r in responses)
        if kind in NS_KINDS and not has_bye and not run.is_stale(s):
            was_stale = False     # the command itself gave the mailbox its name back
        data = [r for r in responses if r[0] in DATA]
        server_sorted = list(sel._messages._sorted) if sel is not None else None
        ids_before = self.sorted_after.get(s)
        self.sorted_after[s] = server_sorted
        if name == 'select':
            ids_before = None
            if ok and sel is not None:
                self.attached[s] = sel.mailbox_id
                self.selname[s] = label[2][1]
        if has_bye:
            self.n_bye += 1
            if data:
                self.fail('bye_clean', f'BYE accompanied by message data {data[:3]}',
                          {'kind': 'bye_with_data', 'cmd': name}, idx, s)
            if not run.conns[s].closed or sel is not None:
                self.fail('bye_clean', 'after BYE the connection is still open or still has a '
                          'selection on the server', {'kind': 'bye_not_closed', 'cmd': name}, idx, s)
            sh.view = None
        else:
            for clause, what, obs in sh.feed(flabel, [r for r in responses if r[0] != 'bye'],
                                             server_sorted, ids_before):
                self.fail(clause, what, obs, idx, s)
        if was_stale and name not in ('select',) and kind in ('cmd',) + NS_KINDS:
            self.n_stale_cmds += 1
            f4 = False
            if name == 'append':
                dest = run.boxes().get(label[2][1])
                f4 = dest is not None and dest.mailbox_id == self.attached.get(s)
            if not f4:
                if data:
                    self.fail('stale_data',
                              f'{name.upper()} on a selection whose name no longer denotes the selected '
                              f'mailbox is answered with message data {data[:3]}',
                              {'kind': 'data_on_stale_selection', 'cmd': name}, idx, s)
                elif ok and not has_bye and name in ABOUT_SELECTION:
                    self.fail('stale_data',
                              f'{name.upper()} on a selection whose name no longer denotes the selected '
                              f'mailbox is answered OK without BYE',
                              {'kind': 'ok_on_stale_selection', 'cmd': name}, idx, s)
        self._after(run, idx)

    def _after(self, run: NsRun, idx: int) -> None:
        for x in run.conns:
            sel = run.selected(x)
            self.stale[x] = run.is_stale(x)
            if sel is not None and x in self.attached and sel.mailbox_id != self.attached[x]:
                self.fail('reattached', 'the selection of the connection now has another mailbox identity '
                          'although it did not SELECT', {'kind': 'reattached'}, idx, x)
                self.attached[x] = sel.mailbox_id

    async def checkpoint(self, run: NsRun, trace: Trace, i: int, *, force: bool = False) -> None:
        if not force and (not self.checkpoint_every or (i + 1) % self.checkpoint_every):
            return
        if self.probe is None:
            self.probe = Probe(run)
        self.n_checkpoints += 1
        for s in sorted(run.conns):
            if run.conns[s].closed or s in run.idle or run.selected(s) is None:
                continue
            _, responses, _ = await exec_label(run, trace, ('cmd', s, ('noop',)), (self.hook,))
            tagged = next((r for r in responses if r[0] == 'tagged'), None)
            if tagged is None or tagged[1] != 'OK' or any(r[0] == 'bye' for r in responses):
                continue          # told NO / BYE: the client knows its selection is gone
            truth = await self.probe.truth(self.selname.get(s, 1))
            idx = len(trace.steps) - 1
            if truth is None:
                self.fail('converge_uids', 'NOOP answered OK although the name the client selected '
                          'denotes no mailbox', {'kind': 'mailbox_gone'}, idx, s)
                continue
            self.n_compared += 1
            for clause, what, obs in self.shadows[s].compare_truth(truth):
                self.fail(clause, what, obs, idx, s)

    def finish(self, run: NsRun, trace: Trace) -> None:
        for s, conn in run.conns.items():
            if conn.closed and conn.out:
                self.fail('bye_clean', f'data written after BYE: {bytes(conn.out)[:80]!r}',
                          {'kind': 'after_bye'}, len(trace.steps) - 1, s)


def _clean_problems(trace: Trace) -> None:
    trace.problems = [p for p in trace.problems
                      if not (p['kind'] == 'unparsed_or_bye' and 'BYE Selected mailbox' in p['line'])]


async def ns_random_trace(rng, *, nsess, nsteps, boxes=(1, 2, 3, 4), idle=True, weights=None,
                          checkpoint_every=4, p_ns=0.25, readonly_sessions=()):
    mon = NsMonitor(checkpoint_every)
    sessions = list(range(1, nsess + 1))
    run = await NsRun().start(sessions)
    trace = Trace()
    trace.setup = run.setup_labels()
    gen = NsGen(rng, run, sessions, boxes=boxes, idle=idle, weights=weights, p_ns=p_ns,
                readonly_sessions=readonly_sessions)
    hooks = (mon.hook,)
    for s in sessions:
        box = rng.choice([1, 1, 2, 2, 3])
        await exec_label(run, trace, ('cmd', s, ('select', box, s in readonly_sessions)), hooks)
        await exec_label(run, trace, ('cmd', s, ('fetch', [(1, '*')], False, True, False)), hooks)
    for i in range(nsteps):
        lab = gen.next_label()
        if lab is None:
            if not gen.live():
                break
            continue
        await exec_label(run, trace, lab, hooks)
        if not gen.queue:
            await mon.checkpoint(run, trace, i)
    while gen.queue:
        lab = gen.queue.pop(0)
        if lab[0] in ('cmd', 'done') and run.conns[lab[1]].closed:
            continue
        await exec_label(run, trace, lab, hooks)
    for s in sorted(run.idle):
        if not run.conns[s].closed:
            await exec_label(run, trace, ('done', s), hooks)
    await mon.checkpoint(run, trace, 0, force=True)
    mon.finish(run, trace)
    for lab, susp in run.atomicity:
        trace.problems.append({'kind': 'atomicity', 'label': repr(lab), 'suspensions': susp})
    _clean_problems(trace)
    await run.close()
    return trace, mon


async def ns_fixed_trace(labels, *, nsess, final_checkpoint=True):
    mon = NsMonitor(0)
    sessions = list(range(1, nsess + 1))
    run = await NsRun().start(sessions)
    trace = Trace()
    trace.setup = run.setup_labels()
    hooks = (mon.hook,)
    for label in labels:
        if label[0] == 'checkpoint':
            await mon.checkpoint(run, trace, 0, force=True)
            continue
        if label[0] == 'wake':
            continue
        if label[0] != 'deliver' and run.conns[label[1]].closed:
            continue
        if label[0] in ('cmd',) + NS_KINDS and label[1] in run.idle:
            continue
        if label[0] == 'done' and label[1] not in run.idle:
            continue
        await exec_label(run, trace, label, hooks)
    for s in sorted(run.idle):
        if not run.conns[s].closed:
            await exec_label(run, trace, ('done', s), hooks)
    if final_checkpoint:
        await mon.checkpoint(run, trace, 0, force=True)
    mon.finish(run, trace)
    for lab, susp in run.atomicity:
        trace.problems.append({'kind': 'atomicity', 'label': repr(lab), 'suspensions': susp})
    _clean_problems(trace)
    await run.close()
    return trace, mon


# ------------------------------------------------------------------- encoders
def enc_nlabel(label) -> str:
    k = label[0]
    if k == 'create':
        return f'(NCreate {label[1]} {label[2]})'
    if k == 'delete':
        return f'(NDelete {label[1]} {label[2]})'
    if k == 'rename':
        return f'(NRename {label[1]} {label[2]} {label[3]})'
    return f'(NOld {SE.enc_label(label)})'


def enc_nresp(r) -> str:
    if r[0] == 'bye':
        return 'Bye'
    if r[0] == 'tagged' and r[2][0] == 'othercode' and r[1] == 'NO' and \
            bytes(r[2][1]).upper().startswith(b'ALREADYEXISTS'):
        return 'NoExists'
    return f'(R {SE.enc_resp(r)})'


def enc_nstep(label, responses, obs, last: dict, full: bool) -> str:
    out = T.lst(enc_nresp(r) for r in responses) if responses else '(@nil nresp)'
    sels, boxes = [], []
    for s, o in obs['sels'].items():
        if o is None:
            light = heavy = 'None'
        else:
            light = f'(Some ({o[0]}, {SE.enc_sel_obs(o[1], heavy=False)[6:-1]}))'
            heavy = f'(Some ({o[0]}, {SE.enc_sel_obs(o[1], heavy=full)[6:-1]}))'
        if full or last.get(('s', s)) != light:
            sels.append(T.pair(T.N(s), heavy))
        last[('s', s)] = light
    for n, o in obs['boxes'].items():
        light = SE.enc_box_obs(o, heavy=False)
        if full or last.get(('b', n)) != light:
            boxes.append(T.pair(T.N(n), SE.enc_box_obs(o, heavy=full)))
        last[('b', n)] = light
    sels_t = T.lst(sels) if sels else '(@nil (N * option (N * sel_obs)))'
    boxes_t = T.lst(boxes) if boxes else '(@nil (N * box_obs))'
    names_t = SE.enc_nn(sorted(obs['names'].items()))
    return (f'({enc_nlabel(label)}, MkNObs {out} {sels_t} {boxes_t} {names_t} '
            f'{T.nlist(obs["closed"])})')


def enc_ns_case(setup, steps) -> str:
    pre = T.lst(enc_nlabel(x) for x in setup) if setup else '(@nil nlabel)'
    last: dict = {}
    parts = []
    for i, (label, responses, obs) in enumerate(steps):
        final = i == len(steps) - 1
        parts.append(enc_nstep(label, responses, obs, last, full=(final or i % 8 == 7)))
    body = T.lst(parts) if parts else '(@nil (nlabel * nobs))'
    return f'({pre},\n   {body})'


# ------------------------------------------------------------------ reporting
C01_NS_CLAUSES = {'bye_clean', 'stale_data', 'reattached', 'view_sync', 'fetch_label',
                  'expunge_range', 'exists_shrinks', 'expunge_in_nonuid', 'copy_target'}
C02_NS_CLAUSES = {'converge_uids', 'converge_flags', 'stale_data'}


def report(ctx, name: str, trace: Trace, mon: NsMonitor, clauses, meta: dict) -> None:
    labels = trace.labels()
    for f in mon.failures:
        if f['clause'] not in clauses:
            continue
        ctx.failure(f['clause'], '[namespace] ' + f['what'],
                    {'ns_labels': repr(labels[:f['step'] + 1]), 'nsess': meta.get('nsess'),
                     'session': f['session'], 'step': f['step'], 'generator': name, **meta},
                    f['obs'])
    for p in trace.problems:
        ctx.disagreement(name + ':' + p['kind'], {**p, 'labels': repr(labels)[:1500]})


class NsEval:
    """chk_ns on a batch of traces, started in a background thread (like store_check.CaseEval);
    `finish` books the result and reports disagreements."""

    def __init__(self, ctx, name: str, traces: list[Trace]) -> None:
        import threading
        from . import coqrun
        self.ctx, self.name, self.traces = ctx, name, traces
        self.cases = [enc_ns_case(t.setup, t.steps) for t in traces]
        self.res = None
        self.exc = None

        def work():
            try:
                self.res = coqrun.run_cases(ctx.prop, name, HEADER, 'ns_case', self.cases, 'chk_ns',
                                            shard=8, jobs=8)
            except BaseException as exc:
                self.exc = exc
        self.thread = threading.Thread(target=work, daemon=True)
        if self.cases:
            self.thread.start()

    def finish(self) -> list[int]:
        from . import coqrun
        ctx = self.ctx
        if not self.cases:
            return []
        self.thread.join()
        if self.exc is not None:
            ctx.broken.append(f'correspondence {self.name}: evaluation crashed: {self.exc!r}')
            return []
        res = self.res
        ctx.traces_validated += res['n'] - len(res['bad'])
        entry = {'name': self.name, 'cases': res['n'], 'disagreements': len(res['bad']),
                 'wall_s': res['wall_s']}
        ctx.corr.append(entry)
        if res['errors']:
            entry['errors'] = res['errors'][:3]
            ctx.broken.append(f'correspondence {self.name}: case file did not evaluate: '
                              + res['errors'][0][-800:])
        bad = res['bad']
        for b in bad[:4]:
            t = self.traces[b]
            fb = coqrun.eval_term(ctx.prop, 'nsfb', HEADER, f'nfirst_bad {self.cases[b]}')
            m = re.search(r'Some (\d+)', fb)
            detail = {'labels': repr(t.labels())[:3000]}
            if m:
                k = int(m.group(1))
                dg = coqrun.eval_term(ctx.prop, 'nsdg', HEADER, f'ndiag {self.cases[b]} {k}%nat')
                mo = coqrun.eval_term(ctx.prop, 'nsmo', HEADER, f'nmodel_out {self.cases[b]} {k}%nat')
                detail.update({
                    'first_bad_step': k, 'label': repr(t.steps[k][0]),
                    'impl_responses': repr(t.steps[k][1]),
                    'impl_names_closed': repr((t.steps[k][2]['names'], t.steps[k][2]['closed'])),
                    'which (label_ok, responses, selections, mailboxes, names, closed)': dg[-90:],
                    'model': ' '.join(mo.split())[:1500]})
            ctx.disagreement(self.name, detail)
        return bad
