"""Instrumented await points (dict backend, harness process only).

Under asyncio a dict-backend command body never yields (measured on every
command, store_env.AConn), so the label sequences of the Store model are all
the interleavings that backend can show.  The code nevertheless *has* await
points inside a command — `await mbx.snapshot()`, `await mbx.update_selected()`,
`await mailbox_set.get_mailbox()`, `await mbx.append()` ... — which are real
suspension points on the maildir backend with its thread pool and on redis.
This module explores them: the awaited backend coroutine is wrapped so that
the connection task of session A can be held right before or right after the
real call while other sessions run whole commands, then A resumes.  Nothing
but the suspension (and, for the roll-back family, one injected OSError) is
added.  These traces are outside the atomic-step model: they run under the
model-independent monitors only (shadow clients, probe).

  Gate(method, when, nth=1, fail_nth=None)
  install() / uninstall()            wrap / restore the dict backend's coroutines
  run_window(run, trace, a_label, gate, b_labels, hooks) -> bool (window reached)
  select_window_trace(...), failed_append_trace(...)   the two families
"""
from __future__ import annotations

import asyncio

ACTIVE: 'Gate | None' = None
_ORIG: dict = {}

METHODS = ('get_mailbox', 'snapshot', 'update_selected', 'append')


class Gate:
    """Holds the first task that reaches the `nth` call of `method` (counted per
    task: the task of the command under test), `when` = 'before' | 'after' the
    real call; `fail_nth`: that call of `method` raises OSError instead."""

    def __init__(self, method: str, when: str, nth: int = 1, fail_nth: int | None = None) -> None:
        self.method = method
        self.when = when
        self.nth = nth
        self.fail_nth = fail_nth
        self.task = None
        self.calls = 0
        self.reached = asyncio.Event()
        self.release = asyncio.Event()

    async def at(self, method: str, when: str) -> None:
        if method != self.method:
            return
        task = asyncio.current_task()
        if self.task is None:
            self.task = task
        if task is not self.task:
            return
        if when == 'before':
            self.calls += 1
            if self.fail_nth is not None and self.calls == self.fail_nth:
                raise OSError('injected by the harness')
        if when == self.when and self.calls == self.nth and not self.reached.is_set():
            self.reached.set()
            await self.release.wait()


def _wrap(orig, name):
    async def wrapped(self, *a, **kw):
        g = ACTIVE
        if g is not None:
            await g.at(name, 'before')
        ret = await orig(self, *a, **kw)
        if g is not None:
            await g.at(name, 'after')
        return ret
    wrapped.__name__ = orig.__name__
    return wrapped


def install() -> None:
    from pymap.backend.dict.mailbox import MailboxData, MailboxSet
    if _ORIG:
        return
    for cls, meth in ((MailboxSet, 'get_mailbox'), (MailboxData, 'snapshot'),
                      (MailboxData, 'update_selected'), (MailboxData, 'append')):
        _ORIG[(cls, meth)] = cls.__dict__[meth]
        setattr(cls, meth, _wrap(cls.__dict__[meth], meth))


def uninstall() -> None:
    global ACTIVE
    ACTIVE = None
    for (cls, meth), orig in _ORIG.items():
        setattr(cls, meth, orig)
    _ORIG.clear()


async def run_window(run, trace, a_label, gate: Gate, b_labels, hooks) -> bool:
    """Start a_label, hold it at the gate, run b_labels to completion, resume.
    The steps are recorded in the order their answers were complete."""
    global ACTIVE
    from .store_trace import exec_label
    ACTIVE = gate
    ta = asyncio.ensure_future(run.do(a_label))
    tr = asyncio.ensure_future(gate.reached.wait())
    try:
        await asyncio.wait({ta, tr}, return_when=asyncio.FIRST_COMPLETED, timeout=10)
        hit = gate.reached.is_set()
        if hit:
            for bl in b_labels:
                await exec_label(run, trace, bl, hooks)
        gate.release.set()
        label, responses, raw = await ta
    finally:
        ACTIVE = None
        gate.release.set()
        tr.cancel()
    trace.steps.append((label, responses, run.observe()))
    trace.raws.append(raw)
    for h in hooks:
        h(run, trace, len(trace.steps) - 1, label, responses, raw)
    return hit


LEARN = ('fetch', [(1, '*')], False, True, False)

# the command under test (session 1), the window, what session 2 does inside it
A_COMMANDS = {
    'select': ('select', 1, False),
    'examine': ('select', 1, True),
    'noop': ('noop',),
    'check': ('check',),
    'fetch': ('fetch', [(1, '*')], False, False, False),
    'store': ('store', [1], False, 'add', [5], False),
}
POINTS = [('get_mailbox', 'after'), ('snapshot', 'after'),
          ('update_selected', 'before'), ('update_selected', 'after')]
B_COMMANDS = {
    'append': [('append', 1, [([4], 700)], None)],
    'expunge': [('store', [1], False, 'add', [2], True), ('expunge', None)],
    'expunge_last': [('store', ['*'], False, 'add', [2], True), ('expunge', None)],
    'flag': [('store', [2], False, 'add', [4], False)],
    'move': [('move', [1], False, 2, None)],
}


async def select_window_trace(a_name: str, point, b_name: str, *, preselected: bool = True):
    """Session 2 runs B_COMMANDS[b_name] while session 1's A_COMMANDS[a_name] is held at
    `point`; then both poll and everybody is compared with the probe."""
    from .store_check import Monitored
    from .store_env import StoreRun
    from .store_trace import Trace, exec_label
    mon = Monitored(0)
    run = await StoreRun().start([1, 2])
    trace = Trace()
    trace.setup = run.setup_labels()
    hooks = (mon.hook,)
    try:
        if preselected or a_name not in ('select', 'examine'):
            await exec_label(run, trace, ('cmd', 1, ('select', 1, False)), hooks)
            await exec_label(run, trace, ('cmd', 1, LEARN), hooks)
        await exec_label(run, trace, ('cmd', 2, ('select', 1, False)), hooks)
        await exec_label(run, trace, ('cmd', 2, LEARN), hooks)
        gate = Gate(point[0], point[1])
        hit = await run_window(run, trace, ('cmd', 1, A_COMMANDS[a_name]), gate,
                               [('cmd', 2, c) for c in B_COMMANDS[b_name]], hooks)
        await exec_label(run, trace, ('cmd', 1, ('noop',)), hooks)
        await exec_label(run, trace, ('cmd', 1, ('fetch', [(1, '*')], False, True, False)), hooks)
        await exec_label(run, trace, ('cmd', 2, ('noop',)), hooks)
        await mon.checkpoint(run, trace, 0, force=True)
    finally:
        await run.close()
    return trace, mon, hit


async def failed_append_trace(nmsgs: int, fail_at: int, observer_cmds, *, appender_selected: bool):
    """Session 1 appends `nmsgs` messages to INBOX in one command; the `fail_at`-th
    MailboxData.append raises; after the first message has been stored session 2 (the
    observer, INBOX selected) runs observer_cmds; session 3 looks only afterwards."""
    from .store_check import Monitored
    from .store_env import StoreRun
    from .store_trace import Trace, exec_label
    mon = Monitored(0)
    run = await StoreRun().start([1, 2, 3])
    trace = Trace()
    trace.setup = run.setup_labels()
    hooks = (mon.hook,)
    hit = False
    try:
        for s in (2, 3) + ((1,) if appender_selected else ()):
            await exec_label(run, trace, ('cmd', s, ('select', 1, False)), hooks)
            await exec_label(run, trace, ('cmd', s, LEARN), hooks)
        gate = Gate('append', 'after', nth=1, fail_nth=fail_at)
        msgs = [([4], 800 + i) for i in range(nmsgs)]
        hit = await run_window(run, trace, ('cmd', 1, ('append', 1, msgs, None)), gate,
                               [('cmd', 2, c) for c in observer_cmds], hooks)
        # the failing connection is gone (BYE [SERVERBUG]): the others go on
        lab, resp, _ = trace.steps[-1]
        if any(r[0] == 'bye' for r in resp) or not any(r[0] == 'tagged' for r in resp):
            run.conns.pop(1, None)
            run.states.pop(1, None)
            mon.shadows.pop(1, None)
        for s in (2, 3):
            await exec_label(run, trace, ('cmd', s, ('noop',)), hooks)
        await exec_label(run, trace, ('cmd', 3, ('append', 1, [([5], 850)], None)), hooks)
        await mon.checkpoint(run, trace, 0, force=True)
    finally:
        await run.close()
    trace.problems = [p for p in trace.problems if p.get('kind') != 'unparsed_or_bye']
    return trace, mon, hit
