"""Shared frame of every property check: proof re-check, correspondence,
monitors, known findings, evidence, exit status."""
from __future__ import annotations

import hashlib
import json
import os
import random
import sys
import time
import traceback

from . import coqrun

VERIF = coqrun.VERIF
KNOWN = os.path.join(VERIF, 'known_findings.jsonl')


def load_known() -> list[dict]:
    res = []
    if os.path.exists(KNOWN):
        for line in open(KNOWN):
            line = line.strip()
            if line and not line.startswith('#'):
                res.append(json.loads(line))
    return res


class Ctx:
    def __init__(self, prop: str, tier: str, seed: int, replay: str | None = None):
        self.prop = prop
        self.tier = tier
        self.seed = seed
        self.replay = replay
        self.rng = random.Random(f'{prop}-{seed}')
        self.t0 = time.time()
        self.known = [k for k in load_known() if k.get('property') == prop]
        self.violations: list[dict] = []      # unlisted failures
        self.known_hits: dict[str, dict] = {}  # finding id -> first observation
        self.obligations = 0
        self.discharged = 0
        self.theorems: list[dict] = []
        self.axioms: list[str] = []
        self.trusted_base: list[str] = []
        self.assumptions: list[str] = []
        self.evaluations = 0
        self._distinct: set[str] = set()
        self.samples: list = []
        self.traces_validated = 0
        self.corr: list[dict] = []
        self.extra: dict = {}
        self.rule = ''
        self.checker_cmd = ''
        self.exhaustive = False
        self.proof_ok = False
        self.broken: list[str] = []   # names of proof obligations / correspondences that no longer check

    @property
    def quick(self) -> bool:
        return self.tier == 'quick'

    def scale(self, quick: int, thorough: int) -> int:
        return quick if self.quick else thorough

    # ---------------------------------------------------------------- proof
    def check_proofs(self, extra_targets: list[str] | None = None) -> bool:
        """Build Props/<prop>.v, the checker files named in `extra_targets`
        (e.g. ['Wire/SeqSetCheck']) and everything they depend on; re-check
        Props/<prop>.v with Print Assumptions; forbidden-token scan."""
        targets = [f'theories/Props/{self.prop}'] + \
            [f'theories/{t}' for t in (extra_targets or [])]
        if os.environ.get('VERIF_FULL_BUILD') == '1':
            targets = None
        ok, log = coqrun.build(targets=targets)
        hits = coqrun.forbidden_scan(targets)
        self.extra['development_files'] = coqrun.closure(targets) if targets else coqrun.all_v_files()
        if hits:
            self.broken.append('forbidden tokens in the development: ' + '; '.join(hits[:10]))
        if not ok:
            self.broken.append('Coq build failed: ' + log[-1500:])
        res = coqrun.check_prop_file(self.prop)
        self.theorems = res['theorems']
        self.axioms = res['axioms']
        import re
        src_path = os.path.join(coqrun.COQ, res['file'])
        n_thm = 0
        if os.path.exists(src_path):
            src = coqrun._strip_comments(open(src_path).read())
            n_thm = len(re.findall(r'^\s*(?:Theorem|Lemma|Corollary)\s', src, re.M))
        self.obligations = n_thm
        self.discharged = len(res['theorems']) if res['ok'] else 0
        self.checker_cmd = (f'make -C coq (full .vo build of {len(coqrun.all_v_files())} files) && '
                            f'coqc -Q theories PV {res["file"]} (Print Assumptions under every theorem)')
        if not res['ok']:
            self.broken.append(f'{res["file"]} does not check: ' + res['log'][-1500:])
        self.proof_ok = ok and res['ok'] and not hits
        self.trusted_base = [
            'Coq 8.16.1 kernel (coqc; vm_compute used for finite sweeps, witnesses and case evaluation; no native_compute)',
            'axioms per Print Assumptions: ' + (', '.join(self.axioms) if self.axioms else 'none (every theorem closed under the global context)'),
            'hand-written Gallina model tied to /repo by the correspondence check of this run (differential testing: validates the model on the generated cases only)',
            'Python harness: in-process fake transport, generators, canonicalisers, monitors; CPython 3.12 + stdlib as the semantics of the implementation side',
        ]
        if self.tier == 'thorough' and self.proof_ok and os.environ.get('VERIF_COQCHK', '1') == '1':
            okc, outc = coqrun.coqchk(self.prop)
            self.extra['coqchk'] = {'ok': okc, 'tail': outc[-1200:]}
            if not okc:
                self.broken.append('coqchk failed: ' + outc[-800:])
                self.proof_ok = False
        return self.proof_ok

    # ------------------------------------------------------- correspondence
    def run_cases(self, name: str, header: str, typ: str, cases: list[str],
                  checker: str, descr: list | None = None, **kw) -> list[int]:
        """Model-vs-implementation correspondence on generated cases; the
        expected outputs observed on the implementation are inside each case
        term and `checker` recomputes them with the model in Coq."""
        if not cases:
            return []
        res = coqrun.run_cases(self.prop, name, header, typ, cases, checker, **kw)
        self.traces_validated += res['n'] - len(res['bad'])
        entry = {'name': name, 'cases': res['n'], 'disagreements': len(res['bad']),
                 'wall_s': res['wall_s']}
        self.corr.append(entry)
        if res['errors']:
            entry['errors'] = res['errors'][:3]
            self.broken.append(f'correspondence {name}: case file did not evaluate: '
                               + res['errors'][0][-800:])
        return res['bad']

    def count(self, key, nontrivial: bool = True) -> None:
        self.evaluations += 1
        if nontrivial:
            h = hashlib.blake2b(repr(key).encode('utf-8', 'replace'), digest_size=8).hexdigest()
            self._distinct.add(h)

    def sample(self, obj, limit: int = 6) -> None:
        if len(self.samples) < limit:
            self.samples.append(obj)

    # ------------------------------------------------------------- verdicts
    def write_replay(self, obj: dict, tag: str = '') -> str:
        d = os.path.join(VERIF, 'replays')
        os.makedirs(d, exist_ok=True)
        h = hashlib.blake2b(json.dumps(obj, sort_keys=True, default=repr).encode(),
                            digest_size=5).hexdigest()
        path = os.path.join(d, f'{self.prop}-{tag or "v"}-{h}.json')
        obj = dict(obj)
        obj.setdefault('property', self.prop)
        obj.setdefault('seed', self.seed)
        obj.setdefault('replay_cmd', f'./check {self.prop} --replay {path}')
        with open(path, 'w') as f:
            json.dump(obj, f, indent=1, default=repr)
        return path

    def failure(self, clause: str, what: str, replay: dict, obs: dict | None = None) -> None:
        """A monitor saw the property fail on the implementation.  It is a
        KNOWN-FINDING when clause and class match an open entry of
        known_findings.jsonl, else a VIOLATION with a concrete replay."""
        obs = obs or {}
        for k in self.known:
            if k.get('status') != 'open' or k.get('clause') != clause:
                continue
            if _class_matches(k, obs):
                self.known_hits.setdefault(k['id'], {'what': k.get('what', what), 'first': what})
                return
        if len(self.violations) < 20:
            replay = dict(replay)
            replay.update({'clause': clause, 'what': what, 'observation': obs,
                           'failing_input_found': True})
            self.violations.append({'clause': clause, 'what': what,
                                    'path': self.write_replay(replay, clause)})

    def disagreement(self, name: str, detail: dict) -> None:
        """Model and implementation differ (or a proof no longer checks) and no
        monitor produced a concrete property failure for it."""
        self.broken.append(f'correspondence {name}: ' + json.dumps(detail, default=repr)[:600])
        self.extra.setdefault('disagreements', []).append({'name': name, **detail})

    # --------------------------------------------------------------- finish
    def finish(self) -> int:
        wall = time.time() - self.t0
        for fid, hit in sorted(self.known_hits.items()):
            print(f'KNOWN-FINDING: property={self.prop} {fid} {hit["what"]}')
        rc = 0
        lines = []
        for v in self.violations:
            lines.append(f'VIOLATION property={self.prop} replay={v["path"]}')
        if self.broken and not self.violations:
            path = self.write_replay({'failing_input_found': False,
                                      'no_longer_checks': self.broken,
                                      'disagreements': self.extra.get('disagreements', [])},
                                     'unproved')
            lines.append(f'VIOLATION property={self.prop} replay={path} no-failing-input-found')
        if lines:
            rc = 1
            for ln in lines[:5]:
                print(ln)
            for b in self.broken[:5]:
                print('  broken:', b[:400].replace('\n', ' | '))
            for v in self.violations[:5]:
                print('  failing:', v['clause'], '-', v['what'][:300])
        ev = {
            'property_id': self.prop,
            'tier': self.tier,
            'seed': self.seed,
            'level': 'proof',
            'coverage': {
                'obligations': self.obligations,
                'discharged': self.discharged,
                'checker_cmd': self.checker_cmd or 'not run',
                'trusted_base': self.trusted_base,
                'theorems': self.theorems,
                'evaluations': self.evaluations,
                'distinct_nontrivial': len(self._distinct),
                'rule': self.rule,
                'samples': self.samples or ['(none)'],
                'traces_validated_against_impl': self.traces_validated,
                'correspondence': self.corr,
                'exhaustive': self.exhaustive,
                'known_findings_seen': sorted(self.known_hits),
                **self.extra,
            },
            'assumptions': self.assumptions,
            'wall_s': round(wall, 2),
            'violations': len(lines),
        }
        # evidence belongs to /repo itself; runs against a scratch worktree
        # (VERIF_REPO=...) leave it alone
        evdir = os.path.join(VERIF, 'evidence')
        if os.path.realpath(os.environ.get('VERIF_REPO', '/repo')) != '/repo':
            evdir = os.path.join(VERIF, '.work', 'evidence-scratch')
        os.makedirs(evdir, exist_ok=True)
        with open(os.path.join(evdir, f'{self.prop}.json'), 'w') as f:
            json.dump(ev, f, indent=1, default=repr)
        if rc == 0 and os.environ.get('VERIF_KEEP_CASES') != '1':
            import shutil
            shutil.rmtree(coqrun.case_dir(self.prop), ignore_errors=True)
        print(f'{self.prop} {self.tier}: theorems {self.discharged}/{self.obligations}, '
              f'correspondence cases {sum(c["cases"] for c in self.corr)}, '
              f'evaluations {self.evaluations} ({len(self._distinct)} distinct non-trivial), '
              f'known findings {len(self.known_hits)}, violations {len(lines)}, {wall:.1f}s')
        return rc


def _class_matches(k: dict, obs: dict) -> bool:
    """An open finding matches when every key of its `match` object equals
    the observation's value (lists = any-of)."""
    m = k.get('match', {})
    for key, want in m.items():
        got = obs.get(key)
        if isinstance(want, list):
            if got not in want:
                return False
        elif got != want:
            return False
    return True


def main(argv=None) -> int:
    import argparse
    import importlib
    ap = argparse.ArgumentParser()
    ap.add_argument('prop')
    ap.add_argument('--tier', default=os.environ.get('VERIF_TIER') or 'quick',
                    choices=['quick', 'thorough'])
    ap.add_argument('--replay', default=None)
    args = ap.parse_args(argv)
    seed = int(os.environ.get('VERIF_SEED') or 1)
    from .pymap_env import assert_repo_import
    assert_repo_import()
    ctx = Ctx(args.prop, args.tier, seed, args.replay)
    try:
        mod = importlib.import_module(f'harness.props.{args.prop}')
    except ModuleNotFoundError:
        print(f'HARNESS-ERROR: no check module for {args.prop}')
        return 2
    try:
        if args.replay:
            return mod.replay(ctx, json.load(open(args.replay)))
        mod.run(ctx)
    except SystemExit:
        raise
    except BaseException:
        traceback.print_exc()
        ctx.broken.append('check crashed: ' + traceback.format_exc()[-1500:])
    return ctx.finish()
