"""C08 — mailbox names cannot reach outside the user's own mail store.

Model: coq/theories/Namespace/Paths.v (os.path.join/normpath, the two maildir
layouts' path construction behind the name guard of layout._split, the
name-derived directories each command touches), theorems in Props/C08.v.
Correspondence: every path the real backend touches while one user's command
runs (os.* / open wrapped in this process) is reduced to the folder directory
it belongs to and compared with Paths.anchors; posixpath.join/normpath and
layout.get_path are compared on their own.  Monitor: every touched path,
normalised, is the user's directory or inside it (mutations strictly inside),
the other user's tree and the credential files are byte-identical afterwards;
on the dict backend another user's namespace never changes.

Round 5: before the proofs are built, Namespace/LayoutGen.v and LayoutFxGen.v are
regenerated from layout.py of the repo under check (harness/translate_layout.py,
translate_layout_fx.py; harness/layoutgen.py holds a lock for the whole run);
families layout_gen / layout_fx validate the generated definitions against the
real functions (harness/layoutgen.py, layoutfx.py); section clone
(harness/c08_clone.py) monitors two users whose maildirs are byte copies of each
other with interleaved commands.

The maildir store is always a fresh tempfile.mkdtemp() directory.
"""
from __future__ import annotations

import builtins
import os
import posixpath
import shutil
import sys
import tempfile

from .. import coqterm as T
from .. import nsutil as U
from . import C11 as NS

HEADER = ('From PV Require Import Base.Prelude Namespace.Glob Namespace.NsBase '
          'Namespace.ListTree Namespace.NsModel Namespace.MdModel Namespace.NsCheck '
          'Namespace.Paths Namespace.PathsCheck.\n')

MSG = NS.MSG


# =====================================================================
# filesystem tracer
# =====================================================================
READS = ('stat', 'lstat', 'listdir', 'scandir', 'access', 'readlink')
WRITES = ('rename', 'replace', 'remove', 'unlink', 'mkdir', 'makedirs', 'rmdir', 'link',
          'symlink', 'utime', 'chmod', 'truncate', 'mkfifo', 'removedirs', 'renames')


class Tracer:
    """Logs every path handed to os.* / open while `on`; while `sandbox` is
    set, refuses (PermissionError) any creating/renaming/removing call whose
    target lies outside that directory, so that a hostile name on a tree whose
    guard is missing cannot damage anything but the sacrificial store."""

    def __init__(self) -> None:
        self.on = False
        self.log: list = []        # (fn, kind 'r'|'w', path)
        self.sandbox: str | None = None
        self.blocked: list = []
        self._saved = {}

    def _rec(self, fn, kind, p) -> None:
        if not isinstance(p, (str, bytes, os.PathLike)):
            return
        p = os.fspath(p)
        if isinstance(p, bytes):
            p = p.decode('utf-8', 'surrogateescape')
        if self.on:
            self.log.append((fn, kind, p))
        if kind == 'w' and self.sandbox is not None:
            np = posixpath.normpath(posixpath.join(os.getcwd(), p))
            if not (np == self.sandbox or np.startswith(self.sandbox + '/')) and not is_tmpfile(np):
                self.blocked.append((fn, p))
                raise PermissionError(13, 'verif sandbox: refusing to touch a path outside the '
                                      'sacrificial store', p)

    def install(self) -> None:
        if self._saved:
            return
        tr = self

        def wrap(name, kind, nargs=1):
            orig = getattr(os, name)
            self._saved[('os', name)] = orig

            def w(*a, **k):
                for x in a[:nargs]:
                    tr._rec(name, kind, x)
                for key in ('path', 'src', 'dst'):
                    if key in k:
                        tr._rec(name, kind, k[key])
                return orig(*a, **k)
            w.__name__ = name
            setattr(os, name, w)
        for n in READS:
            if hasattr(os, n):
                wrap(n, 'r')
        for n in WRITES:
            if hasattr(os, n):
                wrap(n, 'w', 2 if n in ('rename', 'replace', 'link', 'symlink', 'renames') else 1)
        orig_os_open = os.open
        self._saved[('os', 'open')] = orig_os_open

        def os_open(path, flags, *a, **k):
            wr = flags & (os.O_WRONLY | os.O_RDWR | os.O_CREAT | os.O_TRUNC | os.O_APPEND)
            tr._rec('os.open', 'w' if wr else 'r', path)
            return orig_os_open(path, flags, *a, **k)
        os.open = os_open
        orig_open = builtins.open
        self._saved[('builtins', 'open')] = orig_open

        def b_open(file, mode='r', *a, **k):
            # NamedTemporaryFile calls io.open(dir, ..., opener=...): the file is
            # really created by os.open inside the opener, which is logged
            if not isinstance(file, int) and not k.get('opener'):
                tr._rec('open', 'w' if any(c in mode for c in 'wxa+') else 'r', file)
            return orig_open(file, mode, *a, **k)
        builtins.open = b_open
        import io
        self._saved[('io', 'open')] = io.open
        io.open = b_open

    def uninstall(self) -> None:
        import io
        for (mod, name), orig in self._saved.items():
            setattr({'os': os, 'builtins': builtins, 'io': io}[mod], name, orig)
        self._saved = {}

    def take(self) -> list:
        out, self.log = self.log, []
        return out


TRACER = Tracer()

INTERNAL = ('cur', 'new', 'tmp', 'maildirfolder', 'dovecot-uidlist', 'dovecot-uidlist.lock',
            'dovecot-keywords', 'dovecot-keywords.lock')
ROOT_FILES = INTERNAL + ('subscriptions', 'subscriptions.lock', 'dovecot.sieve')


def exempt_read(np: str) -> bool:
    """reads the Python runtime itself makes (lazy imports, zoneinfo, ...)"""
    pre = [sys.prefix, sys.base_prefix, '/usr/lib', '/usr/share', '/usr/local/lib', '/venv',
           os.path.realpath(os.environ.get('VERIF_REPO', '/repo')), '/verif/harness', '/etc/localtime']
    return any(np == p or np.startswith(p.rstrip('/') + '/') for p in pre)


def is_tmpfile(np: str) -> bool:
    d = os.path.realpath(tempfile.gettempdir())
    if np == d:
        return True      # NamedTemporaryFile: io.open(dir, opener=...) names the directory
    return os.path.dirname(np) == d and os.path.basename(np).startswith('tmp') \
        and len(os.path.basename(np)) == 11


CONTROL = ('dovecot-uidlist', 'dovecot-keywords', 'subscriptions')


def _internal(c: str) -> bool:
    # control files and their temporary siblings '<name>.<random>'
    return c in INTERNAL or c in ROOT_FILES or any(c.startswith(x + '.') for x in CONTROL)


def reduce_anchor(layout: str, root: str, raw: str):
    """-> None (structural: the root and its fixed files) or the folder
    directory this path belongs to (raw spelling kept)"""
    if raw == root or raw == root + '/':
        return None
    if not raw.startswith(root + '/'):
        return raw
    rel = raw[len(root) + 1:]
    comps = rel.split('/')
    if layout == '++':
        if _internal(comps[0]):
            return None
        return root + '/' + comps[0]
    # fs: strip the maildir-internal tail
    for i, c in enumerate(comps):
        if _internal(c) and (i == len(comps) - 1 or (c in ('cur', 'new', 'tmp') and i == len(comps) - 2)):
            comps = comps[:i]
            break
    if not comps:
        return None
    return root + '/' + '/'.join(comps)


# =====================================================================
# generators
# =====================================================================
HOSTILE = ['', '.', '..', 'u2', 'cur', 'new', 'tmp', 'a', 'b', 'INBOX', 'inbox', 'pymap-etc-passwd',
           'pymap-etc-shadow', 'subscriptions', 'dovecot-uidlist', '.a', 'a.b', '...', '. .', '\x00',
           'a\x00b', 'é', '&', '&-', '~', '$HOME', '%', '*', ' ', '\\', '..\\u2', 'u1', '.u2',
           '.INBOX', '..u2', '日本', 'a\nb', '\r', '{1}', '"', "'", 'x' * 40, '\ud83d', 'a\udc00', '..\udfff']


# compatibility / look-alike spellings of '.', '..', '/' and '\\' and of the
# guard's forbidden parts: harmless as typed, dangerous if anything between the
# validation and the path construction normalises, case-folds or strips them
DOT_LIKE = ['\u2024', '\uff0e', '\ufe52', '\u3002', '\uff61', '.\u200b', '\u200b.', '.\u0307', '\u00b7']
DOTDOT_LIKE = ['\u2025', '\u2024\u2024', '\uff0e\uff0e', '\ufe52\ufe52', '.\uff0e', '\u2024.', '.\u200b.',
               '..\u200b', '\ufeff..', '.\u200d.', '..\u0301', '\u2026', '. .', '.. ', ' ..', '..\u00a0']
SLASH_LIKE = ['\uff0f', '\u2215', '\u29f8', '\u2044', '\uff3c', '\\', '\u2216']
RESERVED_LIKE = ['\uff43\uff55\uff52', 'CUR', 'Cur', '\uff4e\uff45\uff57', 'TMP', '\uff34\uff2d\uff30',
                 '\uff29\uff2e\uff22\uff2f\uff38', '\u017fubscriptions', 'SUBSCRIPTIONS', 'Maildirfolder',
                 'dovecot\u2010uidlist', 'DOVECOT-UIDLIST', 'cur\u200b', 'new.', 'tmp ']
INBOX_EDGE = ['INBOX/', 'inbox/', 'Inbox/', 'INBOX//', '/INBOX', 'INBOX/.', 'INBOX/..', './INBOX', 'INBOX ',
              ' INBOX', 'INBOX\u200b', '\uff29\uff2e\uff22\uff2f\uff38/', 'INBOX/\u200b', '//INBOX', 'inbox//']


def lookalike_names() -> list:
    out = []
    for dd in DOTDOT_LIKE:
        out += [dd, f'{dd}/u2', f'{dd}/u2/keep', f'a/{dd}/{dd}/u2', f'{dd}/{dd}/x', f'{dd}/pymap-etc-passwd',
                f'a/{dd}', f'{dd}/u1/a']
    for d in DOT_LIKE:
        out += [d, f'{d}/a', f'a/{d}', d + d, f'{d}{d}/u2', f'{d}./u2', f'.{d}/u2']
    for sl in SLASH_LIKE:
        out += [f'..{sl}u2', f'a{sl}..{sl}..{sl}u2', f'{sl}', f'a{sl}b', f'..{sl}u2{sl}keep', f'{sl}etc{sl}passwd',
                f'..{sl}', f'.{sl}..']
    out += RESERVED_LIKE + [f'a/{x}' for x in RESERVED_LIKE[:6]]
    return out


LOOKALIKES = lookalike_names()


def gen_hostile(rng, pool=None) -> str:
    r = rng.random()
    if r < 0.14:
        return rng.choice(LOOKALIKES)
    if r < 0.20:
        # a look-alike component in a random position of an ordinary path
        parts = rng.choices(['a', 'b', 'u2', '..', '.', 'keep'], k=rng.choice([1, 2, 3]))
        parts.insert(rng.randrange(len(parts) + 1),
                     rng.choice(DOT_LIKE + DOTDOT_LIKE + SLASH_LIKE + RESERVED_LIKE))
        return '/'.join(parts)
    if r < 0.25:
        return rng.choice(INBOX_EDGE)
    r = rng.random()
    if pool and r < 0.25:
        return rng.choice(pool)
    if r < 0.33:
        return rng.choice(['.', '/', '', '..', '../u2', '../u2/cur', '../../etc', '/etc/passwd', '//',
                           './a', 'a/..', 'a/../..', 'a/../../u2', '../pymap-etc-passwd', '..u2',
                           '.u2', 'a/./b', 'a//b', '/a', 'a/', '../u1', '../u1/a', 'u2', './/', '...',
                           '../u2/.a', '.', 'cur', 'new/a', 'tmp', 'a/cur', 'a/tmp/b',
                           '../../x', 'a/../../../x'])
    k = rng.choice([1, 1, 2, 2, 3, 4])
    weights = [4 if p in ('', '.', '..', 'a', 'b', 'u2') else 1 for p in HOSTILE]
    n = '/'.join(rng.choices(HOSTILE, weights=weights, k=k))
    if rng.random() < 0.1:
        n = rng.choice(['/' + n, n + '/', n.replace('/', '//', 1)])
    return n


def wire_name_b64(s: str) -> bytes:
    """the same name spelled with every character inside a base64 run (what a
    hostile client may send to get a '/' or '.' past a naive filter)"""
    import base64
    if not s:
        return b'""'
    raw = s.encode('utf-16-be', 'surrogatepass')
    return b'"&' + base64.b64encode(raw).rstrip(b'=').replace(b'/', b',') + b'-"'


def fixed_programs() -> list:
    """deterministic sweeps, run on both layouts on every tier: every spelling of
    INBOX with a stray delimiter in every destructive/creating position, and
    every look-alike of '..' aimed at the sibling user"""
    progs = []
    for e in INBOX_EDGE:
        progs.append([('append', 'INBOX'), ('select', e), ('status', e), ('rename', e, 'zz'), ('delete', e),
                      ('create', e), ('rename', 'INBOX', e), ('append', e), ('copy', e), ('delete', e),
                      ('status', 'INBOX')])
    chunk = []
    for n in LOOKALIKES:
        chunk += [('select', n), ('create', n), ('delete', n)]
        if len(chunk) >= 30:
            progs.append([('append', 'INBOX')] + chunk)
            chunk = []
    if chunk:
        progs.append([('append', 'INBOX')] + chunk)
    return progs


def gen_cmds(rng, tame_share: float) -> list:
    pool = []
    cmds = [('append', 'INBOX')]
    for _ in range(rng.randint(6, 12)):
        r = rng.random()
        hostile = rng.random() > tame_share

        def nm():
            if rng.random() < 0.06:
                return rng.choice(INBOX_EDGE)
            if hostile:
                return gen_hostile(rng, pool)
            return NS.gen_name(rng, pool, tame=1.0)
        if r < 0.22:
            n = nm()
            cmds.append(('create', n))
            pool.append(n)
        elif r < 0.36:
            cmds.append(('delete', nm()))
        elif r < 0.52:
            a, b = nm(), nm()
            if pool and rng.random() < 0.5:
                a = rng.choice(pool)
            cmds.append(('rename', a, b))
            pool.append(b)
        elif r < 0.58:
            cmds.append(('subscribe', nm()))
        elif r < 0.62:
            cmds.append(('unsubscribe', nm()))
        elif r < 0.70:
            cmds.append(('status', nm()))
        elif r < 0.77:
            cmds.append(('select', nm()))
        elif r < 0.84:
            cmds.append(('append', nm()))
        elif r < 0.91:
            cmds.append(('copy', nm()))
        else:
            cmds.append((rng.choice(['list', 'lsub']), nm(), rng.choice(['*', '%', '', '../*', '*/..', nm()])))
    return cmds


# =====================================================================
# driving the implementation
# =====================================================================
def snapshot(base: str, skip: str) -> dict:
    out = {}
    for dp, dns, fns in os.walk(base):
        if dp == skip or dp.startswith(skip + '/'):
            dns[:] = []
            continue
        out[dp] = 'dir'
        for f in fns:
            p = os.path.join(dp, f)
            try:
                with open(p, 'rb') as fh:
                    out[p] = fh.read()
            except OSError as exc:
                out[p] = repr(exc)
    return out


async def run_md_program(layout: str, cmds, spell_b64: bool):
    """-> (root, [(cmd, cond code, trace)], before/after snapshots, base)"""
    from ..pymap_env import MaildirEnv
    base = os.path.realpath(tempfile.mkdtemp(prefix='pymapverif-c08-'))
    assert not base.startswith('/repo') and not base.startswith('/verif')
    env = await MaildirEnv(layout, users=(('u1', 'pass'), ('u2', 'pass')), base_dir=base).start()
    TRACER.sandbox = base
    TRACER.blocked = []
    try:
        # provision both users' stores, give u2 a folder and a message
        c2 = await env.login(b'u2', b'pass')
        await c2.cmd(b'p1 CREATE keep\r\n')
        await c2.cmd(b'p2 APPEND keep {%d}\r\n' % len(MSG) + MSG + b'\r\n')
        await c2.cmd(b'p3 SUBSCRIBE keep\r\n')
        await c2.send(b'p4 LOGOUT\r\n')
        main = await env.login(b'u1', b'pass')
        aux = await env.login(b'u1', b'pass')
        await aux.cmd(b'w0 APPEND INBOX {%d}\r\n' % len(MSG) + MSG + b'\r\n')
        await aux.cmd(b'w1 SELECT INBOX\r\n')
        await main.cmd(b'w2 LIST "" *\r\n')       # warm up lazy imports
        await main.cmd(b'w3 STATUS INBOX (MESSAGES)\r\n')
        root = os.path.join(base, 'u1')
        before = snapshot(base, root)
        steps = []
        k = 0
        gone = False
        for cmd in cmds:
          k += 1
          tag = b'h%d' % k
          try:
            if cmd[0] == 'copy':
                if aux.closed:
                    aux = await env.login(b'u1', b'pass')
                    await aux.cmd(b'w1 SELECT INBOX\r\n')
                conn = aux
                w = (wire_name_b64 if spell_b64 else U.wire_name)(cmd[1])
                line = tag + b' COPY 1 ' + w + b'\r\n'
            elif cmd[0] == 'select':
                conn = await env.login(b'u1', b'pass')
                w = (wire_name_b64 if spell_b64 else U.wire_name)(cmd[1])
                line = tag + b' EXAMINE ' + w + b'\r\n'
            else:
                if main.closed:
                    main = await env.login(b'u1', b'pass')
                conn = main
                if spell_b64 and cmd[0] not in ('list', 'lsub'):
                    line = NS.wire_cmd(tag, cmd, wire_name_b64)
                else:
                    line = NS.wire_cmd(tag, cmd)
            TRACER.take()
            TRACER.on = True
            try:
                resp = await conn.cmd(line)
            finally:
                TRACER.on = False
            trace = TRACER.take()
            cc = U.classify(resp, tag)
            if not gone and not (os.path.isdir(root) and os.path.isdir(os.path.join(root, 'cur'))):
                # the user's own INBOX directory has gone (reported once)
                trace.append(('ROOT-GONE', 'w', root))
                gone = True
            steps.append((cmd, cc, trace, resp, conn.exc))
            if cmd[0] == 'select' and not conn.closed:
                await conn.send(b'zz LOGOUT\r\n')

          except AssertionError as exc:
            # the store is so damaged that the user cannot log in any more
            TRACER.on = False
            steps.append((cmd, 996, TRACER.take(), b'', exc))
            break
        for c in (main, aux):
            if not c.closed:
                try:
                    await c.send(b'zz LOGOUT\r\n')
                except Exception:
                    pass
        after = snapshot(base, root)
        # the user can still log in and sees an INBOX
        try:
            fin = await env.login(b'u1', b'pass')
            r1 = await fin.cmd(b'f1 LIST "" INBOX\r\n')
            r2 = await fin.cmd(b'f2 STATUS INBOX (MESSAGES)\r\n')
            inbox_ok = b'f1 OK' in r1 and b'INBOX' in r1 and b'f2 OK' in r2 \
                and os.path.isdir(os.path.join(root, 'cur'))
            await fin.send(b'f3 LOGOUT\r\n')
        except (AssertionError, Exception):
            inbox_ok = False
        before['\x00inbox_ok'] = True
        after['\x00inbox_ok'] = inbox_ok
        return root, steps, before, after, base
    finally:
        TRACER.sandbox = None
        shutil.rmtree(base, ignore_errors=True)


def enc_cmd(cmd) -> str:
    k = cmd[0]
    one = {'create': 'KCreate', 'delete': 'KDelete', 'subscribe': 'KSubscribe',
           'unsubscribe': 'KUnsubscribe', 'status': 'KStatus', 'select': 'KSelect',
           'append': 'KAppend', 'copy': 'KCopy'}
    if k in one:
        return f'({one[k]} {U.enc_name(cmd[1])})'
    c = {'rename': 'KRename', 'list': 'KList', 'lsub': 'KLsub'}[k]
    return f'({c} {U.enc_name(cmd[1])} {U.enc_name(cmd[2])})'


def monitor_md(ctx, layout, root, steps, before, after, base, spell_b64) -> None:
    replay = {'layout': layout, 'spell_b64': spell_b64,
              'cmds': [list(c) for c, *_ in steps]}
    for i, (cmd, cc, trace, resp, exc) in enumerate(steps):
        if cc == 996:
            ctx.failure('isolation', f'[{layout}] after {steps[i - 1][0] if i else None!r} user u1 cannot log in '
                        f'any more: {exc!r}', dict(replay, step=i), {'kind': 'login_broken', 'layout': layout})
        for fn, kind, raw in trace:
            np = posixpath.normpath(raw)
            if is_tmpfile(np):
                continue       # NamedTemporaryFile of io.py (control-file rewrite), not name-derived
            inside = np == root or np.startswith(root + '/')
            if kind == 'r' and not inside and exempt_read(np):
                continue
            if not inside:
                ctx.failure('confined', f'[{layout}] {cmd!r}: {fn}({raw!r}) is outside the user directory {root!r}',
                            dict(replay, step=i), {'kind': 'outside_' + ('write' if kind == 'w' else 'read'),
                                                   'layout': layout})
            elif kind == 'w' and np == root:
                ctx.failure('delete_not_root', f'[{layout}] {cmd!r}: {fn}({raw!r}) changes/removes the user directory itself',
                            dict(replay, step=i), {'kind': 'root_itself', 'layout': layout})
    if not after.get('\x00inbox_ok', True):
        ctx.failure('delete_not_root', f'[{layout}] after the program user u1 cannot log in / has no INBOX any more',
                    replay, {'kind': 'inbox_gone', 'layout': layout})
    if before != after:
        diff = sorted(set(k for k in set(before) | set(after) if before.get(k) != after.get(k)))
        ctx.failure('isolation', f'[{layout}] files outside u1 changed: {diff[:5]!r}', replay,
                    {'kind': 'other_changed', 'layout': layout})


def sec_maildir(ctx) -> None:
    from ..pymap_env import run
    rng = ctx.rng
    n_prog = ctx.scale(70, 500)
    plans = []
    for layout in ('++', 'fs'):
        for j in range(n_prog):
            plans.append((layout, gen_cmds(rng, 0.35 if j % 3 else 0.7), rng.random() < 0.25))
        for k, cmds in enumerate(fixed_programs()):
            plans.append((layout, cmds, k % 2 == 1))

    TRACER.install()
    try:
        async def all_():
            return [await run_md_program(lay, cmds, b64) for lay, cmds, b64 in plans]
        results = run(all_(), timeout=6000)
    finally:
        TRACER.uninstall()
    cases, keep = [], []
    hist = {}
    n_names = 0
    for (layout, cmds, b64), (root, steps, before, after, base) in zip(plans, results):
        monitor_md(ctx, layout, root, steps, before, after, base, b64)
        it = U.Interner()
        U.interning(it)
        try:
            items = []
            obs_all = []
            for cmd, cc, trace, resp, exc in steps:
                obs = set()
                for fn, kind, raw in trace:
                    if is_tmpfile(posixpath.normpath(raw)) or \
                            (not raw.startswith(root) and exempt_read(posixpath.normpath(raw))):
                        continue
                    a = reduce_anchor(layout, root, raw)
                    if a is not None:
                        obs.add(a)
                items.append(T.pair(enc_cmd(cmd), T.N(cc),
                                    T.lst(U.enc_name(x) for x in sorted(obs)) if obs else '(@nil pstr)'))
                obs_all.append((cmd, cc, sorted(obs)))
                hist[f'{cmd[0]}:{cc}'] = hist.get(f'{cmd[0]}:{cc}', 0) + 1
                n_names += len(cmd) - 1
                ctx.count((layout, cmd, cc, tuple(sorted(obs))), nontrivial=bool(obs))
            body = T.pair('LPlus' if layout == '++' else 'LFs', U.enc_name(root), T.lst(items))
            cases.append(it.wrap(body))
        finally:
            U.interning(None)
        keep.append((layout, cmds, b64, obs_all, root))
    ctx.extra['maildir_cmd_outcomes'] = dict(sorted(hist.items()))
    ctx.extra['maildir_names_tried'] = n_names
    ctx.sample({'layout': keep[-1][0], 'cmds': [repr(c) for c in keep[-1][1]][:8]})

    def on_bad(i):
        lay, cmds, b64, obs_all, root = keep[i]
        ctx.disagreement('paths', {'layout': lay, 'cmds': [list(c) for c in cmds], 'b64': b64,
                                   'root': root, 'observed': obs_all[:30]})
    NS.JOBS.add('paths', HEADER, 'layout * pstr * list (cmd * N * list pstr)', cases, 'chk_paths',
                on_bad, shard=ctx.scale(40, 80))


def sec_pure(ctx) -> None:
    """posixpath.join / normpath and layout.get_path on their own"""
    from pymap.backend.maildir.layout import DefaultLayout, FilesystemLayout
    from pymap.exceptions import NotSupportedError
    from mailbox import Maildir
    rng = ctx.rng
    n = ctx.scale(800, 8000)
    jc, nc, gc, keep = [], [], [], []
    comps = ['', '.', '..', 'a', 'b', 'u2', '/', '//', 'a/', '/a', 'a/b', '...', 'é', ' ', '.a', 'a.', '\x00x']
    for _ in range(n):
        a = rng.choice(['/r', '/r/u1', '/', '', '/r/', 'r', '/r//u1'])
        ps = [rng.choice(comps) for _ in range(rng.randint(0, 4))]
        jc.append(T.pair(U.enc_name(a), T.lst(U.enc_name(p) for p in ps) if ps else '(@nil pstr)',
                         U.enc_name(posixpath.join(a, *ps))))
        p = '/' + '/'.join(rng.choice(comps) for _ in range(rng.randint(0, 6)))
        if p.startswith('//') and not p.startswith('///'):
            p = '/' + p          # POSIX keeps exactly two leading slashes: out of the model's domain
        npth = posixpath.normpath(p)
        want = [c for c in npth.split('/') if c]
        nc.append(T.pair(U.enc_name(p), T.lst(U.enc_name(c) for c in want) if want else '(@nil name)'))
        name = gen_hostile(rng) if rng.random() < 0.7 else NS.gen_name(rng, None, 0.5)
        for cls, lay in ((DefaultLayout, 'LPlus'), (FilesystemLayout, 'LFs')):
            try:
                got = cls('/r/u1', Maildir).get_path(name, '/')
            except NotSupportedError:
                got = None
            gc.append(T.pair(lay, U.enc_name('/r/u1'), U.enc_name(name),
                             'None' if got is None else f'(Some {U.enc_name(got)})'))
            # monitor on the pure function
            if got is not None and name != 'INBOX':
                np = posixpath.normpath(got)
                if not np.startswith('/r/u1/'):
                    ctx.failure('confined', f'layout {lay} maps the name {name!r} to {got!r}',
                                {'name': name, 'layout': lay}, {'kind': 'get_path_escape', 'layout': lay})
            keep.append((lay, name))
        ctx.count(('pure', a, tuple(ps), p, name))
    # every look-alike / INBOX-edge name, both layouts
    for name in LOOKALIKES + INBOX_EDGE:
        for cls, lay in ((DefaultLayout, 'LPlus'), (FilesystemLayout, 'LFs')):
            try:
                got = cls('/r/u1', Maildir).get_path(name, '/')
            except NotSupportedError:
                got = None
            gc.append(T.pair(lay, U.enc_name('/r/u1'), U.enc_name(name),
                             'None' if got is None else f'(Some {U.enc_name(got)})'))
            if got is not None and not posixpath.normpath(got).startswith('/r/u1/'):
                ctx.failure('confined', f'layout {lay} maps the name {name!r} to {got!r}',
                            {'name': name, 'layout': lay}, {'kind': 'get_path_escape', 'layout': lay})
            keep.append((lay, name))
        ctx.count(('lookalike', name))
    # every name over {a . / &} up to a small length, both layouts
    import itertools
    for k in range(0, ctx.scale(5, 7)):
        for t in itertools.product('a./&', repeat=k):
            name = ''.join(t)
            for cls, lay in ((DefaultLayout, 'LPlus'), (FilesystemLayout, 'LFs')):
                try:
                    got = cls('/r/u1', Maildir).get_path(name, '/')
                except NotSupportedError:
                    got = None
                gc.append(T.pair(lay, U.enc_name('/r/u1'), U.enc_name(name),
                                 'None' if got is None else f'(Some {U.enc_name(got)})'))
                if got is not None and not posixpath.normpath(got).startswith('/r/u1/'):
                    ctx.failure('confined', f'layout {lay} maps the name {name!r} to {got!r}',
                                {'name': name, 'layout': lay}, {'kind': 'get_path_escape', 'layout': lay})
                keep.append((lay, name))
            ctx.count(('sweep', name), nontrivial=got is not None)
    NS.JOBS.add('path_join', HEADER, 'pstr * list pstr * pstr', jc, 'chk_join',
                lambda i: ctx.disagreement('path_join', {'i': i}), shard=3000)
    NS.JOBS.add('normpath', HEADER, 'pstr * list name', nc, 'chk_normpath',
                lambda i: ctx.disagreement('normpath', {'i': i}), shard=3000)
    NS.JOBS.add('get_path', HEADER, 'layout * pstr * name * option pstr', gc, 'chk_get_path',
                lambda i: ctx.disagreement('get_path', {'case': repr(keep[i])}), shard=3000)


def sec_dict_isolation(ctx) -> None:
    """two users on the dict backend: one user's commands never change what
    the other observes"""
    from ..pymap_env import DictEnv, run
    rng = ctx.rng
    hook = U.ListHook()
    hook.install()

    async def one(cmds):
        env = await DictEnv().start()
        from pymap.user import Passwords, UserMetadata
        from pymap.backend.dict import Identity
        hashed = await Passwords(env.config).hash_password('pw2')
        await Identity('other', env.backend.login, None, set()).set(
            UserMetadata(env.config, 'other', password=hashed))
        r1 = NS.Runner(env, hook)
        r2 = NS.Runner(env, hook, (b'other', b'pw2'))
        await r2.do(('create', 'mine'))
        await r2.do(('subscribe', 'mine'))
        await r2.do(('append', 'mine'))

        async def view():
            out = []
            for op in (('list', '', '*'), ('lsub', '', '*'), ('status', 'mine'), ('status', 'INBOX')):
                e, _resp, _exc, _w = await r2.do(op)
                out.append((e[0], e[1], e[2] and e[2][2:]))
            return out
        v0 = await view()
        bad = None
        for i, c in enumerate(cmds):
            if c[0] == 'copy':
                c = ('append', c[1])
            await r1.do(c)
            v = await view()
            if v != v0 and bad is None:
                bad = (i, c, v0, v)
        await r1.close()
        await r2.close()
        return bad
    n = ctx.scale(40, 600)
    plans = [gen_cmds(rng, 0.3) for _ in range(n)]

    async def all_():
        return [await one(c) for c in plans]
    for cmds, bad in zip(plans, run(all_(), timeout=3000)):
        ctx.count(('dict_iso', tuple(cmds)))
        if bad:
            ctx.failure('isolation', f"[dict] user testuser's command {bad[1]!r} changed what user "
                        f"'other' observes: {bad[2]!r} -> {bad[3]!r}",
                        {'cmds': [list(c) for c in cmds]}, {'kind': 'dict_other_changed'})


def run(ctx) -> None:
    from .. import layoutgen
    from ..pymap_env import REPO
    with layoutgen.exclusive(REPO):
        _run(ctx)


def _run(ctx) -> None:
    ctx.rule = ('programs of 7-13 commands (CREATE/DELETE/RENAME/SUBSCRIBE/UNSUBSCRIBE/STATUS/EXAMINE/'
                'APPEND/COPY/LIST/LSUB) for user u1 with hostile names (empty, ".", "..", doubled/'
                'leading/trailing "/", NUL, control characters, "../u2", reserved maildir names, '
                'non-ASCII, "&" sequences; a quarter spelled entirely in base64 runs) mixed with '
                'ordinary ones, on a fresh two-user maildir store per program, both layouts; plus '
                'all names over {a . / &} up to length 4 (thorough 6) through layout.get_path; '
                'non-trivial = some name-derived directory was touched')
    ctx.assumptions += [
        'the tracer sees every filesystem access of the backend: os.* path functions, os.open and '
        'builtins.open are wrapped in this process (C extensions opening files by themselves would be missed; '
        'pymap and mailbox.Maildir are pure Python)',
        "temporary files of io.py (NamedTemporaryFile in $TMPDIR, renamed over a control file) are not "
        'name-derived and are exempt; reads of the Python runtime and of /repo are exempt',
        'no symbolic links inside the store (normpath, not realpath, is what the theorem speaks about)',
    ]
    # the generated model of layout.py is rewritten from the repo under check *before* the
    # proofs are built: Namespace/LayoutGenProofs.v must re-prove that it equals the hand model
    from .. import layoutgen
    from ..pymap_env import REPO
    ctx.assumptions += [
        'os.fsencode is modelled for the UTF-8 filesystem encoding with surrogateescape (CPython >= 3.7 '
        'on POSIX with a UTF-8 locale or UTF-8 mode); str.split/str.join/`in`/os.path.join are the '
        'hand-written Namespace/PyStr.v and Paths.path_join, compared with CPython by the layout_gen family',
    ]
    layoutgen.regenerate(ctx, REPO)
    ctx.check_proofs(['Namespace/PathsCheck', 'Namespace/LayoutGenCheck', 'Namespace/LayoutFxCheck'])
    # debugging aid: VERIF_C08_SECTIONS=maildir,dict,pure,layout_gen,layout_fx,clone (default: all)
    only = [x for x in os.environ.get('VERIF_C08_SECTIONS', '').split(',') if x]
    from .. import layoutfx, c08_clone
    for name, sec in (('maildir', lambda: sec_maildir(ctx)),
                      ('dict', lambda: sec_dict_isolation(ctx)),
                      ('pure', lambda: sec_pure(ctx)),
                      ('layout_gen', lambda: layoutgen.sec_layout_gen(ctx, NS.JOBS)),
                      ('layout_fx', lambda: layoutfx.sec_layout_fx(ctx, NS.JOBS, TRACER)),
                      ('clone', lambda: c08_clone.sec_clone(ctx, TRACER, sys.modules[__name__]))):
        if not only or name in only:
            sec()
    if only:
        ctx.extra['sections_only'] = only
    NS.JOBS.run(ctx)


def replay(ctx, obj) -> int:
    from ..pymap_env import run
    if 'clone_events' in obj:
        from .. import c08_clone
        return c08_clone.replay(obj, TRACER, sys.modules[__name__])
    if 'cmds' in obj and 'layout' in obj:
        cmds = [tuple(c) for c in obj['cmds']]
        TRACER.install()
        try:
            root, steps, before, after, base = run(run_md_program(obj['layout'], cmds,
                                                                  obj.get('spell_b64', False)))
        finally:
            TRACER.uninstall()
        for cmd, cc, trace, resp, exc in steps:
            print(cmd, cc, sorted({reduce_anchor(obj['layout'], root, r) or root for _f, _k, r in trace}))
        monitor_md(ctx, obj['layout'], root, steps, before, after, base, obj.get('spell_b64', False))
        for v in ctx.violations:
            print('FAIL', v['clause'], v['what'])
        return 1 if ctx.violations else 0
    if 'name' in obj and 'layout' in obj:
        from pymap.backend.maildir.layout import DefaultLayout, FilesystemLayout
        from mailbox import Maildir
        cls = DefaultLayout if obj['layout'] in ('LPlus', '++') else FilesystemLayout
        try:
            got = cls('/r/u1', Maildir).get_path(obj['name'], '/')
            print(repr(obj['name']), '->', got, '->', posixpath.normpath(got))
            return 0 if posixpath.normpath(got).startswith('/r/u1/') or obj['name'] == 'INBOX' else 1
        except Exception as exc:
            print(repr(obj['name']), 'refused:', repr(exc))
    return 0
