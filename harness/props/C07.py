"""C07 — every response is well-formed IMAP.

Proof side: coq/theories/Props/C07.v (model Resp/Printer.v, independent
recogniser Resp/Grammar.v, hypotheses Resp/Wf.v).

Correspondence
  (i)   printer model vs the real response classes on random ASTs: the real
        object is built from the same values, bytes(resp) / write() /
        async_write() must agree with each other and with print_resp; leaf
        functions (String.build, Mailbox.__bytes__, DateTime.__bytes__) on
        sweeps of their own;
  (ii)  live server: generated command programs (hostile mailbox names,
        keywords, headers, MIME structures, sections, AUTHENTICATE exchanges,
        error paths; dict and maildir backends).  Every response object the
        server writes is converted to the AST from its fields and Coq checks
        print_stream asts = the bytes on the wire and wf_resp of every AST
        (the hypotheses of the theorem hold for what pymap builds);
  (iii) harness/imap_grammar.py vs Resp/Grammar.v (wf_response) on every
        response the server wrote and on mutations of them.

Monitor: harness/imap_grammar.py, written from the RFCs, parses every byte
every connection received.
"""
from __future__ import annotations

import asyncio
import base64
import json

from .. import coqterm as T
from .. import c07lib as L
from .. import imap_grammar as G

HEADER = ('From PV Require Import Base.Prelude Base.Decimal Resp.Grammar Resp.Printer '
          'Resp.Wf Resp.Producer Resp.Check.\n')


JOBS = []
JOB_HEADERS = {}    # job name prefix -> Coq header (default: HEADER)


def submit(ctx, name, typ, cases, checker, shard, describe) -> None:
    """queue a correspondence run; all of them are evaluated together at the
    end (the Coq evaluations are independent and run side by side)"""
    if shard == 'size':
        # pack by the size of the Gallina text: Coq's parser overflows its stack
        # on a definition of several hundred kilobytes
        groups, cur, size = [], [], 0
        for i, c in enumerate(cases):
            if cur and size + len(c) > 200000:
                groups.append(cur)
                cur, size = [], 0
            cur.append(i)
            size += len(c)
        if cur:
            groups.append(cur)
        for g, idx in enumerate(groups):
            JOBS.append((f'{name}_{g}', typ, [cases[i] for i in idx], checker, len(idx),
                         (lambda idx: lambda i: describe(idx[i]))(idx)))
        return
    JOBS.append((name, typ, cases, checker, shard, describe))


def flush_jobs(ctx) -> None:
    from concurrent.futures import ThreadPoolExecutor

    def one(job):
        name, typ, cases, checker, shard, describe = job
        hdr = next((h for k, h in JOB_HEADERS.items() if name.startswith(k)), HEADER)
        return job, ctx.run_cases(name, hdr, typ, cases, checker, shard=shard, jobs=4, timeout=1800)
    with ThreadPoolExecutor(max_workers=8) as ex:
        for job, bad in ex.map(one, JOBS):
            for i in bad[:5]:
                ctx.disagreement(job[0], job[5](i))
    JOBS.clear()


# ============================================================ (i) printer cases
def section_print(ctx) -> None:
    rng = ctx.rng
    n = ctx.scale(500, 3000)
    cases, keep = [], []
    hist = {}
    for _ in range(n):
        r = L.gen_resp(rng)
        if r[0] == 'fetch':
            for it in r[2]:
                if it[0] == 'internaldate' and it[1][7] == 0:
                    pass
        r = _fix_neg(r)
        try:
            obj = L.b_resp(r, rng)
            a, w, aw = L.serialise(obj)
        except Exception as exc:   # the real classes refuse the value
            ctx.disagreement('print_build', {'ast': repr(r)[:400], 'exc': repr(exc)})
            continue
        hist[r[0]] = hist.get(r[0], 0) + 1
        ctx.count(('print', a), nontrivial=True)
        if not (a == w == aw):
            ctx.failure('stream_form', 'bytes(resp), write() and async_write() differ',
                        {'ast': repr(r)[:2000], 'bytes': a.hex(), 'write': w.hex(),
                         'async_write': aw.hex()}, {'kind': 'stream_form'})
        bad = G.check_transcript(a)
        if bad:
            v = bad[0]
            ctx.failure(v['kind'], f'response object serialises to ill-formed bytes '
                        f'({v["expected"]} at {v["at"]}): {a[:200]!r}',
                        {'ast': repr(r)[:4000], 'bytes': a.hex()}, {'kind': v['kind']})
        cases.append(T.pair(L.e_resp(r), T.bytes_(a)))
        keep.append((r, a))
    ctx.sample({'print_case': repr(keep[-1][0])[:300], 'bytes': keep[-1][1][:200].decode('latin-1')})
    ctx.extra['print_case_kinds'] = hist
    submit(ctx, 'print_resp', 'resp * bytes', cases, 'chk_print_wf', 250,
           lambda i: {'ast': repr(keep[i][0])[:1500], 'impl': keep[i][1][:600].decode('latin-1')})


def _fix_neg(r):
    """an offset of zero is never negative"""
    def fx(d):
        return d[:6] + (d[6] and d[7] > 0, d[7])

    def env(e):
        return ((fx(e[0]) if e[0] else None),) + e[1:]

    def body(b):
        if b[0] == 'multi':
            return (b[0], [body(x) for x in b[1]]) + b[2:]
        if b[0] == 'msg':
            return (b[0], b[1], b[2], env(b[3]), body(b[4]))
        return b
    if r[0] != 'fetch':
        return r
    items = []
    for it in r[2]:
        if it[0] == 'internaldate':
            it = (it[0], fx(it[1]))
        elif it[0] == 'envelope':
            it = (it[0], env(it[1]))
        elif it[0] in ('body', 'bodystructure'):
            it = (it[0], body(it[1]))
        items.append(it)
    return (r[0], r[1], items)


def section_leaves(ctx) -> None:
    """String.build, Mailbox.__bytes__, DateTime.__bytes__ on their own,
    with sweeps: every byte / many code points at every position of a few
    base strings, lengths around 64."""
    from pymap.parsing.primitives import String
    from pymap.parsing.specials import Mailbox, DateTime
    rng = ctx.rng
    vals = [None, b'', '']
    for c in range(256):                       # every byte, short and at the length limit
        vals.append(b'a' + bytes([c]) + b'b')
        vals.append(b'ab' + bytes([c]))
        vals.append(bytes([c]) + b'ab')
        vals.append(b'x' * 31 + bytes([c]) + b'x' * 31)
    for n in range(0, 70):
        vals.append(b'y' * n)
        vals.append('z' * n)
    cps = list(range(0, 0x180)) + [0x7ff, 0x800, 0xd7ff, 0xd800, 0xdbff, 0xdc00, 0xdfff, 0xe000,
                                   0xffff, 0x10000, 0x10ffff, 0x20ac, 0x1f600]
    for c in cps:
        vals.append('a' + chr(c) + 'b')
    for c in (0x22, 0x5c, 0x0d, 0x0a, 0, 0x7f, 0x80, 0xe9, 0x20ac):
        for base in ('x' * 61, 'x' * 62, 'x' * 63):
            vals.append(base + chr(c))
    for _ in range(ctx.scale(300, 1500)):
        vals.append(L.gen_str(rng, 70) if rng.random() < 0.6 else L.gen_bytes(rng, 70))
    cases, keep = [], []
    for v in vals:
        out = bytes(String.build(v))
        ctx.count(('build', v), nontrivial=True)
        cases.append(T.pair(L.e_pyval(v), T.bytes_(out)))
        keep.append((v, out))
    kb = keep
    submit(ctx, 'string_build', 'pyval * bytes', cases, 'chk_build', 1000,
           lambda i: {'value': repr(kb[i][0]), 'impl': repr(kb[i][1])})
    # mailbox names
    names = ['', 'INBOX', 'inbox', 'InBoX', 'ınbox', 'INBOXX', 'inbo', '&', '&-', 'a&b', 'é&', '&é']
    for c in cps:                              # before, inside and after a shifted run
        for k in (0, 1, 2):
            names.append('aé'[:k] + chr(c) + 'aé'[k:])
    for _ in range(ctx.scale(300, 1500)):
        names.append(L.gen_str(rng, 20))
    cases, keep = [], []
    for nm in names:
        out = bytes(Mailbox(nm))
        ctx.count(('mailbox', nm), nontrivial=True)
        cases.append(T.pair(T.codepoints(nm), T.bytes_(out)))
        keep.append((nm, out))
    km = keep
    submit(ctx, 'mailbox_bytes', 'list N * bytes', cases, 'chk_mailbox', 800,
           lambda i: {'name': repr(km[i][0]), 'impl': repr(km[i][1])})
    # date-time
    cases, keep = [], []
    dts = []
    for y in (1, 9, 10, 99, 100, 999, 1000, 2024, 9999):
        for off in (0, 1, 59, 60, 61, 3599, 3600, 19800, 86399):
            for neg in (False, True):
                dts.append((rng.randint(1, 28), rng.randint(1, 12), y, rng.randint(0, 23),
                            rng.randint(0, 59), rng.randint(0, 59), neg and off > 0, off))
    for m in range(1, 13):
        dts.append((1, m, 2000, 0, 0, 0, False, 0))
    for _ in range(ctx.scale(100, 600)):
        d = L.gen_dt(rng)
        dts.append(d[:6] + (d[6] and d[7] > 0, d[7]))
    for d in dts:
        out = bytes(DateTime(L.to_datetime(d)))
        ctx.count(('datetime', d), nontrivial=True)
        cases.append(T.pair(L.e_dt(d), T.bytes_(out)))
        keep.append((d, out))
    kd = keep
    submit(ctx, 'date_time', 'datetime * bytes', cases, 'chk_datetime', 1000,
           lambda i: {'value': repr(kd[i][0]), 'impl': repr(kd[i][1])})


# =========================================================== (ii) live server
class Recorder:
    """wraps IMAPConnection.write_response and FetchResponse.write in this
    process: per connection (Conn object) the list of (asts | None, bytes)."""

    def __init__(self) -> None:
        self.by_conn = {}
        self.fetch_items = {}
        self.unconverted = []
        self.producer = []        # (kind, Gallina term of the model call, bytes the command wrote)
        self._pending = {}        # id(resp) -> (kind, term)
        self._installed = False

    def install(self) -> None:
        if self._installed:
            return
        self._installed = True
        L.install_recorders()
        from pymap.imap import IMAPConnection
        from pymap.parsing.response.specials import FetchResponse
        rec = self
        orig_wr = IMAPConnection.write_response
        orig_fw = FetchResponse.write

        def fetch_write(self, writer):
            # write() is called a second time, outside the load hook, for the
            # debug log (bytes(resp)): the first conversion counts
            if id(self) not in rec.fetch_items:
                try:
                    rec.fetch_items[id(self)] = [L.c_item(v) for v in self.data.values()]
                except Exception as exc:     # conversion gap or the value itself fails
                    rec.fetch_items[id(self)] = exc
            return orig_fw(self, writer)

        async def write_response(self, resp):
            conn = self.writer
            start = len(conn.all_out)
            try:
                await orig_wr(self, resp)
            finally:
                data = bytes(conn.all_out[start:])
                mine = [resp] + list(getattr(resp, '_untagged', []))
                items = {id(x): rec.fetch_items.pop(id(x)) for x in mine
                         if id(x) in rec.fetch_items}
                try:
                    for v in items.values():
                        if isinstance(v, Exception):
                            raise v
                    asts = L.c_resp(resp, items)
                except Exception as exc:
                    asts = None
                    rec.unconverted.append((type(resp).__name__, repr(exc)[:200]))
                rec.by_conn.setdefault(id(conn), []).append((asts, data))
                pend = rec._pending.pop(id(resp), None)
                if pend is not None and data:
                    rec.producer.append((pend[0], pend[1], data))
                elif data and asts and asts[-1][0] == 'cond' and asts[-1][1] is not None \
                        and asts[-1][4].endswith(b' completed.') and asts[-1][2] == 'OK':
                    # "<COMMAND> completed." of any other command: the model is
                    # given the command word of the command being answered
                    from pymap.context import current_command
                    try:
                        cmd = current_command.get()
                        code = asts[-1][3]
                        cd = 'None' if code is None else L.e_code(code)
                        rec.producer.append(('completed', '[completed %s %s %s]' % (
                            T.bytes_(cmd.tag), T.bytes_(cmd.command), cd), data))
                    except LookupError:
                        pass
        FetchResponse.write = fetch_write
        IMAPConnection.write_response = write_response
        self._install_producer_hooks(orig_wr)

    def _install_producer_hooks(self, _orig) -> None:
        """record the *inputs* of do_select / do_status / do_list /
        check_command (what the session layer handed to them), keyed by the
        response object they return; write_response pairs them with the bytes"""
        from pymap.backend.session import BaseSession
        from pymap.imap.state import ConnectionState
        from pymap.parsing.commands import InvalidCommand
        from pymap.parsing.command import CommandAuth, CommandNonAuth, CommandSelect
        rec = self
        o_select, o_get, o_list = (BaseSession.select_mailbox, BaseSession.get_mailbox,
                                   BaseSession.list_mailboxes)

        async def select_mailbox(self, *a, **kw):
            ret = await o_select(self, *a, **kw)
            self._c07_select = ret
            return ret

        async def get_mailbox(self, *a, **kw):
            ret = await o_get(self, *a, **kw)
            self._c07_get = ret
            return ret

        async def list_mailboxes(self, *a, **kw):
            ret = await o_list(self, *a, **kw)
            ret = (list(ret[0]), ret[1])
            self._c07_list = ret
            return ret
        BaseSession.select_mailbox = select_mailbox
        BaseSession.get_mailbox = get_mailbox
        BaseSession.list_mailboxes = list_mailboxes
        d_select, d_status, d_list, chk = (ConnectionState.do_select, ConnectionState.do_status,
                                           ConnectionState.do_list, ConnectionState.check_command)

        def snapshot_term(mailbox, recent, readonly):
            mid = mailbox.mailbox_id.value
            if not (len(mid) == 33 and mid[:1] == b'F'):
                return None
            v = mailbox.uid_validity
            return ('(Build_snapshot %s %s %s %s %s %s %s %s %s)' % (
                T.boolean(readonly), T.N(mailbox.exists), T.N(recent), T.N(mailbox.unseen),
                'None' if mailbox.first_unseen is None else f'(Some {T.N(mailbox.first_unseen)})',
                T.N(mailbox.next_uid - 1), T.N(v >> 16), T.N(v & 0xffff), T.N(int(mid[1:], 16))))

        async def do_select(self, cmd):
            ret = await d_select(self, cmd)
            try:
                mailbox, updates = self.session._c07_select
                recent = mailbox.recent if updates.readonly else updates.session_flags.recent
                sn = snapshot_term(mailbox, recent, updates.readonly)
                if sn is not None:
                    rec._pending[id(ret[0])] = ('select', f'(do_select {T.bytes_(cmd.tag)} {sn})')
            except Exception as exc:
                rec.unconverted.append(('producer-select', repr(exc)[:200]))
            return ret

        async def do_status(self, cmd):
            ret = await d_status(self, cmd)
            try:
                mailbox, updates = self.session._c07_get
                if updates and updates.mailbox_id == mailbox.mailbox_id:
                    recent = updates.session_flags.recent
                else:
                    recent = mailbox.recent
                sn = snapshot_term(mailbox, recent, False)
                names = {b'MESSAGES': 'QMessages', b'RECENT': 'QRecent', b'UIDNEXT': 'QUidNext',
                         b'UIDVALIDITY': 'QUidValidity', b'UNSEEN': 'QUnseen',
                         b'MAILBOXID': 'QMailboxId'}
                req = list(dict.fromkeys(bytes(a) for a in cmd.status_list))
                if sn is not None:
                    rec._pending[id(ret[0])] = ('status', '(do_status %s %s %s %s)' % (
                        T.bytes_(cmd.tag), T.codepoints(cmd.mailbox),
                        T.lst(names[a] for a in req), sn))
            except Exception as exc:
                rec.unconverted.append(('producer-status', repr(exc)[:200]))
            return ret

        async def do_list(self, cmd):
            ret = await d_list(self, cmd)
            try:
                entries, _ = self.session._c07_list
                lsub = T.boolean(cmd.only_subscribed)
                if not cmd.filter:
                    term = f'(do_list_root {T.bytes_(cmd.tag)} {lsub})'
                elif all(sep == '/' for _, sep, _ in entries):
                    term = '(do_list %s %s %s)' % (T.bytes_(cmd.tag), lsub, T.lst(
                        T.pair(T.pair(T.codepoints(name), T.boolean(b'Noselect' not in attrs)),
                               T.boolean(b'HasChildren' in attrs)) for name, _, attrs in entries))
                else:
                    term = None
                if term is not None:
                    rec._pending[id(ret[0])] = ('list', term)
            except Exception as exc:
                rec.unconverted.append(('producer-list', repr(exc)[:200]))
            return ret

        def check_command(self, cmd):
            ret = chk(self, cmd)
            if ret is not None:
                try:
                    if isinstance(cmd, InvalidCommand):
                        name = cmd.command_name
                        tag = 'None' if cmd.tag == b'*' else f'(Some {T.bytes_(cmd.tag)})'
                        words = name.split(b' ') if name else []
                        term = '[invalid_command %s %s %s]' % (
                            tag, T.lst(T.bytes_(w) for w in words),
                            T.boolean(cmd.command_type is not None))
                    else:
                        if self._session and isinstance(cmd, CommandNonAuth):
                            kind = 'AlreadyAuth'
                        elif not self._session and isinstance(cmd, CommandAuth):
                            kind = 'MustAuth'
                        else:
                            kind = 'MustSelect'
                        term = f'[refuse {T.bytes_(cmd.tag)} {T.bytes_(cmd.command)} {kind}]'
                    rec._pending[id(ret)] = ('refusal', term)
                except Exception as exc:
                    rec.unconverted.append(('producer-check', repr(exc)[:200]))
            return ret
        ConnectionState.do_select = do_select
        ConnectionState.do_status = do_status
        ConnectionState.do_list = do_list
        ConnectionState.check_command = check_command

    def take(self, conn):
        return self.by_conn.pop(id(conn), [])


RECORDER = Recorder()


def mutf7(name: str) -> bytes:
    """modified UTF-7 of a mailbox name (harness side, for composing commands)"""
    out = bytearray()
    run = ''

    def flush():
        nonlocal run
        if run:
            b = base64.b64encode(run.encode('utf-16-be', 'surrogatepass')).rstrip(b'=')
            out.extend(b'&' + b.replace(b'/', b',') + b'-')
            run = ''
    for ch in name:
        if 0x20 <= ord(ch) <= 0x7e:
            flush()
            out.extend(b'&-' if ch == '&' else ch.encode())
        else:
            run += ch
    flush()
    return bytes(out)


def arg(b: bytes, rng, force_literal=False) -> bytes:
    """an astring argument carrying exactly the bytes b"""
    import re
    if not force_literal and b and re.fullmatch(rb'[A-Za-z0-9.$_-]+', b) and rng.random() < 0.7:
        return b
    if not force_literal and not re.search(rb'[\r\n\x00]', b) and all(c < 128 for c in b) \
            and rng.random() < 0.7:
        return b'"' + b.replace(b'\\', b'\\\\').replace(b'"', b'\\"') + b'"'
    if rng.random() < 0.5:
        return b'{%d+}\r\n' % len(b) + b
    return b'{%d}\r\n' % len(b) + SYNC + b


# where the client must wait for a continuation request (never sent)
SYNC = b'\xff\x00<SYNC>\x00\xff'


async def send_step(conn, data: bytes) -> bytes:
    """send one command; at every SYNC mark wait for the server's `+`"""
    parts = data.split(SYNC)
    out = b''
    for part in parts[:-1]:
        got = await conn.send(part)
        out += got
        if not got.startswith(b'+') and b'\r\n+' not in got:
            return out
    return out + await conn.send(parts[-1])


HDR_VALUES = [b'plain', b'a\rb', b'\xff\xfe raw', b'=?utf-8?q?h=C3=A9llo?= <a@b.c>',
              b'=?utf-8?b?4oKs?=', b'x' * 70, b'nul\x00here', b'"quo\\"ted" <q@x>',
              b'a@b.c, x@y.z, "L, F" <l@f>', b'undisclosed-recipients:;', b'<', b'a@b, , <>, c: d@e;',
              b'garbage', b'Mon, 1 Jan 2001 00:00:00 +0000', b'1 Jan 99 00:00 -0000',
              b'Mon, 01 Jan 0999 00:00:00 +2359', b'', b' ', b'\t folded\r\n more', b'(comment) x',
              b'attachment; filename="x y"; size=1', b'inline', b'en, fr', b'<id@host>',
              b'\xe2\x82\xac', b'back\\slash', b'a"b', b'{5}', b'NIL', b'[x] y']
CTYPES = [b'text/plain', b'TEXT/HTML; charset="utf-8"', b'text/', b'multipart/mixed',
          b'multipart/mixed; boundary=', b'message/rfc822', b'audio/x; a=1; a=2; =3; b',
          b'application/octet-stream; name="a\\"b"; x*=utf-8\'\'%e2%82%ac', b'image/png; name=\xff',
          b'x', b'\xe9/\xe9', b'text/plain; ' + b'p=' + b'v' * 80, b'Message/RFC822',
          b'application/x; n="a\rb"', b'text/plain; name*0="a"; name*1="b"']
CTES = [b'7bit', b'8bit', b'base64', b'quoted-printable', b'binary', b'x-unknown', b'', b'BASE64']
HDR_NAMES = [b'Subject', b'From', b'To', b'Cc', b'Bcc', b'Sender', b'Reply-To', b'Date',
             b'Message-ID', b'In-Reply-To', b'Content-Disposition', b'Content-Language',
             b'Content-Location', b'Content-ID', b'Content-Description', b'Content-MD5', b'X-Odd']


def gen_headers(rng, ctype=None, cte=None) -> bytes:
    out = bytearray()
    for _ in range(rng.randint(0, 6)):
        name = rng.choice(HDR_NAMES)
        val = rng.choice(HDR_VALUES) if rng.random() < 0.75 else L.gen_bytes(rng, 30)
        out += name + b': ' + val.replace(b'\r\n', b'\r\n ').replace(b'\n', b' ') + b'\r\n'
    if ctype is not None:
        out += b'Content-Type: ' + ctype + b'\r\n'
    if cte is not None:
        out += b'Content-Transfer-Encoding: ' + cte + b'\r\n'
    return bytes(out)


def gen_message(rng, depth=0) -> bytes:
    r = rng.random()
    if depth < 5 and r < 0.3:
        bnd = rng.choice([b'x', b'=_b', b'a b', b'---'])
        q = b'"' + bnd + b'"' if b' ' in bnd else bnd
        parts = [gen_message(rng, depth + 1) for _ in range(rng.choice([0, 1, 2, 3]))]
        body = b''.join(b'--' + bnd + b'\r\n' + p + b'\r\n' for p in parts)
        if parts or rng.random() < 0.5:
            body += b'--' + bnd + b'--\r\n'
        sub = rng.choice([b'mixed', b'alternative', b'x\xe9', b'"q"'])
        return gen_headers(rng, b'multipart/' + sub + b'; boundary=' + q) + b'\r\n' + body
    if depth < 5 and r < 0.4:
        return gen_headers(rng, rng.choice([b'message/rfc822', b'Message/RFC822'])) + b'\r\n' + \
            gen_message(rng, depth + 1)
    ctype = rng.choice(CTYPES) if rng.random() < 0.8 else None
    cte = rng.choice(CTES) if rng.random() < 0.4 else None
    body = rng.choice([b'hi\r\n', b'', b'line\nline\n', b'aGk=\r\n', b'=E2=82=AC\r\n', b'!!!\r\n',
                       bytes(range(256)), b'x' * 200 + b'\r\n'])
    sep = rng.choice([b'\r\n', b'\r\n', b'\n', b''])
    return gen_headers(rng, ctype, cte) + sep + body


FETCH_ATTRS = [b'FLAGS', b'UID', b'INTERNALDATE', b'ENVELOPE', b'BODYSTRUCTURE', b'BODY',
               b'RFC822.SIZE', b'RFC822', b'RFC822.HEADER', b'RFC822.TEXT', b'EMAILID', b'THREADID',
               b'BODY[]', b'BODY.PEEK[]', b'BODY[TEXT]', b'BODY[HEADER]', b'BODY[1]', b'BODY[1.MIME]',
               b'BODY[1.1]', b'BODY[2.HEADER]', b'BODY[1.TEXT]', b'BODY[]<0.10>', b'BODY[]<5.1>',
               b'BODY[TEXT]<100000.5>', b'BODY[1.2.3.4.5]', b'BINARY[]', b'BINARY[1]',
               b'BINARY.PEEK[1]', b'BINARY[]<0.7>', b'BINARY.SIZE[]', b'BINARY.SIZE[1]',
               b'BODY[0]', b'BODY[MIME]', b'BODY[1.HEADER.FIELDS (X)]',
               b'BODY[HEADER.FIELDS.NOT (To From)]', b'ALL', b'FULL', b'FAST']
SEARCHES = [b'ALL', b'1:*', b'UNSEEN', b'SUBJECT x', b'NOT DELETED', b'OR SEEN FLAGGED',
            b'KEYWORD kw', b'HEADER X-Odd ""', b'BODY hi', b'TEXT "a b"', b'LARGER 1', b'SINCE 1-Jan-2000',
            b'UID 1:200', b'CHARSET utf-8 ALL', b'CHARSET x ALL', b'BOGUSKEY', b'EMAILID Mx', b'MODSEQ 1',
            b'(SEEN)', b'NOT NOT ALL', b'DRAFT', b'FROM \xff']


def hostile_names(rng) -> list:
    names = []
    for _ in range(rng.randint(2, 6)):
        r = rng.random()
        if r < 0.6:
            s = L.gen_str(rng, 10, long_ok=rng.random() < 0.3)
            s = s.replace('\ud800', 'x').replace('\udfff', 'y')
            names.append(mutf7(s))
        elif r < 0.8:
            names.append(L.gen_bytes(rng, 12))          # not necessarily valid mUTF-7
        else:
            names.append(rng.choice([b'INBOX', b'inbox', b'Sent', b'Trash', b'a/b', b'a/b/c', b'/',
                                     b'', b'&', b'&AAo-', b'x&-y', b'%', b'*', b'"', b'\\']))
    return names


def gen_fetch_attrs(rng) -> bytes:
    k = rng.choice([1, 1, 2, 3, 5])
    attrs = [rng.choice(FETCH_ATTRS) for _ in range(k)]
    if rng.random() < 0.3:
        hs = [arg(h, rng) for h in (rng.choice([b'To', b'Subject', b'a b', b'x"y', b'\xe9', b'a\nb',
                                                b'', b'X' * 70, b'NIL', b']'])
                                    for _ in range(rng.randint(1, 3)))]
        part = rng.choice([b'', b'1.', b'2.1.'])
        attrs.append(b'BODY[' + part + rng.choice([b'HEADER.FIELDS', b'HEADER.FIELDS.NOT',
                                                    b'header.fields']) + b' (' + b' '.join(hs)
                     + b')]' + rng.choice([b'', b'<0.5>', b'<3.1000>']))
    if len(attrs) == 1 and rng.random() < 0.5:
        return attrs[0]
    return b'(' + b' '.join(attrs) + b')'


def gen_program(rng) -> list:
    """list of ('send', bytes) / ('other', bytes) steps; the first connection
    is logged in unless the program starts with pre-authentication steps"""
    steps = []
    names = hostile_names(rng)
    t = [0]

    def tag() -> bytes:
        t[0] += 1
        return rng.choice([b'a', b'A.', b'x]', b'~', b'1']) + b'%d' % t[0]

    def cmd(body: bytes, who='send') -> None:
        steps.append((who, tag() + b' ' + body + b'\r\n'))
    def append(box: bytes) -> None:
        msg = gen_message(rng)
        flags = b''
        if rng.random() < 0.5:
            fl = rng.sample([b'\\Seen', b'\\Deleted', b'\\Flagged', b'kw', b'$Junk', b'\\Recent',
                             b'x[y', b'a.b'], rng.randint(0, 3))
            flags = b'(' + b' '.join(fl) + b') '
        date = b''
        if rng.random() < 0.4:
            date = rng.choice([b'"01-Jan-2000 00:00:00 +0000" ', b'" 1-Feb-0999 23:59:59 -2359" ',
                               b'"31-Dec-9999 12:00:00 +000030" ', b'"01-Jan-0001 00:00:00 +0000" ',
                               b'"15-Mar-1970 01:02:03 Z" '])
        lit = b'{%d+}\r\n' % len(msg) if rng.random() < 0.5 \
            else b'{%d}\r\n' % len(msg) + SYNC
        cmd(b'APPEND ' + box + b' ' + flags + date + lit + msg)
    if rng.random() < 0.85:
        for _ in range(rng.randint(1, 5)):
            append(b'INBOX')
        cmd(rng.choice([b'SELECT INBOX', b'SELECT INBOX', b'EXAMINE INBOX']))
        if rng.random() < 0.7:
            cmd(rng.choice([b'FETCH 5:* ', b'UID FETCH 105:* ', b'FETCH 1:* ']) +
                rng.choice([b'(ENVELOPE BODYSTRUCTURE)', b'(BODY ENVELOPE INTERNALDATE FLAGS)',
                            b'(BODYSTRUCTURE BODY[HEADER] BODY[TEXT] BINARY.SIZE[])', b'FULL']))
    for _ in range(rng.randint(8, 30)):
        r = rng.random()
        nm = arg(rng.choice(names), rng)
        if r < 0.10:
            cmd(b'CREATE ' + nm)
        elif r < 0.14:
            cmd(rng.choice([b'SUBSCRIBE ', b'UNSUBSCRIBE ', b'DELETE ']) + nm)
        elif r < 0.17:
            cmd(b'RENAME ' + nm + b' ' + arg(rng.choice(names), rng))
        elif r < 0.27:
            pat = rng.choice([b'*', b'%', b'"*"', b'""', b'a*', b'%/%', nm])
            cmd(rng.choice([b'LIST', b'LSUB', b'list']) + b' ' +
                rng.choice([b'""', b'"a"', nm]) + b' ' + pat)
        elif r < 0.33:
            atts = rng.sample([b'MESSAGES', b'RECENT', b'UIDNEXT', b'UIDVALIDITY', b'UNSEEN',
                               b'MAILBOXID'], rng.randint(1, 6))
            cmd(b'STATUS ' + nm + b' (' + b' '.join(atts) + b')')
        elif r < 0.40:
            append(rng.choice([b'INBOX', nm]))
        elif r < 0.45:
            cmd(rng.choice([b'SELECT ', b'EXAMINE ', b'select ']) + rng.choice([b'INBOX', b'INBOX', nm]))
        elif r < 0.70:
            seq = rng.choice([b'1:*', b'1', b'*', b'1:3', b'5:*', b'2,4', b'999'])
            cmd(rng.choice([b'FETCH ', b'UID FETCH ', b'fetch ']) + seq + b' ' + gen_fetch_attrs(rng))
        elif r < 0.76:
            fl = rng.sample([b'\\Seen', b'\\Deleted', b'\\Answered', b'kw', b'$x', b'a]b'[:1] + b'z',
                             b'NIL', b'\\Custom', b'k' * 40], rng.randint(0, 3))
            cmd(rng.choice([b'STORE ', b'UID STORE ']) + rng.choice([b'1:*', b'1', b'2:3']) + b' ' +
                rng.choice([b'+FLAGS', b'-FLAGS', b'FLAGS', b'+FLAGS.SILENT']) + b' (' + b' '.join(fl) + b')')
        elif r < 0.81:
            cmd(rng.choice([b'SEARCH ', b'UID SEARCH ']) + rng.choice(SEARCHES))
        elif r < 0.85:
            cmd(rng.choice([b'COPY ', b'MOVE ', b'UID COPY ', b'UID MOVE ']) +
                rng.choice([b'1', b'1:*', b'1:2']) + b' ' + rng.choice([b'INBOX', b'Sent', nm]))
        elif r < 0.88:
            cmd(rng.choice([b'EXPUNGE', b'UID EXPUNGE 1:200', b'CLOSE', b'CHECK', b'NOOP']))
        elif r < 0.90:
            cmd(b'IDLE')
            if rng.random() < 0.7:
                cmd(b'STORE 1 +FLAGS (\\Flagged)', 'other')
                cmd(b'EXPUNGE', 'other')
            steps.append(('send', rng.choice([b'DONE\r\n', b'done\r\n', b'DONE \r\n', b'STOP\r\n'])))
        elif r < 0.93:
            params = b'NIL' if rng.random() < 0.3 else b'(' + b' '.join(
                arg(L.gen_bytes(rng, 10), rng) + b' ' + arg(L.gen_bytes(rng, 10), rng)
                for _ in range(rng.randint(1, 3))) + b')'
            cmd(rng.choice([b'ID ', b'id ']) + params)
        elif r < 0.95:
            cmd(rng.choice([b'CAPABILITY', b'NOOP', b'STARTTLS', b'LOGIN a b', b'AUTHENTICATE PLAIN']))
        else:
            steps.append(('send', rng.choice([
                b'\r\n', b'a\r\n', b'a [X\r\n', b'a [ALERT] x\r\n', b'* OK\r\n', b'+ go\r\n',
                b'a BOGUS arg\r\n', b'a FETCH\r\n', b'a FETCH 1 ()\r\n', b'a FETCH 1 (BODY[\r\n',
                b'a LIST\r\n', b'\xff\xfe\r\n', b'a STATUS INBOX ()\r\n', b'a UID\r\n',
                b'a SEARCH\r\n', b'a STORE 1 FLAGS\r\n', b'a APPEND INBOX {0}\r\n\r\n',
                b'a CREATE {100000}\r\n', b'a LOGIN {3}\r\n' + SYNC + b'abc {1}\r\n' + SYNC + b'x\r\n', b'a' * 100 + b'\r\n',
                b'a1 "quoted"\r\n', b'a1 ' + bytes([rng.randrange(256) for _ in range(8)]) + b'\r\n'])))
    if rng.random() < 0.7:
        cmd(b'LOGOUT')
    return steps


def sweep_program(byte_values) -> list:
    """every given byte value inside a mailbox name, a Subject, a display name,
    a MIME parameter value, a keyword position and a HEADER.FIELDS name; then
    everything is listed and fetched"""
    steps = []
    n = [0]

    def cmd(body: bytes) -> None:
        n[0] += 1
        steps.append(('send', b's%d ' % n[0] + body + b'\r\n'))
    for c in byte_values:
        ch = bytes([c])
        name = b'm' + ch + b'x'
        cmd(b'CREATE {%d+}\r\n' % len(name) + name)
        msg = (b'Subject: a' + ch + b'b\r\nFrom: "n' + ch + b'n" <u@h>\r\n'
               b'Content-Type: text/plain; name="p' + ch + b'q"\r\n'
               b'Content-Disposition: attachment; filename=f' + ch + b'g\r\n\r\nbody ' + ch + b'\r\n')
        cmd(b'APPEND INBOX {%d+}\r\n' % len(msg) + msg)
    cmd(b'LIST "" *')
    cmd(b'LSUB "" *')
    cmd(b'SELECT INBOX')
    cmd(b'FETCH 5:* (ENVELOPE BODYSTRUCTURE BODY)')
    for c in byte_values:
        ch = bytes([c])
        name = b'm' + ch + b'x'
        cmd(b'STATUS {%d+}\r\n' % len(name) + name + b' (MESSAGES MAILBOXID)')
        hn = b'h' + ch + b'h'
        cmd(b'FETCH 1 BODY.PEEK[HEADER.FIELDS ({%d+}\r\n' % len(hn) + hn + b')]')
    cmd(b'LOGOUT')
    return steps


ALL_ATTRS = (b'(FLAGS UID INTERNALDATE RFC822.SIZE ENVELOPE BODYSTRUCTURE BODY EMAILID THREADID '
             b'BODY[] BODY[HEADER] BODY[TEXT] BODY[1] BODY[1.MIME] BODY[HEADER.FIELDS (SUBJECT)] '
             b'BODY[]<0.10> RFC822 RFC822.HEADER RFC822.TEXT BINARY[] BINARY[1] BINARY.SIZE[1])')
CONTENT_ATTRS = [b'RFC822.SIZE', b'ENVELOPE', b'BODYSTRUCTURE', b'BODY', b'BODY[]', b'BODY[TEXT]',
                 b'BODY.PEEK[HEADER.FIELDS (SUBJECT)]', b'RFC822', b'RFC822.HEADER', b'BINARY[]',
                 b'BINARY.SIZE[]', b'(UID RFC822.SIZE BODY[HEADER.FIELDS (SUBJECT)])',
                 b'(ENVELOPE BODYSTRUCTURE BODY[])', b'(FLAGS UID INTERNALDATE)', b'EMAILID']


def gen_program2(rng) -> list:
    """two sessions on one mailbox: between the main session's commands the
    second one expunges, changes flags, appends, copies, or deletes / renames
    the mailbox; the main session then fetches every attribute kind by
    sequence number and by UID, stores, searches, polls"""
    steps = []
    n = [0]

    def cmd(body: bytes, who='send') -> None:
        n[0] += 1
        steps.append((who, (b'a%d ' if who == 'send' else b'b%d ') % n[0] + body + b'\r\n'))

    def append(box: bytes, who='send') -> None:
        msg = gen_message(rng) if rng.random() < 0.5 else \
            b'Subject: s%d\r\nFrom: a@b.c\r\n\r\nbody %d\r\n' % (n[0], n[0])
        cmd(b'APPEND ' + box + b' {%d+}\r\n' % len(msg) + msg, who)
    box = b'INBOX'
    if rng.random() < 0.35:
        box = rng.choice([b'box', b'a/b', b'"two words"'])
        cmd(b'CREATE ' + box)
    for _ in range(rng.randint(3, 6)):
        append(box)
    cmd(rng.choice([b'SELECT ', b'SELECT ', b'EXAMINE ']) + box)
    if rng.random() < 0.5:
        cmd(b'FETCH 1:* (UID FLAGS)')
    cmd(b'SELECT ' + box, 'other')
    gone = False
    for _ in range(rng.randint(3, 8)):
        r = rng.random()
        k = b'%d' % rng.randint(1, 4)
        expunged = False
        if r < 0.45:
            cmd(b'STORE ' + rng.choice([k, k, b'1:2', b'1:*']) + b' +FLAGS (\\Deleted)', 'other')
            cmd(rng.choice([b'EXPUNGE', b'EXPUNGE', b'CLOSE']), 'other')
            if steps[-1][1].endswith(b'CLOSE\r\n'):
                cmd(b'SELECT ' + box, 'other')
            expunged = True
        elif r < 0.6:
            cmd(b'STORE ' + k + rng.choice([b' +FLAGS (kw \\Seen)', b' FLAGS ()', b' -FLAGS (\\Seen)',
                                           b' +FLAGS.SILENT (\\Flagged $x)']), 'other')
        elif r < 0.72:
            append(box, 'other')
        elif r < 0.8:
            cmd(rng.choice([b'COPY 1 ', b'MOVE 1 ', b'UID MOVE 1:200 ']) + rng.choice([box, b'Sent']),
                'other')
        elif r < 0.9 and box != b'INBOX' and not gone:
            cmd(rng.choice([b'DELETE ' + box, b'RENAME ' + box + b' renamed']), 'other')
            gone = True
        else:
            cmd(b'NOOP', 'other')
        first = True
        for _ in range(rng.randint(1, 3)):
            q = rng.random()
            seq = rng.choice([k, k, b'1', b'1:*', b'2:3', b'*'])
            if (first and expunged and q < 0.7) or q < 0.3:
                if rng.random() < 0.35:
                    cmd(b'FETCH ' + k + b' ' + ALL_ATTRS)
                else:
                    cmd(b'FETCH ' + seq + b' ' + rng.choice(CONTENT_ATTRS))
            elif q < 0.45:
                cmd(b'UID FETCH 1:* ' + rng.choice(CONTENT_ATTRS))
            elif q < 0.55:
                cmd(rng.choice([b'STORE ', b'UID STORE ']) + seq + b' +FLAGS (\\Answered z)')
            elif q < 0.65:
                cmd(rng.choice([b'SEARCH ALL', b'UID SEARCH ALL', b'SEARCH DELETED', b'SEARCH 1:*']))
            elif q < 0.8:
                cmd(rng.choice([b'NOOP', b'CHECK', b'NOOP']))
            elif q < 0.88:
                cmd(rng.choice([b'COPY ', b'MOVE ']) + seq + b' Sent')
            elif q < 0.94:
                cmd(b'EXPUNGE')
            else:
                cmd(b'STATUS ' + box + b' (MESSAGES UNSEEN RECENT UIDNEXT)')
            first = False
    cmd(b'LOGOUT')
    cmd(b'LOGOUT', 'other')
    return steps


def gen_preauth(rng) -> list:
    """steps on a fresh, unauthenticated connection"""
    good = base64.b64encode(b'\x00testuser\x00testpass')
    steps = []
    n = [0]

    def tag() -> bytes:
        n[0] += 1
        return b'p%d' % n[0]
    for _ in range(rng.randint(1, 6)):
        r = rng.random()
        if r < 0.45:
            mech = rng.choice([b'PLAIN', b'LOGIN', b'plain', b'XOAUTH2', b'CRAM-MD5', b'"PLAIN"', b''])
            steps.append(tag() + b' AUTHENTICATE ' + mech + b'\r\n')
            for _ in range(rng.choice([1, 1, 2, 3])):
                steps.append(rng.choice([
                    good, b'a', b'!!!!', b'*', b'', b'=', b'AA==', b'AAAA',
                    base64.b64encode(b'\x00bad\x00bad'), base64.b64encode(b'testuser'),
                    base64.b64encode(b'testpass'), base64.b64encode(b'\xff\xfe'),
                    base64.b64encode(b'a\x00b\x00c\x00d'), bytes(rng.randrange(256) for _ in range(6)),
                    good[:-2], good + b'='] ) + b'\r\n')
        elif r < 0.7:
            steps.append(tag() + b' LOGIN ' + rng.choice([
                b'testuser testpass', b'testuser wrong', b'"a b" c', b'{3+}\r\nabc d', b'a', b'\xff x',
                b'a\x80 b']) + b'\r\n')
        elif r < 0.85:
            steps.append(tag() + b' ' + rng.choice([b'CAPABILITY', b'NOOP', b'ID NIL', b'STARTTLS',
                                                    b'SELECT INBOX', b'LIST "" *', b'IDLE', b'LOGOUT',
                                                    b'ID ("a" "b")']) + b'\r\n')
        else:
            steps.append(rng.choice([b'\r\n', b'x\r\n', b'[\r\n', b'* x\r\n', b'+\r\n', b'DONE\r\n']))
    return steps


async def run_program(env, steps, preauth=None):
    """-> list of (asts | None, bytes written) per connection"""
    conns = []
    c = await env.connect()
    conns.append(c)
    if preauth is not None:
        for s in preauth:
            await send_step(c, s)
    else:
        user = b'u1 pass' if hasattr(env, 'layout') else b'testuser testpass'
        await c.send(b'l0 LOGIN ' + user + b'\r\n')
    other = None
    for who, data in steps:
        if c.closed and who == 'send':
            break
        if who == 'send':
            await send_step(c, data)
        else:
            if other is None:
                other = await env.connect()
                conns.append(other)
                user = b'u1 pass' if hasattr(env, 'layout') else b'testuser testpass'
                await other.send(b'l1 LOGIN ' + user + b'\r\nl2 SELECT INBOX\r\n')
            if not other.closed:
                await send_step(other, data)
                for _ in range(6):      # let the idler write its updates
                    await asyncio.sleep(0)
    for x in conns:
        await x.send_eof()
    return [(RECORDER.take(x), bytes(x.all_out), repr(x.exc) if x.exc else None) for x in conns]


def mutate(rng, b: bytes) -> bytes:
    m = bytearray(b)
    for _ in range(rng.choice([1, 1, 2])):
        if not m:
            break
        k = rng.randrange(len(m))
        op = rng.random()
        ch = rng.choice(b' ()[]{}"\\\r\n0123456789NILnil*+-.<>~') if rng.random() < 0.8 \
            else rng.randrange(256)
        if op < 0.35:
            m.insert(k, ch)
        elif op < 0.7:
            del m[k]
        else:
            m[k] = ch
    return bytes(m)


def section_live(ctx) -> None:
    from ..pymap_env import DictEnv, MaildirEnv, run
    rng = ctx.rng
    RECORDER.install()
    nprog = ctx.scale(14, 110)
    nmd = ctx.scale(3, 12)
    stream_cases, stream_keep = [], []
    chunks = {}
    stats = {'programs': 0, 'connections': 0, 'responses': 0, 'bytes': 0, 'escaped': 0}
    kinds = {}

    async def one(kind, prog, pre):
        if kind == 'dict':
            env = await DictEnv().start()
        else:
            env = await MaildirEnv(layout=kind).start()
        try:
            return await asyncio.wait_for(run_program(env, prog, pre), 60)
        finally:
            env.close()
    if ctx.quick:
        sweep = sorted(set(list(range(0, 0x21)) + [0x22, 0x25, 0x26, 0x28, 0x29, 0x2a, 0x2f, 0x5b,
                                                  0x5c, 0x5d, 0x7b, 0x7d, 0x7e, 0x7f, 0x80, 0xa0,
                                                  0xc3, 0xe9, 0xfe, 0xff]))
        sweeps = [sweep[:27], sweep[27:]]
    else:
        sweeps = [list(range(k, k + 32)) for k in range(0, 256, 32)]
    n2 = ctx.scale(10, 60)          # two-session programs, dict and maildir
    for p in range(nprog + nmd + len(sweeps) + n2):
        kind = 'dict' if p < nprog else rng.choice(['++', 'fs'])
        pre = gen_preauth(rng) if kind == 'dict' and rng.random() < 0.25 else None
        prog = gen_program(rng)
        if p >= nprog + nmd + len(sweeps):
            kind = 'dict' if (p - nprog - nmd - len(sweeps)) % 3 else rng.choice(['++', 'fs'])
            pre, prog = None, gen_program2(rng)
            stats['two_session'] = stats.get('two_session', 0) + 1
        elif p >= nprog + nmd:
            kind, pre, prog = 'dict', None, sweep_program(sweeps[p - nprog - nmd])
        replay = {'backend': kind, 'preauth': [s.hex() for s in (pre or [])],
                  'program': [[w, d.hex()] for w, d in prog]}
        try:
            results = run(one(kind, prog, pre), 120)
        except Exception as exc:
            ctx.failure('answered', f'program did not finish: {exc!r}', replay, {'kind': 'hang'})
            RECORDER.by_conn.clear()
            continue
        stats['programs'] += 1
        for entries, out, exc in results:
            stats['connections'] += 1
            stats['bytes'] += len(out)
            if exc:
                stats['escaped'] += 1
            ctx.count(('live', out), nontrivial=len(out) > 200)
            # ---- monitor: every byte parses
            for v in G.check_transcript(out):
                ctx.failure(v['kind'],
                            f'ill-formed response ({v["expected"]} at +{v["at"] - v["offset"]}): '
                            f'{v["line"][:160]!r}',
                            dict(replay, line=v['line'][:4000].hex()),
                            {'kind': v['kind']})
            # ---- every byte went through write_response
            joined = b''.join(d for _, d in entries)
            if joined != out:
                ctx.failure('accounting', 'bytes on the wire that no response object wrote',
                            replay, {'kind': 'accounting'})
            # ---- model vs wire
            # consecutive converted responses, cut into segments of bounded size
            seg_asts, seg_bytes = [], b''

            def close_segment():
                nonlocal seg_asts, seg_bytes
                if seg_asts:
                    stats['converted_segments'] = stats.get('converted_segments', 0) + 1
                    stream_cases.append(T.pair(T.lst(L.e_resp(x) for x in seg_asts),
                                               T.bytes_(seg_bytes)))
                    stream_keep.append(replay)
                seg_asts, seg_bytes = [], b''
            for a, d in entries:
                stats['responses'] += 1
                if a is None or len(d) > 20000:
                    key = 'unconverted' if a is None else 'oversize'
                    stats[key] = stats.get(key, 0) + 1
                    close_segment()
                    continue
                for x in a:
                    kinds[x[0]] = kinds.get(x[0], 0) + 1
                if len(seg_bytes) + len(d) > 12000:
                    close_segment()
                seg_asts.extend(a)
                seg_bytes += d
            close_segment()
            for ch in G.split_responses(out):
                if len(ch) < 6000:
                    chunks.setdefault(ch, None)
    ctx.extra['live'] = stats
    ctx.extra['live_response_kinds'] = kinds
    ctx.extra['unconverted'] = RECORDER.unconverted[:20]
    ctx.sample({'program': [d[:80].decode('latin-1') for _, d in gen_program(ctx.rng)[:6]]})
    if stats['responses'] and len(RECORDER.unconverted) > 0.02 * stats['responses'] + 2:
        ctx.disagreement('convert', {'unconverted': RECORDER.unconverted[:5],
                                     'of': stats['responses']})
    submit(ctx, 'live_stream', 'list resp * bytes', stream_cases, 'chk_stream', 'size',
           lambda i: {'replay': json.dumps(stream_keep[i])[:3000]})
    # ---- (iii) the two recognisers agree
    wf_cases, wf_keep = [], []
    seen = set()
    items = list(chunks)
    rng.shuffle(items)
    items = items[:ctx.scale(300, 2200)]
    for ch in items:
        for b in [ch] + [mutate(rng, ch) for _ in range(ctx.scale(2, 3))]:
            if b in seen:
                continue
            seen.add(b)
            verdict = G.wf_response(b)
            ctx.count(('wf', b), nontrivial=verdict)
            wf_cases.append(T.pair(T.bytes_(b), T.boolean(verdict)))
            wf_keep.append(b)
    # hand-written corner cases of the grammar
    for b in CORNER:
        if b not in seen:
            seen.add(b)
            wf_cases.append(T.pair(T.bytes_(b), T.boolean(G.wf_response(b))))
            wf_keep.append(b)
    submit(ctx, 'grammar_py_vs_coq', 'bytes * bool', wf_cases, 'chk_wf', 450,
           lambda i: {'bytes': wf_keep[i][:400].hex(), 'python': G.wf_response(wf_keep[i])})


CORNER = [b'', b'\r\n', b'* OK x\r\n', b'* OK x', b'* OK \r\n', b'* OK\r\n', b'* ok [alert] x\r\n',
          b'* OK [ALERT]x\r\n', b'* OK [ALERT] \r\n', b'* OK [X y z] t\r\n', b'* OK [X ] t\r\n',
          b'* OK [X\r\n', b'* OK [X t\r\n', b'* OK [UIDNEXT 0] t\r\n', b'* OK [UIDNEXT 1] t\r\n',
          b'* OK [UIDNEXT 1 ] t\r\n', b'* OK [APPENDUID 1 1:2,3] t\r\n', b'* OK [APPENDUID 1 1:] t\r\n',
          b'* OK [APPENDUID 1 *] t\r\n', b'* OK [COPYUID 1 1 2] t\r\n', b'* OK [COPYUID 1 1] t\r\n',
          b'* OK [PERMANENTFLAGS ()] t\r\n', b'* OK [PERMANENTFLAGS (\\* \\Seen kw)] t\r\n',
          b'* OK [PERMANENTFLAGS (\\*x)] t\r\n', b'* OK [MAILBOXID (a-_Z9)] t\r\n',
          b'* OK [MAILBOXID ()] t\r\n', b'* OK [MAILBOXID (a b)] t\r\n',
          b'* OK [CAPABILITY IMAP4rev1] t\r\n', b'* OK [CAPABILITY X] t\r\n',
          b'* OK [BADCHARSET (a {1}\r\nb)] t\r\n', b'* OK [BADCHARSET] t\r\n',
          b'* CAPABILITY IMAP4rev1 X=1\r\n', b'* CAPABILITY  IMAP4rev1\r\n', b'* CAPABILITY\r\n',
          b'+ \r\n', b'+\r\n', b'+ x\r\n', b'+ AA==\r\n', b'+ [X] y\r\n', b'+ [\r\n',
          b'a OK x\r\n', b'a+ OK x\r\n', b'a] OK x\r\n', b'a BYE x\r\n', b'a  OK x\r\n', b'a OKAY x\r\n',
          b'* 0 EXISTS\r\n', b'* 0 EXPUNGE\r\n', b'* 1 EXPUNGE\r\n', b'* 01 EXISTS\r\n',
          b'* 1 exists\r\n', b'* 1 EXISTS \r\n', b'* 1 FETCH ()\r\n', b'* 1 FETCH (UID 0)\r\n',
          b'* 1 FETCH (UID 1)\r\n', b'* 1 FETCH (UID 1 )\r\n', b'* 1 FETCH (FLAGS ())\r\n',
          b'* 1 FETCH (FLAGS (\\Seen  x))\r\n', b'* 1 FETCH (BODY[] NIL)\r\n',
          b'* 1 FETCH (BODY[]<0> "")\r\n', b'* 1 FETCH (BODY[1.] "")\r\n',
          b'* 1 FETCH (BODY[1.MIME] "")\r\n', b'* 1 FETCH (BODY[MIME] "")\r\n',
          b'* 1 FETCH (BODY[0] "")\r\n', b'* 1 FETCH (BODY[1.HEADER.FIELDS.NOT (a "b" {1}\r\nc)] "")\r\n',
          b'* 1 FETCH (BODY[HEADER.FIELDS ()] "")\r\n', b'* 1 FETCH (BINARY[1] ~{1}\r\nx)\r\n',
          b'* 1 FETCH (BINARY[1.TEXT] ~{1}\r\nx)\r\n', b'* 1 FETCH (BINARY[] NIL)\r\n',
          b'* 1 FETCH (BINARY.SIZE[1] 5)\r\n', b'* 1 FETCH (BINARY.PEEK[1] NIL)\r\n',
          b'* 1 FETCH (RFC822 {2}\r\nx)\r\n', b'* 1 FETCH (RFC822 {1}\r\nx)\r\n',
          b'* 1 FETCH (RFC822 {1}\r\n\x00)\r\n', b'* 1 FETCH (RFC822.SIZE 1 UID 2)\r\n',
          b'* 1 FETCH (INTERNALDATE " 1-Jan-2000 00:00:00 +0000")\r\n',
          b'* 1 FETCH (INTERNALDATE "1-Jan-2000 00:00:00 +0000")\r\n',
          b'* 1 FETCH (INTERNALDATE "01-jan-2000 00:00:00 -0000")\r\n',
          b'* 1 FETCH (INTERNALDATE "01-Foo-2000 00:00:00 +0000")\r\n',
          b'* 1 FETCH (EMAILID (M1) THREADID NIL)\r\n', b'* 1 FETCH (THREADID ())\r\n',
          b'* 1 FETCH (ENVELOPE (NIL NIL NIL NIL NIL NIL NIL NIL NIL NIL))\r\n',
          b'* 1 FETCH (ENVELOPE (NIL NIL NIL NIL NIL NIL NIL NIL NIL))\r\n',
          b'* 1 FETCH (ENVELOPE (NIL NIL ((NIL NIL NIL NIL)(NIL NIL NIL NIL)) NIL NIL NIL NIL NIL NIL NIL))\r\n',
          b'* 1 FETCH (BODY ("TEXT" "PLAIN" NIL NIL NIL "7BIT" 1 1))\r\n',
          b'* 1 FETCH (BODY ("TEXT" "PLAIN" NIL NIL NIL "7BIT" 1))\r\n',
          b'* 1 FETCH (BODY ("text" "plain" NIL NIL NIL NIL 1 1))\r\n',
          b'* 1 FETCH (BODY ("a" "b" NIL NIL NIL "7BIT" 1))\r\n',
          b'* 1 FETCH (BODY ("a" "b" NIL NIL NIL "7BIT" 1 1))\r\n',
          b'* 1 FETCH (BODY ({4}\r\ntext "b" NIL NIL NIL "7BIT" 1))\r\n',
          b'* 1 FETCH (BODY ("a" "b" ("k" "v") NIL NIL "7BIT" 1 NIL ("x" NIL) ("en" "fr") NIL (1 (2)) "e"))\r\n',
          b'* 1 FETCH (BODY ("a" "b" ("k") NIL NIL "7BIT" 1))\r\n',
          b'* 1 FETCH (BODY (("a" "b" NIL NIL NIL "7BIT" 1)("a" "b" NIL NIL NIL "7BIT" 1) "mixed"))\r\n',
          b'* 1 FETCH (BODY (("a" "b" NIL NIL NIL "7BIT" 1) ("a" "b" NIL NIL NIL "7BIT" 1) "mixed"))\r\n',
          b'* 1 FETCH (BODY ("MESSAGE" "RFC822" NIL NIL NIL "7BIT" 1 (NIL NIL NIL NIL NIL NIL NIL NIL NIL NIL) ("a" "b" NIL NIL NIL "7BIT" 1) 1))\r\n',
          b'* 1 FETCH (BODY ("MESSAGE" "RFC822" NIL NIL NIL "7BIT" 1))\r\n',
          b'* LIST () NIL INBOX\r\n', b'* LIST () "/" ""\r\n', b'* LIST () "//" x\r\n', b'* LIST () "" x\r\n',
          b'* LIST () "\\"" x\r\n', b'* LIST () "\\\\" {1}\r\nx\r\n', b'* LIST (\\Noselect \\Marked) "/" x\r\n',
          b'* LIST (\\Noselect \\HasChildren) "/" x\r\n', b'* LIST (Noselect) "/" x\r\n',
          b'* LIST (\\a) "/" x y\r\n', b'* LSUB () "." "a b"\r\n', b'* LIST () "/" "a\rb"\r\n',
          b'* LIST () "/" "a\\nb"\r\n', b'* LIST () "/" "\xe9"\r\n', b'* LIST () "/" a]b\r\n',
          b'* SEARCH\r\n', b'* SEARCH 1 2\r\n', b'* SEARCH 0\r\n', b'* SEARCH  1\r\n', b'* SEARCH 1 \r\n',
          b'* STATUS x ()\r\n', b'* STATUS x (MESSAGES 1 UNSEEN 0)\r\n', b'* STATUS x (MESSAGES)\r\n',
          b'* STATUS x (FOO 1)\r\n', b'* STATUS x (MAILBOXID (F1))\r\n', b'* STATUS "x y" (RECENT 1)\r\n',
          b'* ID NIL\r\n', b'* ID ()\r\n', b'* ID ("a" "b" "c" NIL)\r\n', b'* ID ("a")\r\n',
          b'* ID (NIL "b")\r\n', b'* FLAGS ()\r\n', b'* FLAGS (\\Seen kw)\r\n', b'* FLAGS (\\*)\r\n',
          b'* BYE x\r\n* OK y\r\n', b'* BYE [X] y\r\n', b'* PREAUTH x\r\n', b'* FOO\r\n', b'*\r\n', b'* \r\n',
          b'* OK caf\xc3\xa9\r\n', b'* OK a\x00b\r\n', b'* OK a\rb\r\n', b'* OK x\n', b'* OK x\r\r\n']


def section_producer(ctx) -> None:
    """Resp/Producer.v against the code that builds the responses: the
    parsers and leaf functions on their own, and do_select / do_status /
    do_list / check_command / "<COMMAND> completed." on the inputs recorded
    during the live runs (section_live must have run)"""
    import random as _random
    import re
    from pymap.parsing import Params, Parseable
    from pymap.parsing.exceptions import NotParseable
    from pymap.parsing.primitives import Atom
    from pymap.parsing.specials import Tag, Flag, ObjectId
    from pymap.listtree import ListEntry
    from pymap.mailbox import MailboxSnapshot
    import pymap.mailbox as pm
    rng = ctx.rng
    tagp, atomp = Tag._pattern, Parseable._atom_pattern
    leaf, lkeep = [], []

    def add(term, what):
        leaf.append(term)
        lkeep.append(what)
    for c in range(256):
        add('(LClass %s %s %s)' % (T.N(c), T.boolean(tagp.fullmatch(bytes([c])) is not None),
                                   T.boolean(atomp.fullmatch(bytes([c])) is not None)), ('class', c))

    def parse(cls, buf):
        try:
            v, rest = cls.parse(memoryview(buf), Params())
        except NotParseable:
            return 'None'
        return f'(Some ({T.bytes_(bytes(v))}, {T.bytes_(bytes(rest))}))'
    bufs = [b'', b' ', b'  a1 NOOP', b'\\Seen x', b'\\seEN)', b' \\', b'\\\\x', b'kw(', b'+', b'a]b c',
            b'\\*', b'x[y z']
    for c in range(256):
        bufs.append(bytes([c]) + b'a' + bytes([c]) + b'Bc d')
        bufs.append(b' \\' + bytes([c]) + b'eEn')
    for _ in range(ctx.scale(150, 1500)):
        bufs.append(bytes(rng.choice(b' \\aBz09]+[*(.-') if rng.random() < 0.8 else rng.randrange(256)
                          for _ in range(rng.randint(0, 10))))
    for ctor, cls in (('LTag', Tag), ('LAtom', Atom), ('LFlag', Flag)):
        for b in bufs:
            ctx.count((ctor, b), nontrivial=True)
            add(f'({ctor} {T.bytes_(b)} {parse(cls, b)})', (ctor, b.hex()))
    for e in (False, True):
        for m in (None, False, True):
            for ch in (False, True):
                attrs = ListEntry('x', e, m, ch).attributes
                add('(LAttrs %s %s %s %s)' % (T.boolean(e), 'None' if m is None else
                                              f'(Some {T.boolean(m)})', T.boolean(ch),
                                              T.lst(T.bytes_(a) for a in attrs)), ('attrs', e, m, ch))
    import random as _r
    for _ in range(40):
        bits = rng.choice([0, 1, 15, 16, 2 ** 128 - 1, rng.getrandbits(128), rng.getrandbits(64)])
        orig_bits = _r.getrandbits
        try:
            _r.getrandbits = lambda n, bits=bits: bits
            got = ObjectId.random_mailbox_id().value
        finally:
            _r.getrandbits = orig_bits
        add(f'(LOid {T.N(bits)} {T.bytes_(got)})', ('oid', bits))
    for t in (0, 1, 65534, 65535, 65536, 131070, 1790000000, rng.randrange(2 ** 31)):
        for r in (0, 1, 65535, rng.randrange(65536)):
            o_time, o_rand = pm.time.time, pm.random.randint
            try:
                pm.time.time = lambda t=t: float(t)
                pm.random.randint = lambda a, b, r=r: r
                v = MailboxSnapshot.new_uid_validity()
            finally:
                pm.time.time, pm.random.randint = o_time, o_rand
            add(f'(LValidity {T.N(t)} {T.N(r)} {T.N(v)})', ('validity', t, r, v))
    submit(ctx, 'producer_leaves', 'leaf_case', leaf, 'chk_leaf', 1300,
           lambda i: {'case': repr(lkeep[i])})
    # the recorded commands of the live runs
    prod = RECORDER.producer
    kinds = {}
    cs, keep = [], []
    rng.shuffle(prod)
    for kind, term, data in prod:
        if kinds.get(kind, 0) >= ctx.scale(60, 400) or len(data) > 8000:
            continue
        kinds[kind] = kinds.get(kind, 0) + 1
        ctx.count(('producer', kind, data), nontrivial=True)
        cs.append(T.pair(term, T.bytes_(data)))
        keep.append((kind, term[:300], data[:300]))
    ctx.extra['producer_cases'] = kinds
    submit(ctx, 'producer', 'list resp * bytes', cs, 'chk_frame', 'size',
           lambda i: {'kind': keep[i][0], 'model': keep[i][1], 'wire': keep[i][2].decode('latin-1')})
    RECORDER.producer = []


# ============================================== (v) the FETCH value producer
def section_fetch_producer(ctx) -> None:
    """pymap/fetch.py + message.py + mime on hostile messages vs
    Resp/FetchProducer.v (see harness/c07fetch.py)"""
    from .. import c07fetch as F
    from .. import mime_c03 as M
    rng = ctx.rng
    msgs = list(F.TARGETED)
    for _ in range(ctx.scale(45, 400)):
        msgs.append(gen_message(rng))
    for _ in range(ctx.scale(20, 200)):
        msgs.append(M.gen_message(rng, max_depth=3))
    if ctx.quick:
        values = [0x00, 0x09, 0x0a, 0x0d, 0x20, 0x22, 0x28, 0x2a, 0x2d, 0x2b, 0x2f, 0x3b, 0x3d, 0x4d,
                  0x54, 0x58, 0x5c, 0x6d, 0x74, 0x78, 0x7f, 0x80, 0xe9, 0xff]
    else:
        values = range(256)
    for base in F.CT_SWEEP_BASES:
        for v in values:
            msgs.append(base.replace(b'?', bytes([v])))
    cases, keep = [], []
    hist = {'raised': 0, 'multi': 0, 'msg': 0, 'nonid': 0}
    for d in msgs:
        if len(d) > 6000:
            continue
        meta = F.gen_meta(rng)
        seq = rng.choice([1, 2, 77, 4294967295])
        texts = F.gen_attr_texts(rng)
        try:
            obs, raised = F.observe(d, texts, meta, seq)
        except Exception as exc:
            ctx.failure('fetch_producer_raises', f'building the FETCH values raised {exc!r}',
                        {'message': d.hex(), 'attrs': [t.decode('latin-1') for t in texts]},
                        {'kind': 'fetch_producer_raises'})
            continue
        hist['raised'] += len(raised)
        if obs is None:
            continue
        hist['nonid'] += len(obs['dec'])
        hist['multi'] += obs['whole'].count(b'"multipart"') + obs['whole'].count(b' "mixed"')
        hist['msg'] += obs['whole'].lower().count(b'"message" "rfc822"')
        ctx.count(('fetch_producer', obs['whole']), nontrivial=True)
        bad = G.check_transcript(obs['whole'])
        if bad:
            v = bad[0]
            ctx.failure(v['kind'], f'FETCH response built from a hostile message is ill-formed '
                        f'({v["expected"]} at {v["at"]}): {obs["whole"][:300]!r}',
                        {'message': d.hex(), 'attrs': [t.decode('latin-1') for t in obs['attr_texts']],
                         'bytes': obs['whole'].hex()}, {'kind': v['kind']})
        cases.append(F.e_case(obs))
        keep.append(obs)
    if keep:
        ctx.sample({'fetch_producer_message': keep[-1]['d'][:200].decode('latin-1'),
                    'response': keep[-1]['whole'][:300].decode('latin-1')})
    ctx.extra['fetch_producer'] = dict(hist, messages=len(keep),
                                       items=sum(len(o['items']) for o in keep))
    JOB_HEADERS['fetch_producer'] = F.HEADER
    submit(ctx, 'fetch_producer', F.CASE_TYPE, cases, F.CHECKER, 'size',
           lambda i: {'message': keep[i]['d'].hex(),
                      'message_text': keep[i]['d'][:400].decode('latin-1'),
                      'attrs': [t.decode('latin-1') for t in keep[i]['attr_texts']],
                      'impl': keep[i]['whole'][:1200].decode('latin-1')})


# ================================= (vi) maildir folders with dovecot-keywords
def section_keywords(ctx) -> None:
    """see harness/c07_keywords.py"""
    from .. import c07_keywords as K
    K.family(ctx, submit, JOB_HEADERS)
    K.live(ctx)


SECTIONS = [section_print, section_leaves, section_live, section_producer,
            section_fetch_producer, section_keywords]


def run(ctx) -> None:
    ctx.rule = ('(i) random response ASTs (every leaf string drawn from a hostile alphabet: quotes, '
                'backslash, CR, LF, NUL, 8-bit, non-BMP, lone surrogates, lengths around 64), the '
                'real object built from the same values; String.build / Mailbox / DateTime swept '
                'over every byte value and ~400 code points at several positions; (ii) generated '
                'command programs against the in-process server (dict + maildir), every response '
                'object converted from its fields; (iii) every response written plus 2-4 byte '
                'mutations of it and a list of grammar corner cases, Python vs Coq recogniser; '
                'non-trivial = distinct by bytes')
    ctx.assumptions += [
        'CPython bytes/str/datetime/base64 are the semantics of the implementation side',
        'the stdlib email package decides what a header value means (the model starts from the '
        'header objects it returns)',
        'Wf.v: facts about a response object that pymap\'s own types, parsers and configuration '
        'guarantee (validated on every response of the live runs by chk_stream)',
        'literal payloads are *OCTET (NUL allowed); numbers are 1*DIGIT without the 32-bit bound',
    ]
    ctx.check_proofs(['Resp/Check', 'Resp/FetchProducerCheck', 'Resp/KeywordsCheck'])
    for sec in SECTIONS:
        sec(ctx)
    flush_jobs(ctx)


def replay(ctx, obj) -> int:
    from ..pymap_env import DictEnv, MaildirEnv, run as arun
    if 'program' in obj:
        prog = [(w, bytes.fromhex(d)) for w, d in obj['program']]
        pre = [bytes.fromhex(s) for s in obj.get('preauth', [])] or None
        RECORDER.install()

        async def go():
            kind = obj.get('backend', 'dict')
            env = await (DictEnv().start() if kind == 'dict' else MaildirEnv(layout=kind).start())
            try:
                return await run_program(env, prog, pre)
            finally:
                env.close()
        rc = 0
        for _entries, out, exc in arun(go(), 120):
            print(out.decode('latin-1'))
            if exc:
                print('escaped:', exc)
            for v in G.check_transcript(out):
                rc = 1
                print('ILL-FORMED', v['kind'], v['expected'], v['line'][:300])
        return rc
    if 'keywords_file' in obj and 'layout' in obj:
        from .. import c07_keywords as K
        out, exc = arun(K.live_one(bytes.fromhex(obj['keywords_file']), obj['layout'], True), 120)
        print(out.decode('latin-1'))
        bad = G.check_transcript(out)
        for v in bad:
            print('ILL-FORMED', v['kind'], v['expected'], v['line'][:300])
        return 1 if bad else 0
    if 'bytes' in obj:
        b = bytes.fromhex(obj['bytes'])
        print(b)
        bad = G.check_transcript(b)
        for v in bad:
            print('ILL-FORMED', v['kind'], v['expected'], v['at'])
        return 1 if bad else 0
    print(json.dumps(obj, indent=1)[:3000])
    return 0
