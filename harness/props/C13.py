"""C13 — SEARCH returns exactly the matching messages.

Proofs: coq/theories/Props/C13.v over Search/{Text,Keys,Msg,Spec,Model}.v.
Correspondence (model vs the real server, evaluated inside Coq):
  * search  — random mailboxes on the dict backend (APPENDed generated
              messages, flags, internal dates around midnight in several
              zones, STOREs, messages expunged by another session so that the
              searching session's view keeps hidden expunged messages), random
              search programs (depth <= 6, every key) rendered to wire form,
              executed by the real server as SEARCH and UID SEARCH; the message
              records given to the model are the probe
              FETCH 1:* (UID FLAGS INTERNALDATE RFC822.SIZE EMAILID THREADID BODY.PEEK[])
              of the same session;
  * parse   — the SearchKey values the real parser built for each wire form
              (captured at ConnectionState.do_search) vs [compile];
  * in/utf8 — SearchCriteria._in, BaseLoadedMessage.contains and the UTF-8
              encoding of BODY/TEXT strings on random strings and sweeps;
  * disabled— config.disable_search_keys vs crit_of's refusal.
Monitors (on the implementation only, from RFC 3501 §6.4.4): an independent
evaluator over the probe dump using stdlib email, valid programs are
accepted, metamorphic laws (NOT NOT, OR commutes, De Morgan, AND associates),
UID SEARCH vs SEARCH through the probed seq<->uid map.
"""
from __future__ import annotations

import inspect
import random as _random

from .. import coqterm as T
from .. import searchlib as S
from ..pymap_env import DictEnv, MaildirEnv, run as run_async

HEADER = ('From PV Require Import Base.Prelude Wire.SeqSet Search.Text Search.Keys Search.SentDate '
          'Search.Msg Search.Spec Search.Model Search.SearchCheck.\n')

RECORDED: list = []
_installed = False


def _install_recorder() -> None:
    """Remember the command object every do_search receives (harness process
    only; nothing is changed in /repo)."""
    global _installed
    if _installed:
        return
    from pymap.imap.state import ConnectionState
    orig = ConnectionState.do_search

    async def do_search(self, cmd):
        RECORDED.append(cmd)
        return await orig(self, cmd)
    ConnectionState.do_search = do_search
    _installed = True


# --------------------------------------------------------------- one mailbox
class Box:
    def __init__(self, ctx, rng, ident: int, backend: str = 'dict'):
        self.ctx = ctx
        self.rng = rng
        self.ident = ident
        self.backend = backend
        self.script: list[tuple[str, bytes]] = []   # every state-relevant command sent
        self.conns: dict[str, object] = {}
        self.views: list[dict] = []     # {'raw': [...], 'recs': [...], 'queries': [...]}

    async def send(self, who: str, data: bytes, keep: bool = True) -> bytes:
        if keep:
            self.script.append((who, data))
        return await self.conns[who].cmd(data)

    async def append(self, who: str) -> None:
        rng = self.rng
        msg = S.gen_message(rng)
        flags, when = S.gen_append_meta(rng)
        r = await self.send(who, b'ap APPEND box (' + b' '.join(flags) + b') "' + when.encode() +
                            b'" {%d}\r\n' % len(msg) + msg + b'\r\n')
        assert b'ap OK' in r, r

    async def probe(self, who: str, uid: bool) -> list[dict]:
        cmd = (b'pr UID FETCH 1:* ' if uid else b'pr FETCH 1:* ') + S.PROBE_ITEMS + b'\r\n'
        await self.send(who, cmd)             # flushes pending EXISTS / flag updates
        r = await self.send(who, cmd)
        if b'pr OK' not in r:
            return []
        return S.parse_probe(r)

    async def query(self, who: str, view: dict, prog, uid: bool, tag: str) -> dict:
        wire = S.render_program(self.rng, prog, uid)
        RECORDED.clear()
        resp = await self.send(who, wire, keep=uid)
        status, ids, line = S.parse_search(resp)
        q = {'prog': prog, 'uid': uid, 'wire': wire, 'status': status, 'ids': ids, 'line': line,
             'parsed': list(RECORDED[-1].keys) if RECORDED else None, 'tag': tag,
             'script_len': len(self.script)}
        view['queries'].append(q)
        return q

    def pick_program(self, gen):
        if self.backend != 'dict' and self.rng.random() < 0.3:
            return gen.or_meta_content()[0]
        return gen.program()

    async def twin_pair(self, view: dict, gen) -> None:
        """The same program as SEARCH and then as UID SEARCH on a view that may
        hold hidden expunged messages (the UID SEARCH ends that state)."""
        rng = self.rng
        prog = gen.program() if rng.random() < 0.5 else [gen.key(rng.choice([0, 0, 1]))]
        qs = await self.query('a', view, prog, False, 'p1-twin')
        qu = await self.query('a', view, prog, True, 'p1-uid')
        qs['twin'] = qu

    async def localise(self, view: dict) -> None:
        """For every query the RFC evaluator rejects, ask the server about each
        leaf key on its own (plain SEARCH: the view does not change) and keep
        the leaves it also gets wrong: the minimal failing inputs."""
        mvs = _mvs(view)
        budget = 12
        for q in list(view['queries']):
            if q['status'] != b'OK' or q['ids'] is None or q['tag'] == 'leaf' or budget <= 0:
                continue
            _must, _may, missing, extra = judge(q, mvs)
            if not (missing or extra):
                continue
            culprits = []
            seen = set()
            for leaf in (l for k in q['prog'] for l in _leaves(k)):
                if repr(leaf) in seen or budget <= 0:
                    continue
                seen.add(repr(leaf))
                budget -= 1
                lq = await self.query('a', view, [leaf], False, 'leaf')
                if lq['status'] == b'OK' and lq['ids'] is not None:
                    _m, _y, mi, ex = judge(lq, mvs)
                    if mi or ex:
                        culprits.append(lq)
            q['culprits'] = culprits

    async def scenario(self, nq1: int, nq2: int) -> None:
        env = await (DictEnv() if self.backend == 'dict' else MaildirEnv()).start()
        try:
            await self._scenario(env, nq1, nq2)
        finally:
            env.close()

    async def _scenario(self, env, nq1: int, nq2: int) -> None:
        rng = self.rng
        for who in ('p', 'a', 'b'):
            self.conns[who] = await env.login()
        r = await self.send('p', b'p1 CREATE box\r\n')
        assert b'p1 OK' in r, r
        for _ in range(rng.choice([0, 1, 2, 3, 4, 5, 6])):
            await self.append('p')
        if rng.random() < 0.5:      # another session takes \Recent of the early messages
            self.conns['r'] = await env.login()
            await self.send('r', b'r1 SELECT box\r\n')
            await self.send('r', b'r2 LOGOUT\r\n')
        for _ in range(rng.choice([0, 0, 1, 2, 3])):
            await self.append('p')
        examine = rng.random() < 0.15
        await self.send('a', b'a1 EXAMINE box\r\n' if examine else b'a1 SELECT box\r\n')
        r = await self.send('b', b'b1 SELECT box\r\n')
        total = int(r.split(b' EXISTS')[0].split(b'* ')[-1]) if b' EXISTS' in r else 0
        sysf = [b'\\Answered', b'\\Flagged', b'\\Deleted', b'\\Draft', b'\\Seen']
        for who in ('b', 'a'):
            if who == 'a' and examine or total == 0:
                continue
            for _ in range(rng.randint(0, 3)):
                fl = b' '.join(f for f in sysf if rng.random() < 0.35)
                mode = rng.choice([b'+FLAGS', b'-FLAGS', b'FLAGS', b'+FLAGS.SILENT'])
                await self.send(who, b's1 STORE %d %b (%b)\r\n' % (rng.randint(1, total), mode, fl))
        if rng.random() < 0.3:
            await self.append('p')
        expunged = False
        if total > 0 and rng.random() < 0.6:
            victims = sorted({rng.randint(1, total) for _ in range(rng.randint(1, 3))})
            await self.send('b', b'b2 STORE %b +FLAGS.SILENT (\\Deleted)\r\n' %
                            b','.join(b'%d' % v for v in victims))
            await self.send('b', b'b3 EXPUNGE\r\n')
            expunged = True
        # ---- phase 1: the view of session a keeps hidden expunged messages
        raw = await self.probe('a', uid=False)
        view = {'raw': raw, 'recs': [S.oracle_record(x) for x in raw], 'queries': [],
                'phase': 1, 'hidden_expunged': expunged}
        self.views.append(view)
        gen = S.KeyGen(rng, view['recs'])
        for _ in range(nq1):
            await self.query('a', view, self.pick_program(gen), False, 'p1')
        await self.localise(view)
        again = await self.probe('a', uid=False)
        view['stable'] = [(x['uid'], x['seq'], x['flags']) for x in again] == \
            [(x['uid'], x['seq'], x['flags']) for x in raw]
        # the first UID SEARCH still runs over that view (the EXPUNGEs are sent with
        # it): it must report the same messages as SEARCH, hidden expunged ones included
        await self.twin_pair(view, gen)
        # ---- more rounds: session b expunges one more message, session a searches again
        for _round in range(2):
            r = await self.send('b', b'b4 NOOP\r\n')
            r = await self.send('b', b'b5 SEARCH ALL\r\n')
            alive = [int(x) for ln in r.split(b'\r\n') if ln.startswith(b'* SEARCH') for x in ln[8:].split()]
            if not alive or rng.random() < 0.3:
                break
            await self.send('b', b'b6 STORE %d +FLAGS.SILENT (\\Deleted)\r\n' % rng.choice(alive))
            await self.send('b', b'b7 EXPUNGE\r\n')
            raw_n = await self.probe('a', uid=False)
            view_n = {'raw': raw_n, 'recs': [S.oracle_record(x) for x in raw_n], 'queries': [],
                      'phase': 1, 'hidden_expunged': True}
            self.views.append(view_n)
            gen_n = S.KeyGen(rng, view_n['recs'])
            for _ in range(max(2, nq1 // 6)):
                await self.query('a', view_n, gen_n.program(), False, 'p1')
            await self.localise(view_n)
            again = await self.probe('a', uid=False)
            view_n['stable'] = [(x['uid'], x['seq'], x['flags']) for x in again] == \
                [(x['uid'], x['seq'], x['flags']) for x in raw_n]
            await self.twin_pair(view_n, gen_n)
        # ---- phase 2: synchronised view, every program as SEARCH and UID SEARCH
        raw2 = await self.probe('a', uid=True)
        view2 = {'raw': raw2, 'recs': [S.oracle_record(x) for x in raw2], 'queries': [],
                 'phase': 2, 'hidden_expunged': False, 'stable': True}
        self.views.append(view2)
        gen2 = S.KeyGen(rng, view2['recs'])
        if self.backend != 'dict':
            # OR with a metadata-only first and a content-needing second operand, and
            # its commuted twin (SearchKey.requirement must carry both operands)
            for _ in range(max(3, nq2 // 2)):
                p_ab, p_ba = gen2.or_meta_content()
                uid = rng.random() < 0.3
                q1 = await self.query('a', view2, p_ab, uid, 'law:or_comm')
                q2 = await self.query('a', view2, p_ba, uid, 'law:or_comm')
                q1['law'] = ('or_comm', [q2])
        for _ in range(nq2):
            prog = self.pick_program(gen2)
            qs = await self.query('a', view2, prog, False, 'p2')
            qu = await self.query('a', view2, prog, True, 'p2')
            qs['twin'] = qu
        # metamorphic variants
        for _ in range(max(2, nq2 // 2)):
            base = gen2.program()
            k = base[0]
            a_, b_, c_ = gen2.key(2), gen2.key(2), gen2.key(1)
            groups = [
                ('not_not', [[('NOT', ('NOT', k))] + base[1:], base]),
                ('not_not_paren', [[('NOT', ('AND', [('NOT', k)]))] + base[1:], base]),
                ('or_comm', [[('OR', a_, b_)] + base[1:], [('OR', b_, a_)] + base[1:]]),
                ('demorgan', [[('NOT', ('OR', a_, b_))] + base[1:], [('NOT', a_), ('NOT', b_)] + base[1:],
                              [('NOT', ('AND', [('OR', a_, b_)]))] + base[1:]]),
                ('demorgan_and', [[('NOT', ('AND', [a_, b_]))] + base[1:],
                                  [('OR', ('NOT', a_), ('NOT', b_))] + base[1:]]),
                ('and_assoc', [[('AND', [a_, ('AND', [b_, c_])])] + base[1:],
                               [('AND', [('AND', [a_, b_]), c_])] + base[1:], [a_, b_, c_] + base[1:]]),
            ]
            law, progs = rng.choice(groups)
            uid = rng.random() < 0.5
            qs = [await self.query('a', view2, p_, uid, 'law:' + law) for p_ in progs]
            qs[0]['law'] = (law, qs[1:])
        await self.localise(view2)
        final = await self.probe('a', uid=True)
        view2['stable'] = [(x['uid'], x['seq'], x['flags']) for x in final] == \
            [(x['uid'], x['seq'], x['flags']) for x in raw2]
        for who in self.conns:
            try:
                await self.conns[who].send_eof()
            except Exception:
                pass


def _replay_of(box: Box, q: dict) -> dict:
    script = box.script[:q['script_len']]
    if not script or script[-1][1] != q['wire']:
        script = script + [('a', q['wire'])]
    return {'box': box.ident, 'backend': box.backend, 'script': [[w, d.hex()] for w, d in script],
            'wire': q['wire'].decode('latin-1'), 'uid_command': q['uid'], 'program': repr(q['prog'])}


# ---------------------------------------------------------------- monitoring
def _has(k, pred) -> bool:
    if pred(k):
        return True
    t = k[0]
    if t == 'NOT':
        return _has(k[1], pred)
    if t == 'OR':
        return _has(k[1], pred) or _has(k[2], pred)
    if t == 'AND':
        return any(_has(x, pred) for x in k[1])
    return False


def _quirk_eval(prog, mvs, uidcmd, quirk):
    """The RFC evaluator with one known deviation switched on (only used to
    name the class of a failure)."""
    def tr(k):
        t = k[0]
        if quirk == 'body_as_text' and t == 'BODY':
            return ('TEXT', k[1])
        if quirk == 'seq_as_uid' and t == 'SEQ' and uidcmd:
            return ('UID', k[1])
        if t == 'NOT':
            return ('NOT', tr(k[1]))
        if t == 'OR':
            return ('OR', tr(k[1]), tr(k[2]))
        if t == 'AND':
            return ('AND', [tr(x) for x in k[1]])
        return k
    return S.rfc_search([tr(k) for k in prog], mvs)


def _mvs(view: dict):
    if 'mvs' not in view:
        view['mvs'] = [S.MsgView(x) for x in view['raw']]
    return view['mvs']


def _leaves(k):
    t = k[0]
    if t == 'NOT':
        yield from _leaves(k[1])
    elif t == 'OR':
        yield from _leaves(k[1])
        yield from _leaves(k[2])
    elif t == 'AND':
        for x in k[1]:
            yield from _leaves(x)
    else:
        yield k


def judge(q: dict, mvs):
    """-> (must, may, missing, extra) in the id space of the command."""
    seq2uid = {m.seq: m.uid for m in mvs}
    must, may = S.rfc_search(q['prog'], mvs)
    if q['uid']:
        must, may = [seq2uid[s] for s in must], [seq2uid[s] for s in may]
    got = sorted(q['ids'])
    return must, may, [x for x in must if x not in got], [x for x in got if x not in may]


def monitor_view(ctx, box: Box, view: dict, stats: dict) -> None:
    mvs = _mvs(view)
    seq2uid = {m.seq: m.uid for m in mvs}
    for q in view['queries']:
        prog, uid = q['prog'], q['uid']
        ctx.count(('q', box.ident, q['wire']), nontrivial=bool(q['ids']))
        stats['queries'] += 1
        stats['depth'][max(S.key_depth(k) for k in prog)] = \
            stats['depth'].get(max(S.key_depth(k) for k in prog), 0) + 1
        for k in prog:
            for kind in S.key_kinds(k):
                stats['kinds'][kind] = stats['kinds'].get(kind, 0) + 1
        if q['status'] != b'OK' or q['ids'] is None:
            kind = 'rejected'
            if any(_has(k, lambda x: x[0] == 'NOT' and x[1][0] == 'NOT') for k in prog):
                kind = 'not_not_rejected'
            ctx.failure('valid_program_accepted',
                        f'a grammatical search program is answered {q["line"]!r}',
                        _replay_of(box, q), {'kind': kind})
            continue
        got = sorted(q['ids'])
        if len(set(got)) != len(got):
            ctx.failure('exact_matches', 'duplicate ids in the SEARCH response',
                        _replay_of(box, q), {'kind': 'duplicates'})
        must, may, missing, extra = judge(q, mvs)
        stats['free'] += len(may) - len(must)
        stats['hits'] += len(got)
        if view.get('hidden_expunged'):
            stats['hidden_view_queries'] += 1
        if (missing or extra) and q.get('culprits'):
            continue          # reported through its minimal leaf queries (tag 'leaf') below
        if missing or extra:
            kind = 'other'
            for quirk in ('body_as_text', 'seq_as_uid'):
                m2, y2 = _quirk_eval(prog, mvs, uid, quirk)
                if uid:
                    m2, y2 = [seq2uid[s] for s in m2], [seq2uid[s] for s in y2]
                if all(x in got for x in m2) and all(x in y2 for x in got):
                    kind = {'body_as_text': 'body_searches_message_header',
                            'seq_as_uid': 'uid_search_reads_seqset_as_uids'}[quirk]
                    break
            if kind == 'other' and any(_has(k, lambda x: x[0] == 'FIELD' and x[1] == 'SUBJECT' and x[2] == '')
                                       for k in prog):
                kind = 'subject_empty_string'
            ctx.failure('exact_matches',
                        f'{"UID " if uid else ""}SEARCH result {got} but RFC 3501 requires {must}'
                        f' (allows {may}); missing {missing}, extra {extra}; view phase {view["phase"]}',
                        {**_replay_of(box, q), 'expected_must': must, 'expected_may': may, 'got': got},
                        {'kind': kind})
        twin = q.get('twin')
        if twin is not None and twin['status'] == b'OK' and twin['ids'] is not None:
            stats['uid_vs_seq'] += 1
            if [seq2uid.get(s) for s in got] != sorted(twin['ids']):
                ctx.failure('uid_vs_seq',
                            f'SEARCH gives {got} = UIDs {[seq2uid.get(s) for s in got]} but '
                            f'UID SEARCH of the same program gives {sorted(twin["ids"])}',
                            {**_replay_of(box, twin), 'seq_wire': q['wire'].decode('latin-1')},
                            {'kind': 'uid_vs_seq'})
        if 'law' in q:
            law, others = q['law']
            for o in others:
                stats['laws'][law] = stats['laws'].get(law, 0) + 1
                if o['status'] != b'OK' or o['ids'] is None:
                    continue
                if sorted(o['ids']) != got:
                    ctx.failure('equivalent_programs',
                                f'{law}: {q["wire"]!r} -> {got} but {o["wire"]!r} -> {sorted(o["ids"])}',
                                {**_replay_of(box, o), 'first_wire': q['wire'].decode('latin-1')},
                                {'kind': law})


# ------------------------------------------------------------ correspondence
def _view_ok_for_model(view: dict) -> str | None:
    """The probe must be a faithful dump: re-parsing the probed octets gives
    a message of the advertised size."""
    for raw, rec in zip(view['raw'], view['recs']):
        if rec['reparsed_len'] != len(raw['raw']) or rec['size'] != len(raw['raw']):
            return f'uid {rec["uid"]}: RFC822.SIZE {rec["size"]}, BODY[] {len(raw["raw"])} octets, ' \
                   f're-parsed {rec["reparsed_len"]}'
    if not view.get('stable', True):
        return 'the view changed while it was being searched'
    return None


def section_search(ctx, backend: str = 'dict') -> list:
    _install_recorder()
    rng = ctx.rng
    if backend == 'dict':
        n_boxes, nq1, nq2 = ctx.scale(32, 400), 36, 12
    else:       # maildir: content is loaded on request only (SearchKey.requirement)
        n_boxes, nq1, nq2 = ctx.scale(8, 60), 24, 8
    sfx = '' if backend == 'dict' else '_maildir'
    stats = {'queries': 0, 'depth': {}, 'kinds': {}, 'free': 0, 'hits': 0, 'uid_vs_seq': 0,
             'laws': {}, 'hidden_view_queries': 0, 'views': 0, 'messages': 0,
             'views_with_hidden_expunged': 0, 'probe_anomalies': 0}
    box_cases, box_keep = [], []
    for i in range(n_boxes):
        box = Box(ctx, _random.Random(rng.getrandbits(64)), i, backend)
        run_async(box.scenario(nq1, nq2), timeout=300)
        pool: dict = {}
        vterms, vkeep = [], []
        for view in box.views:
            stats['views'] += 1
            stats['messages'] += len(view['recs'])
            stats['views_with_hidden_expunged'] += 1 if view.get('hidden_expunged') else 0
            monitor_view(ctx, box, view, stats)
            why = _view_ok_for_model(view)
            for rec in view['recs']:
                # (maildir: the content of an expunged message vanishes, hence the key)
                pool.setdefault((rec['uid'], S.content_key(rec)), (len(pool), rec))
            if why is not None:
                stats['probe_anomalies'] += 1
                ctx.extra.setdefault('probe_anomalies', []).append(why)
                continue
            qterms, qkeep = [], []
            for q in view['queries']:
                if q['status'] != b'OK' or q['ids'] is None or q['parsed'] is None:
                    continue
                # parser level, every query: the SearchKey values are those of [compile]
                # (Python mirror); a sample of them is also checked inside Coq, with
                # SearchKey.requirement
                want = {S.py_compile(k) for k in q['prog']}
                have = {S.canon_skey(x) for x in q['parsed']}
                if want != have:
                    ctx.failure('parser_builds_program',
                                f'the parser built {sorted(have - want, key=repr)[:3]!r} where the program '
                                f'has {sorted(want - have, key=repr)[:3]!r}',
                                _replay_of(box, q), {'kind': 'parser_value'})
                sk = 'None'
                if want != have or rng.random() < 0.3:
                    try:
                        sk = T.option(T.lst(T.pair(S.enc_skey(x), T.N(x.requirement.value))
                                            for x in q['parsed']))
                    except ValueError as exc:
                        ctx.disagreement('search_parse', {'wire': q['wire'].decode('latin-1'),
                                                          'unrepresentable': str(exc)})
                        continue
                qterms.append(T.pair(T.boolean(q['uid']), S.enc_prog(q['prog']),
                                     T.nlist(sorted(q['ids'])), sk))
                qkeep.append(q)
            vterms.append(T.pair(S.enc_entries(view['recs'], pool), T.lst(qterms)))
            vkeep.append((view, qkeep, qterms))
        box_cases.append(T.pair(S.enc_pool(pool), T.lst(vterms)))
        box_keep.append((box, pool, vkeep))
        if i < 2 and box.views and box.views[0]['queries']:
            q = box.views[0]['queries'][0]
            ctx.sample({'search_wire': q['wire'].decode('latin-1'), 'result': q['ids'],
                        'messages_in_view': len(box.views[0]['recs'])})
    ctx.extra['search_distribution' + sfx] = {
        **{k: v for k, v in stats.items() if k not in ('kinds', 'depth', 'laws')},
        'depth_histogram': dict(sorted(stats['depth'].items())),
        'key_histogram': dict(sorted(stats['kinds'].items())),
        'law_checks': stats['laws']}
    shard = min(6, max(1, -(-len(box_cases) // 10)))

    def after(bad):
        _locate(ctx, sfx, bad, box_keep)
    return [{'name': 'search_boxes' + sfx, 'typ': 'pool * list (list entry * list query)',
             'cases': box_cases, 'checker': 'chk_box' + sfx, 'shard': shard, 'after': after}]


def _locate(ctx, sfx, bad, box_keep) -> None:
    # name the queries of the disagreeing mailboxes
    single, single_keep = [], []
    for bi in bad[:4]:
        box, pool, vkeep = box_keep[bi]
        pt = S.enc_pool(pool)
        for view, qkeep, qterms in vkeep:
            et = S.enc_entries(view['recs'], pool)
            for q, qt in zip(qkeep, qterms):
                single.append(T.pair(pt, et, qt))
                single_keep.append((box, view, q))
    if single:
        sbad = ctx.run_cases('search_queries_of_bad_boxes' + sfx, HEADER, 'pool * list entry * query',
                             single, 'chk_box_query' + sfx, shard=max(1, -(-len(single) // 16)),
                             jobs=16)
        for j in sbad[:8]:
            box, view, q = single_keep[j]
            ctx.disagreement('search' + sfx, {'wire': q['wire'].decode('latin-1'), 'impl': sorted(q['ids']),
                                        'uid_command': q['uid'], 'phase': view['phase'],
                                        'requirements': repr([(k.value, k.requirement) for k in q['parsed']])[:200],
                                        'parser_built': repr([(k.value, k.filter, k.inverse)
                                                              for k in q['parsed']])[:300],
                                        'replay': _replay_of(box, q)})
        if not sbad:
            for bi in bad[:3]:
                ctx.disagreement('search', {'box': bi, 'why': 'view not well-formed (numbering, '
                                            'UID order, header-name case) or a UID missing from the pool'})


# ------------------------------------------------------ strings, unit level
def _contains_impl(needle: bytes, hay: bytes, header: bool) -> bool:
    """BaseLoadedMessage.contains on a one-part text message whose header is
    `X: <hay>` (header=True) or whose body is hay."""
    from pymap.message import BaseLoadedMessage
    from pymap.mime import MessageContent
    from pymap.parsing.specials import FetchRequirement
    raw = (b'X: ' + hay + b'\r\n\r\n') if header else (b'\r\n' + hay)
    loaded = BaseLoadedMessage(None, FetchRequirement.CONTENT, MessageContent.parse(raw))
    if 'header' in inspect.signature(loaded.contains).parameters:
        return loaded.contains(needle, header=header)
    return loaded.contains(needle)


def section_strings(ctx) -> list:
    from pymap.search import SearchCriteria, BodySearchCriteria
    rng = ctx.rng
    cases, keep = [], []
    alphabet = 'aAzZ@[`{kKKſsSéÉİi1 .*\\()?+^$|σΣ'

    def add(needle: str, hay: str) -> None:
        obs = SearchCriteria._in(needle, hay)
        cases.append(T.pair(T.codepoints(needle), T.codepoints(hay), T.boolean(obs)))
        keep.append(('str', needle, hay, obs))
        ctx.count(('in', needle, hay), nontrivial=obs)
    for a in alphabet:            # sweep: every pair of interesting characters
        for b in alphabet:
            add(a if a < b else a + 'x', b if a < b else 'y' + b + 'x')
    for c in range(0, 0x250):     # every code point of the first blocks vs its case variants
        ch = chr(c)
        others = {ch.lower(), ch.upper()} - {ch}
        if c < 0x100:
            others |= {ch, chr(c ^ 0x20)}
        for other in sorted(others):
            if len(other) == 1:
                add(ch, other)
    for _ in range(ctx.scale(250, 6000)):
        hay = ''.join(rng.choice(alphabet + 'bcxy ') for _ in range(rng.randint(0, 12)))
        if hay and rng.random() < 0.6:
            i = rng.randrange(len(hay))
            needle = hay[i:i + rng.randint(0, 4)]
            needle = ''.join(ch.swapcase() if rng.random() < 0.4 and len(ch.swapcase()) == 1 else ch
                             for ch in needle)
        else:
            needle = ''.join(rng.choice(alphabet) for _ in range(rng.randint(0, 3)))
        add(needle, hay)
    # the byte search of contains(): every octet against its case variants, in a
    # header and in a text body
    bad_bytes = set(b'\r\n')
    for c in range(256):
        if c in bad_bytes or c == 0:
            continue
        for other in (c, c ^ 0x20):
            if other in bad_bytes or other == 0:
                continue
            for header in (False, True):
                hay = b'q' + bytes([c]) + b'q'
                needle = b'q' + bytes([other])
                obs = _contains_impl(needle, hay, header)
                cases.append(T.pair(T.bytes_(needle), T.bytes_(b'X: ' + hay if header else hay),
                                    T.boolean(obs)))
                keep.append(('bytes', needle, hay, obs))
                ctx.count(('contains', needle, hay, header), nontrivial=obs)
    def after_in(bad):
        for j in bad[:5]:
            kind, needle, hay, obs = keep[j]
            if S.ci_in(needle, hay) != obs:
                ctx.failure('string_keys', f'substring test of {needle!r} in {hay!r} answers {obs}: '
                            'not the case-insensitive (ASCII) substring relation',
                            {'needle': repr(needle), 'hay': repr(hay)}, {'kind': 'substring'})
            ctx.disagreement('search_in', {'kind': kind, 'needle': repr(needle), 'hay': repr(hay),
                                           'impl': obs})
    jobs = [{'name': 'search_in', 'typ': 'list N * list N * bool', 'cases': cases,
             'checker': 'chk_in', 'shard': 500, 'after': after_in}]
    # bytes(value, 'utf-8', 'replace') as BodySearchCriteria does
    ucases, ukeep = [], []
    sig = inspect.signature(BodySearchCriteria.__init__).parameters
    pool = [0, 0x41, 0x7f, 0x80, 0x7ff, 0x800, 0xd7ff, 0xd800, 0xdfff, 0xe000, 0xffff, 0x10000, 0x10ffff]
    for _ in range(ctx.scale(150, 1500)):
        s = ''.join(chr(rng.choice(pool) if rng.random() < 0.5 else rng.randrange(0x110000))
                    for _ in range(rng.randint(0, 5)))
        crit = BodySearchCriteria(s, True, None) if 'with_header' in sig else BodySearchCriteria(s, None)
        ucases.append(T.pair(T.codepoints(s), T.bytes_(crit.value)))
        ukeep.append(s)
        ctx.count(('utf8', s))
    def after_utf8(bad):
        for j in bad[:5]:
            ctx.disagreement('search_utf8', {'string': repr(ukeep[j])})
    jobs.append({'name': 'search_utf8', 'typ': 'str * bytes', 'cases': ucases, 'checker': 'chk_utf8',
                 'shard': 300, 'after': after_utf8})
    return jobs


# ----------------------------------------- sent date and header-name models
def section_dates(ctx) -> list:
    """Search/SentDate.v against DateHeader (through pymap.mime.parsed) and
    header_key against MessageHeader's map keys.  Returns run_cases jobs."""
    from pymap.mime import MessageContent
    from pymap.mime.parsed import ParsedHeaders
    rng = ctx.rng

    def observe(v: str):
        hs = list(ParsedHeaders._parse([[('Date: ' + v).encode('utf-8', 'surrogateescape')]]))
        if not hs:
            return 'absent'
        dt = hs[0].datetime
        return None if dt is None else (dt.year, dt.month, dt.day)
    vals = [(S._date_header(rng, rng.choice(S.DAYS)), True) for _ in range(ctx.scale(150, 1500))]
    base = [v for v, _ in vals[:ctx.scale(40, 300)]]
    alphabet = ' ,:+-0123456789JanFebDecmonTueGMTESTZ().\t_'
    for b in base:
        for _ in range(5):
            s = list(b)
            for _ in range(rng.randint(1, 2)):
                k = rng.randrange(len(s) + 1)
                op = rng.random()
                if op < 0.4:
                    s.insert(k, rng.choice(alphabet))
                elif op < 0.7 and s:
                    del s[min(k, len(s) - 1)]
                elif s:
                    s[min(k, len(s) - 1)] = rng.choice(alphabet)
            vals.append((''.join(s), False))
    vals += [(x, False) for x in [
        '', ' ', 'garbage', '32 Foo 2019', '1 Jan 2019', '1 Jan 2019 10:00', '1 Jan 2019 10:00+0100',
        'Tue,1 Jan 2019 10:00:00 +0000', '1 Jan 19 10:00 GMT', '1 Jan 70 10:00 est', '1 Jan 69 1:00 Z',
        '1 Jan 68 1:00 Z', '31 Feb 2019 10:00 +0000', '29 Feb 2020 23:59:60 +0000', '29 Feb 2019 10:00 Z',
        '29 Feb 1900 10:00 Z', '29 Feb 2000 10:00 Z', '31 Apr 2019 1:00 Z', '30 Apr 2019 1:00 Z',
        '1 Jan 2019 24:00 +0000', '1 Jan 2019 23:60 +0000', '1 Jan 2019 10:00 +2400',
        '1 Jan 2019 10:00 +2359', '1 Jan 2019 10:00 -2400', '1 Jan 2019 10:00 -0000',
        '1 Jan 2019 10:00 +9999', '1 Jan 2019 10:00 +0099', 'Jan 1 2019 10:00 +0000',
        '1 January 2019 10:00 +0000', '1 december 2019 10:00 +0000', '1 Jan 10:00 2019 +0000',
        '1 Jan 2019, 10:00 +0000', '1, Jan 2019 10:00, +0000', 'mon 1 Jan 2019 10:00 +0000',
        'Mon, 1 Jan 2019 10.00.00 +0000', '01-Jan-19 10:00 GMT', '1 Jan 0 10:00 +0000',
        '1 Jan 9999 10:00 +0000', '1 Jan 10000 10:00 +0000', '0 Jan 2019 10:00 +0000',
        '1 Jan 2019 1:2:3 xyz', '1 Jan 2019 10:00 +01_00', '+1 Jan 2019 10:00 +0000',
        '1 Jan 2019 10:00:00:00 +0000', '1 Jan 2019 x:00 +0000', 'a,b, 1 Jan 2019 10:00 +0000', ',',
        'x,', '1 Jan 2019 10:00 (comment)', '1 Jan 2019 10:00 +0000 (c)', '1 Jan +0000 10:00 2019',
        '1 Jan 2019 10:00 pst', '1 Jan 2019 10:00 PDT', '1 Jan 2019 10:00 utc', '1 Jan 2019 10 +0000']]
    cases, keep = [], []
    for v, must in vals:
        o = observe(v)
        if o == 'absent':
            continue
        cases.append(T.pair(T.codepoints(v), 'None' if o is None else f'(Some {S.enc_date(o)})',
                            T.boolean(must)))
        keep.append(('date', v, o))
        ctx.count(('sentdate', v), nontrivial=o is not None)
    def after_dates(bad):
        for j in bad[:5]:
            ctx.disagreement('search_sent_date', {'value': repr(keep[j][1]), 'impl_date': keep[j][2]})
    jobs = [{'name': 'search_sent_date', 'typ': 'str * option date * bool', 'cases': cases,
             'checker': 'chk_sent_date', 'shard': 300, 'after': after_dates}]
    # field names as written -> key of the header map
    kcases, kkeep = [], []
    names = [b'Subject', b'SUBJECT ', b' subject', b'X-Tag\t', b'\tTo \t', b'x\x0bY', b'A\x0c', b'a b',
             b'\x1cQ', b'\xc9cole', b'[', b'Z@`{', b'']
    for _ in range(ctx.scale(60, 600)):
        names.append(bytes(rng.choice(b'AZaz@[`{ \t\x0b\x0c-') for _ in range(rng.randint(1, 6))))
    for nm in names:
        if b':' in nm or b'\n' in nm or b'\r' in nm:
            continue
        content = MessageContent.parse(nm + b': v\r\n\r\nx')
        keys = [bytes(k) for k in content.header.parsed]
        if len(keys) != 1:
            continue          # not taken as a field line (e.g. starts with white space)
        kcases.append(T.pair(T.bytes_(nm), T.bytes_(keys[0])))
        kkeep.append(('name', nm, keys[0]))
        ctx.count(('hdrkey', nm))
    def after_keys(bad):
        for j in bad[:5]:
            ctx.disagreement('search_header_key', {'written': repr(kkeep[j][1]), 'impl_key': repr(kkeep[j][2])})
    jobs.append({'name': 'search_header_key', 'typ': 'bytes * bytes', 'cases': kcases,
                 'checker': 'chk_header_key', 'shard': 400, 'after': after_keys})
    return jobs


# ------------------------------------------------------------- disabled keys
def section_disabled(ctx) -> list:
    rng = ctx.rng
    names = sorted(S.KNAMES - {b'SEQSET', b'KEYSET'})
    cases, keep = [], []

    async def one(dis, progs):
        env = await DictEnv().start(disable_search_keys=dis)
        a = await env.login()
        await a.send(b'a1 SELECT INBOX\r\n')
        out = []
        for prog in progs:
            resp = await a.cmd(S.render_program(rng, prog, rng.random() < 0.3))
            status, ids, line = S.parse_search(resp)
            out.append((status, line))
        await a.send_eof()
        return out

    demo = [{'uid': 101 + i, 'seq': i + 1, 'size': 200, 'headers': [(b'subject', 'Hello')],
             'parts': [(b'Subject: Hello', True, b'velocity')], 'emailid': b'M1', 'threadid': b'T1'}
            for i in range(4)]
    gen = S.KeyGen(rng, demo)
    for _ in range(ctx.scale(12, 150)):
        dis = [rng.choice(names) for _ in range(rng.randint(0, 3))]
        progs = [gen.program() for _ in range(8)]
        for prog, (status, line) in zip(progs, run_async(one(dis, progs))):
            refused = status == b'NO' and b'[CANNOT]' in line
            if not refused and status != b'OK':
                ctx.failure('valid_program_accepted', f'with disabled keys {dis}: {line!r}',
                            {'program': repr(prog), 'disabled': repr(dis)}, {'kind': 'rejected'})
                continue
            cases.append(T.pair(T.lst('N' + d.decode() for d in dis), S.enc_prog(prog),
                                T.boolean(refused)))
            keep.append((dis, prog, refused))
            ctx.count(('disabled', tuple(dis), repr(prog)), nontrivial=refused)
    def after(bad):
        for j in bad[:5]:
            dis, prog, refused = keep[j]
            uses = any(_has(k, lambda x: _wire_name(x) in dis) for k in prog)
            if uses != refused:
                ctx.failure('disabled_keys', f'disabled {dis}, program {prog!r}: refused={refused}',
                            {'program': repr(prog), 'disabled': repr(dis)}, {'kind': 'disabled'})
            ctx.disagreement('search_disabled', {'disabled': repr(dis), 'program': repr(prog),
                                                 'impl_refused': refused})
    return [{'name': 'search_disabled', 'typ': 'list kname * list key * bool', 'cases': cases,
             'checker': 'chk_disabled', 'shard': 100, 'after': after}]


def section_refusals(ctx) -> None:
    """An empty parenthesised list is not a search key (RFC 3501: "(" search-key
    *(SP search-key) ")"); an empty KEYSET would match every message."""
    async def one(line):
        env = await DictEnv().start()
        a = await env.login()
        await a.send(b'a1 SELECT INBOX\r\n')
        r = await a.cmd(b'q ' + line + b'\r\n')
        await a.send_eof()
        return r
    for line in (b'SEARCH ()', b'SEARCH NOT ()', b'SEARCH OR () ALL', b'SEARCH (())', b'UID SEARCH ()',
                 b'SEARCH ALL ()', b'SEARCH (ALL ())'):
        r = run_async(one(line))
        ctx.count(('refusal', line), nontrivial=True)
        status, ids, tagged = S.parse_search(r)
        if status != b'BAD':
            ctx.failure('empty_list_refused', f'{line!r} is answered {r!r}',
                        {'wire': line.decode()}, {'kind': 'empty_list_accepted'})


def _wire_name(k) -> bytes:
    t = k[0]
    if t == 'SET':
        return S.SET_WORD[k[1]]
    if t == 'UNSET':
        return S.UNSET_WORD[k[1]]
    if t == 'FIELD':
        return k[1].encode()
    if t in ('SEQ', 'UID'):
        return b'SEQSET'
    if t == 'AND':
        return b'KEYSET'
    if t == 'NOT':
        return b''
    return t.encode()


def run(ctx) -> None:
    _random.seed(f'C13-global-{ctx.seed}')      # ObjectId.random() uses the global PRNG
    ctx.rule = ('mailboxes: 0-10 generated messages (headers From/To/Cc/Bcc/Subject/Date/X-*, folded, '
                'RFC 2047, repeated, empty; text, html, multipart, message/rfc822, binary bodies), '
                'APPEND flags/keywords, internal dates at 5 times of day x 7 zones over 8 days, '
                'STOREs by two sessions, another session expunging 1-3 messages in 60% of the boxes and '
                'one more message in up to 2 further rounds; programs: 1-3 top-level keys of nesting '
                'depth 0-6 over every key (12% multi-set programs for the pre-filter), strings drawn '
                'from the mailbox text with random case; per hidden-expunged view 36 (later rounds 6) '
                'SEARCH + one SEARCH/UID SEARCH twin pair, then 12 programs as SEARCH and UID SEARCH '
                'and >=6 law groups on the synchronised view; dict backend and a smaller maildir run; '
                'non-trivial = non-empty result; distinct = by wire form')
    ctx.assumptions += [
        'decoded header values, the parsed Date: header and the MIME part split are oracle data: the '
        'model receives them from pymap.mime (stdlib email.headerregistry) applied to the probed octets',
        'the monitor reads the same probe with stdlib email only (message_from_bytes, policy SMTP)',
        'BODY/TEXT: the RFC leaves open which octets of a multipart body are searched; the monitor '
        'requires text-part payloads (and, for TEXT, the message header) and allows any octet of the '
        'body (resp. message)',
        'a probed message of 0 octets is a message whose content the backend no longer holds '
        '(expunged maildir file): the record then has no headers, no parts, no sent date',
        'dict backend and a smaller maildir run; CPython re/str/bytes are the semantics of the '
        'implementation side',
    ]
    # the translator: finite tables of the parser / dispatch / requirement, from the code
    from .. import searchtable
    try:
        tables, changed = searchtable.write_key_table()
        ctx.extra['key_table'] = {'rewritten': changed, 'keywords': len(tables['grammar']['rows']),
                                  'dispatch_rows': len(tables['dispatch']),
                                  'not_repeats': tables['grammar']['not_repeats'],
                                  'bare_set_uid': tables['grammar']['bare_set_uid'],
                                  'keyset_nonempty': tables['grammar']['keyset_nonempty']}
    except searchtable.TranslatorError as exc:
        ctx.broken.append(f'translator (harness/searchtable.py) does not recognise the code: {exc}')
    # proofs are re-checked while the implementation runs
    import threading
    from concurrent.futures import ThreadPoolExecutor
    prover = threading.Thread(target=ctx.check_proofs, args=(['Search/SearchCheck'],))
    prover.start()
    jobs = []
    jobs += section_search(ctx, 'dict')
    jobs += section_search(ctx, 'maildir')
    jobs += section_strings(ctx)
    jobs += section_dates(ctx)
    jobs += section_disabled(ctx)
    section_refusals(ctx)
    prover.join()

    total = sum(-(-len(j['cases']) // j['shard']) for j in jobs) or 1

    def go(job):
        # about 16 coqc processes at a time over all groups
        n_shards = -(-len(job['cases']) // job['shard'])
        return ctx.run_cases(job['name'], HEADER, job['typ'], job['cases'], job['checker'],
                             shard=job['shard'], jobs=max(1, min(n_shards, round(16 * n_shards / total))))
    with ThreadPoolExecutor(max_workers=len(jobs)) as ex:
        results = list(ex.map(go, jobs))
    for job, bad in zip(jobs, results):
        job['after'](bad)


def replay(ctx, obj) -> int:
    async def go():
        env = await (MaildirEnv() if obj.get('backend') == 'maildir' else DictEnv()).start()
        conns = {}
        last = b''
        for who, hexdata in obj.get('script', []):
            if who not in conns:
                conns[who] = await env.login()
            last = await conns[who].cmd(bytes.fromhex(hexdata))
        return last
    if 'script' in obj:
        print('command :', obj.get('wire'))
        print('response:', run_async(go()))
        for k in ('expected_must', 'expected_may', 'got', 'what'):
            if k in obj:
                print(f'{k}:', obj[k])
    else:
        print(obj)
    return 0
