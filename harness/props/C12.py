"""C12 — a read-only selection never changes the mailbox.

Proofs: coq/theories/Props/C12.v (over RefModel/Model.v, for every state and
every program).  Correspondence: programs of every message command and UID
variant issued after EXAMINE (or SELECT of the backend-read-only demo `Trash`)
on the real server, each response and a probe dump of every mailbox after every
step recomputed by the Coq model.  Monitors (written against the statement, not
the model): dump equality of everything that existed before the program;
refusals; CLOSE; what a later read-write SELECT is given as \\Recent.
"""
from __future__ import annotations

from .. import refmodel as R
from . import C10


def _first(kind: str):
    """how a program enters a read-only selection"""
    def first(i: int):
        if kind == 'dict' and i % 3 == 2:
            return [{'k': 'select', 'box': 2, 'ro': i % 2 == 0}]    # SELECT/EXAMINE read-only Trash
        if kind == 'maildir' and i % 5 == 1:
            # housekeeping commands first: CHECK (maildir cleanup) and NOOP in the selection of
            # INBOX, which holds an externally delivered file without ':2,' suffix in most runs
            return [{'k': 'select', 'box': 0, 'ro': True}, {'k': 'check'}, {'k': 'noop'},
                    {'k': 'fetch', 'uid': True, 'ss': [(1, '*')], 'attrs': 1}]
        return [{'k': 'select', 'box': i % 3 if kind == 'maildir' else i % 2, 'ro': True}]
    return first


def _msgs(b):
    if b.get('absent'):
        return None
    return [(m['uid'], frozenset(m['flags']), m['date'], m['cid'], m['recent']) for m in b['msgs']]


def monitor(ctx, kind: str, init, sts) -> None:
    """dump-equality monitor + refusals, from the observed behaviour only.  Steps made by
    another connection ('ext') may change anything; every step of the session under test
    is compared with the dump taken just before it."""
    cmds = [s for s in sts if 'cmd' in s]
    if not cmds or cmds[0]['out']['cond'] != 'OK' or 'cmd' not in sts[0]:
        return
    names = R.NAMES[kind]
    before = {b['name']: b for b in init}
    ro_box = {b['name']: b.get('ro', False) for b in init}
    in_sel = True
    prev = {b['name']: b for b in sts[0]['dump']}
    interfered = False
    # the SELECT/EXAMINE itself must change nothing (no \Recent claimed)
    for name, b in prev.items():
        if _msgs(b) != _msgs(before[name]) or b.get('maxuid') != before[name].get('maxuid'):
            ctx.failure('unchanged', f'{kind}: entering the read-only selection changed {name}',
                        C10._replay_obj(kind, init, sts[:1], 0), {'kind': 'select_changed', 'backend': kind})
    for k, st in enumerate(sts[1:], 1):
        now = {b['name']: b for b in st['dump']}
        if 'ext' in st:
            interfered = True
            prev = now
            continue
        cmd, out = st['cmd'], st['out']
        kk = cmd['k']
        dest = names[cmd['dest']] if kk in ('copy', 'move') else \
            names[cmd['box']] if kk == 'append' else None

        def fail(clause, cls, what):
            ctx.failure(clause, f'{kind}: step {k} ({st["wire"][:60]!r}): {what}',
                        C10._replay_obj(kind, init, sts[:k + 1], k), {'kind': cls, 'backend': kind})
        # ---- nothing that existed changes; additions only by delivery into a writable destination
        for name, b in now.items():
            old = _msgs(prev[name])
            new = _msgs(b)
            if old is None or new is None:
                if old != new:
                    fail('unchanged', f'{kk}_mailbox_set', f'mailbox {name} appeared or disappeared')
                continue
            may_grow = (kk in ('append', 'copy') and dest == name and not ro_box[name]
                        and out['cond'] == 'OK')
            may_use_uids = kk == 'append' and dest == name and not ro_box[name]   # failed MULTIAPPEND
            if new[:len(old)] != old:
                fail('unchanged', f'{kk}_changed_existing', f'existing messages of {name} changed')
            elif len(new) > len(old) and not may_grow:
                fail('unchanged', f'{kk}_added', f'messages appeared in {name}')
            elif any(u <= prev[name]['maxuid'] for u, *_ in new[len(old):]):
                fail('unchanged', f'{kk}_uid_reused', f'delivered message reuses a UID in {name}')
            if b['maxuid'] < prev[name]['maxuid'] or (b['maxuid'] != prev[name]['maxuid']
                                                      and not (may_grow or may_use_uids)):
                fail('unchanged', f'{kk}_uidnext', f'UID counter of {name} changed')
            if b['uidv'] != prev[name]['uidv']:
                fail('unchanged', f'{kk}_uidvalidity', f'UIDVALIDITY of {name} changed')
        # ---- refusals
        if in_sel and kk in ('store', 'expunge', 'move') and \
                (out['cond'], out['code']) != ('NO', ('READ-ONLY',)):
            fail('ro_refused', f'{kk}_not_refused', f'answered {out["cond"]} {out["code"]}')
        if dest is not None and dest in ro_box and ro_box[dest] and (in_sel or kk == 'append') and \
                (out['cond'], out['code']) != ('NO', ('READ-ONLY',)):
            fail('ro_refused', f'{kk}_into_readonly', f'answered {out["cond"]} {out["code"]}')
        if in_sel and kk in ('fetch', 'search', 'noop', 'check') and out['cond'] != 'OK':
            fail('unchanged', f'{kk}_failed', f'answered {out["cond"]}')
        if kk == 'close':
            if in_sel and (out['cond'], out['untagged']) != ('OK', []):
                fail('ro_close_ok', 'close_refused_readonly', f'answered {out["cond"]} {out["code"]}')
            in_sel = False
        elif not in_sel and kk not in ('append', 'status', 'noop') and out['cond'] != 'BAD':
            fail('ro_close_ok', 'still_selected_after_close', f'{kk} answered {out["cond"]}')
        if out['cond'] == 'BYE':
            in_sel = False
        prev = now
    # ---- strict form: no writable destination and nobody else writing -> the initial dump
    writable_dest = any((s['cmd']['k'] in ('append', 'copy', 'move')) and
                        not ro_box.get(names[s['cmd'].get('dest', s['cmd'].get('box'))], True)
                        for s in cmds[1:])
    if not writable_dest and not interfered:
        last = {b['name']: b for b in sts[-1]['dump']}
        for name, b in last.items():
            if _msgs(b) != _msgs(before[name]) or b.get('maxuid') != before[name].get('maxuid'):
                ctx.failure('unchanged', f'{kind}: {name} differs after a program without writable '
                            'destination', C10._replay_obj(kind, init, sts, len(sts) - 1),
                            {'kind': 'final_dump_differs', 'backend': kind})


async def final_rw_select(env, init, sts):
    """At the very end a read-write SELECT of every writable mailbox (from the
    probe session) must be given as \\Recent exactly the messages whose stored
    mark the white-box dump showed, i.e. the program consumed none."""
    problems = []
    if not sts:
        return problems
    await env.conn.send(b'z0 LOGOUT\r\n')          # the session under test is gone
    last = {b['name']: b for b in sts[-1]['dump']}
    for name, b in last.items():
        if b.get('absent') or b['ro']:
            continue
        r = await env.probe.send(b'z1 SELECT ' + name.encode() + b'\r\n')
        r2 = await env.probe.send(b'z2 UID FETCH 1:* (UID FLAGS)\r\n')
        await env.probe.send(b'z3 CLOSE\r\n')
        out = R.read_response(r2, env.contents, 'other')
        got = sorted(u[2] for u in out['untagged'] if u[0] == 'FETCH' and b'\\Recent' in (u[3] or ()))
        want = sorted(m['uid'] for m in b['msgs'] if m['recent'])
        if got != want or b'z1 OK' not in r:
            problems.append(('unchanged', 'recent_lost', len(sts) - 1,
                             dict(sts[-1], wire=b'(final) SELECT ' + name.encode(),
                                  out={'cond': 'OK', 'code': None, 'untagged': [('RECENT-UIDS', got)]},
                                  ref_out={'cond': 'OK', 'code': None,
                                           'untagged': [('RECENT-UIDS', want)]})))
    return problems


def run(ctx) -> None:
    ctx.rule = ('a case is one program issued inside a read-only selection: EXAMINE of a mailbox '
                '(or SELECT/EXAMINE of the read-only demo Trash) followed by random APPEND / STORE '
                '/ EXPUNGE / UID EXPUNGE / COPY / MOVE / FETCH / CLOSE commands and UID variants '
                '(any sequence sets, flags, destinations incl. read-only and missing mailboxes), '
                'half of them with a second session watching the same mailbox; every response and '
                'a probe dump (EXAMINE + UID FETCH ... BODY.PEEK[] + STATUS + stored \\Recent marks) '
                'of every mailbox after every step; at the end a read-write SELECT of every '
                'mailbox; non-trivial = the command answered OK; distinct = by '
                '(backend, command bytes, canonical response)')
    ctx.assumptions += [
        'the probe session only runs STATUS / EXAMINE / UID FETCH ... BODY.PEEK[] / CLOSE (and one '
        'final SELECT); stored \\Recent marks are read through the backend mailbox objects',
        'concurrent writers are C01/C02; here other sessions only observe',
    ]
    ctx.check_proofs(['RefModel/Check'])
    from .. import c12_configs as G
    nd = ctx.scale(260, 1800)
    nm = ctx.scale(60, 400)

    def on_program(k, init, sts):
        monitor(ctx, k, init, sts)
        G.file_monitor(ctx, k, init, sts, C10._replay_obj)      # maildir: the files themselves
    for kind, n in (('dict', nd), ('maildir', nm)):
        C10.run_programs(ctx, f'ro_programs_{kind}', [(kind, n, 13)], R.C12_WEIGHTS,
                         first=_first(kind), final=final_rw_select,
                         observer=lambda i: i % 2 == 1,
                         on_program=on_program)
        # the same with another connection writing in between (labels LExt of the model)
        C10.run_programs(ctx, f'ro_interference_{kind}', [(kind, max(n // 3, 10), 13)], R.C12_WEIGHTS,
                         first=_first(kind), final=final_rw_select, interfere=0.35,
                         on_program=on_program)
    # every maildir configuration (layout x --colon), housekeeping-heavy alphabet, files compared
    G.run(ctx)


def replay(ctx, obj) -> int:
    return C10.replay(ctx, obj)
