"""C14 — no message is lost or half-applied when a command fails midway.

dict backend: model coq/theories/Faults/DictFaults.v (commands as sequences of
storage calls with a fault at the n-th call).  The correspondence injects the
fault into the real server (the n-th call of MailboxData.append/copy/move/
delete made by the command raises) and compares response and mailbox contents
with the model; monitors check conservation at every storage-call boundary
(glass-box census), all-or-nothing APPEND, no effect of NO/BAD, cancellation
and client disconnect at every suspension point (in the middle of a literal,
between the messages of a MULTIAPPEND, inside drain), and measure that a
command body never suspends.
maildir backend: model coq/theories/MaildirFS; the fault is a kill at every
filesystem-operation boundary (harness/maildirfs.py), histories centred on
MOVE / COPY / multi-message APPEND / EXPUNGE.
"""
from __future__ import annotations

import asyncio
import json
import re
import sys

from .. import coqrun
from .. import coqterm as T
from .. import maildir_model as MM
from .. import maildirfs as M
from ..pymap_env import DictEnv
from ..pymap_env import run as arun

HEADER = 'From PV Require Import Base.Prelude Faults.DictFaults.\n'

BOXES = {1: b'boxa', 2: b'boxb'}       # model mailbox id -> real name
MISSING = b'nosuchbox'


class Injected(RuntimeError):
    pass


class InjectedBase(BaseException):
    """A fault that is not an Exception (like KeyboardInterrupt/SystemExit)."""


# how the n-th storage call of a command fails
KINDS = ('exc',        # raises an ordinary exception
         'cancelled',  # raises asyncio.CancelledError
         'base',       # raises a BaseException that is not an Exception
         'suspend')    # awaits; the connection task is cancelled meanwhile
WATCHDOG = 8.0         # seconds without the tagged response = the command hangs


class FaultPlan:
    """Wraps the storage calls of the dict backend in this process."""

    METHODS = ('append', 'copy', 'move', 'delete')

    def __init__(self) -> None:
        self.armed: int | None = None       # raise at this call index
        self.kind = 'exc'
        self.suspended = asyncio.Event()
        self.release = asyncio.Event()
        self.calls = 0
        self.fired = False
        self.census: list = []              # glass-box census at every call boundary
        self.observe = None                 # callable returning the census
        self.ticks = None                   # callable returning the ticker count
        self.tick_log: list = []
        self._orig: dict = {}

    def install(self) -> None:
        from pymap.backend.dict.mailbox import MailboxData
        plan = self
        for name in self.METHODS:
            orig = getattr(MailboxData, name)
            self._orig[name] = orig

            def make(orig, name):
                async def wrapper(self_, *a, **k):
                    if plan.observe is not None:
                        plan.census.append(plan.observe())
                    if plan.ticks is not None:
                        plan.tick_log.append((name, plan.ticks()))
                    idx = plan.calls
                    plan.calls += 1
                    if plan.armed is not None and not plan.fired and idx == plan.armed:
                        plan.fired = True
                        if plan.kind == 'cancelled':
                            raise asyncio.CancelledError()
                        if plan.kind == 'base':
                            raise InjectedBase(f'injected in storage call {idx} ({name})')
                        if plan.kind == 'suspend':
                            # a storage call that awaits (a lock, a thread):
                            # the harness cancels the connection task now
                            plan.suspended.set()
                            await plan.release.wait()
                            raise Injected('suspended storage call was not cancelled')
                        raise Injected(f'injected fault in storage call {idx} ({name})')
                    ret = await orig(self_, *a, **k)
                    if plan.observe is not None:
                        plan.census.append(plan.observe())
                    return ret
                return wrapper
            setattr(MailboxData, name, make(orig, name))

    def uninstall(self) -> None:
        from pymap.backend.dict.mailbox import MailboxData
        for name, orig in self._orig.items():
            setattr(MailboxData, name, orig)

    def arm(self, n: int | None, kind: str = 'exc') -> None:
        self.armed, self.calls, self.fired, self.kind = n, 0, False, kind
        self.census, self.tick_log = [], []
        self.suspended = asyncio.Event()
        self.release = asyncio.Event()


async def send_watched(conn, plan: FaultPlan, line: bytes) -> bytes | None:
    """Send a command with the fault armed; cancel the connection task when
    the storage call suspends; None = no tagged response within WATCHDOG."""
    task = asyncio.ensure_future(conn.send(line))
    if plan.armed is not None and plan.kind == 'suspend':
        sus = asyncio.ensure_future(plan.suspended.wait())
        await asyncio.wait({task, sus}, timeout=WATCHDOG, return_when=asyncio.FIRST_COMPLETED)
        if sus.done() and not task.done():
            conn.task.cancel()
            plan.release.set()
        sus.cancel()
    try:
        return await asyncio.wait_for(task, WATCHDOG)
    except asyncio.TimeoutError:
        return None


def literal_msg(cid: int) -> bytes:
    return M.message_bytes(cid)


def box_state(env, names) -> dict:
    """Glass-box view of the mailboxes: name -> (max_uid, [(uid, cid)])."""
    mbs = next(iter(env.config.set_cache.values()))[0]
    out = {}
    for name in names:
        mbx = mbs._set.get(name.decode())
        if mbx is None:
            continue
        out[name] = (mbx._max_uid, [(uid, M.cid_of(bytes(m._content)))
                                    for uid, m in mbx._messages.items()])
    return out


async def probe_state(p, names) -> dict:
    """What another session sees: name -> (uidnext-1, [(uid, cid)])."""
    out = {}
    for name in names:
        r = await p.send(b'p1 STATUS ' + name + b' (UIDNEXT)\r\n')
        m = re.search(rb'UIDNEXT (\d+)', r)
        if not m:
            continue
        r2 = await p.send(b'p2 EXAMINE ' + name + b'\r\n')
        assert b'p2 OK' in r2, r2
        r3 = await p.send(b'p3 UID FETCH 1:* (UID BODY.PEEK[])\r\n')
        msgs = [(f['uid'], f['cid']) for f in M.parse_fetches(
            r3.replace(b'BODY[] {', b'FLAGS () BODY[] {'))]
        out[name] = (int(m.group(1)) - 1, sorted(msgs))
    return out


def enc_store(st: dict) -> str:
    items = []
    for bid, name in BOXES.items():
        if name in st:
            mx, msgs = st[name]
            ml = T.lst(f'({T.N(u)}, {T.N(c)})' for u, c in msgs)
            items.append(f'({T.N(bid)}, {{| b_max := {T.N(mx)}; b_msgs := {ml} |}})')
    return T.lst(items)


def enc_cmd(c) -> str:
    k = c[0]
    if k == 'append':
        return f'DAppend {T.N(c[1])} {T.nlist(c[2])}'
    if k in ('copy', 'move'):
        return f'{"DCopy" if k == "copy" else "DMove"} {T.N(c[1])} {T.nlist(c[2])} {T.N(c[3])}'
    if k == 'expunge':
        return f'DExpunge {T.N(c[1])} {T.nlist(c[2])}'
    return 'DBad'


RESP = {'OK': 'ROk', 'NO': 'RNo', 'BAD': 'RBad', 'BYE': 'RBye'}


def box_name(bid: int) -> bytes:
    return BOXES.get(bid, MISSING)


async def run_dict_cmd(env, conn, c, plan: FaultPlan, fault, kind='exc') -> tuple[str, bytes]:
    """Execute one model command on the real server with the fault armed for
    exactly the storage calls of that command.  Status 'HANG' = the command
    produced no tagged response (and no BYE) within the watchdog time."""
    k = c[0]
    tag = b'x1'
    if k == 'append':
        line = tag + b' APPEND ' + box_name(c[1])
        for cid in c[2]:
            m = literal_msg(cid)
            line += b' {%d+}\r\n' % len(m) + m
        line += b'\r\n'
    elif k in ('copy', 'move'):
        r0 = await conn.send(b's1 SELECT ' + box_name(c[1]) + b'\r\n')
        if b's1 OK' not in r0:
            return 'NO', r0
        line = (tag + b' UID ' + k.upper().encode() + b' '
                + ','.join(map(str, c[2])).encode() + b' ' + box_name(c[3]) + b'\r\n')
    elif k == 'expunge':
        r0 = await conn.send(b's1 SELECT ' + box_name(c[1]) + b'\r\n')
        if b's1 OK' not in r0:
            return 'NO', r0
        # exactly the listed uids carry \\Deleted when EXPUNGE runs
        await conn.send(b's2 UID STORE 1:* -FLAGS.SILENT (\\Deleted)\r\n')
        if c[2]:
            await conn.send(b's3 UID STORE ' + ','.join(map(str, c[2])).encode()
                            + b' +FLAGS.SILENT (\\Deleted)\r\n')
        line = tag + b' EXPUNGE\r\n'
    else:
        line = tag + b' FROBNICATE\r\n'
    plan.arm(fault, kind)
    r = await send_watched(conn, plan, line)
    plan.arm(None)
    if r is None:
        return 'HANG', b''
    st = M.status_of(tag, r)
    if st == 'NONE' and conn.closed:
        st = 'BYE'          # the connection ended without a tagged response
    return st, r


def gen_dict_cmd(rng, st: dict, next_cid: list) -> tuple:
    """A command for the current (glass-box) state, with a fault position."""
    k = rng.choices(['append', 'move', 'copy', 'expunge', 'bad'], [5, 6, 3, 2, 1])[0]
    live = [b for b, n in BOXES.items() if n in st and st[n][1]]
    if k in ('move', 'copy', 'expunge') and not live:
        k = 'append'
    if k == 'append':
        n = rng.choice([1, 2, 2, 3, 4])
        cids = []
        for _ in range(n):
            next_cid[0] += 1
            cids.append(next_cid[0])
        box = rng.choice([1, 1, 2, 2, 3])
        c = ('append', box, cids)
        ncalls = n
    elif k in ('move', 'copy'):
        src = rng.choice(live)
        uids = [u for u, _ in st[BOXES[src]][1]]
        pick = sorted(rng.sample(uids, rng.randint(1, min(3, len(uids)))))
        if rng.random() < 0.2:
            pick.append(max(uids) + 5)          # a uid that does not exist
        # the destination may be the (selected) source mailbox itself
        dst = rng.choice([1, 2, 2, 3]) if k == 'copy' else rng.choice([1, 2, 3, src])
        c = (k, src, pick, dst)
        ncalls = len(pick)
    elif k == 'expunge':
        src = rng.choice(live)
        uids = [u for u, _ in st[BOXES[src]][1]]
        c = ('expunge', src, sorted(rng.sample(uids, rng.randint(1, min(2, len(uids))))))
        ncalls = 1
    else:
        c = ('bad',)
        ncalls = 0
    r = rng.random()
    if r < 0.35 or ncalls == 0:
        fault = None
    else:
        fault = rng.randrange(ncalls + 1) if rng.random() < 0.9 else ncalls + 2
    return c, fault, rng.choice(KINDS)


def multiset(st: dict) -> list:
    return sorted(c for _mx, msgs in st.values() for _u, c in msgs)


async def dict_session(ctx, rng, steps: int, cases: list, keep: list) -> None:
    env = await DictEnv().start()
    plan = FaultPlan()
    plan.install()
    names = list(BOXES.values())
    try:
        conn = await env.login()
        probe = await env.login()
        for n in names:
            await conn.send(b'c0 CREATE ' + n + b'\r\n')
        plan.observe = lambda: multiset(box_state(env, names))
        next_cid = [rng.randrange(1000) * 100]
        for _ in range(steps):
            if conn.closed:
                conn = await env.login()
            if probe.closed:
                probe = await env.login()
            before = box_state(env, names)
            seen_before = await probe_state(probe, names)
            c, fault, kind = gen_dict_cmd(rng, before, next_cid)
            status, raw = await run_dict_cmd(env, conn, c, plan, fault, kind)
            census = list(plan.census)
            hang = status == 'HANG'
            if hang:
                # no tagged response: tear the connection down, then look at
                # what is left (the conservation monitors below still apply)
                conn.task.cancel()
                try:
                    await asyncio.wait_for(asyncio.shield(conn.task), 5)
                except BaseException:
                    pass
                ctx.failure('move_conserved' if c[0] == 'move' else 'observation',
                            f'{c} (fault {fault}/{kind}) produced no tagged response within '
                            f'{WATCHDOG} s: the command hangs',
                            {'backend': 'dict', 'before': _js(before), 'cmd': c, 'fault': fault,
                             'kind': kind}, {'kind': 'command_hangs'})
            after = box_state(env, names)
            if hang:
                if c[0] == 'move' and multiset(after) != multiset(before):
                    ctx.failure('move_conserved',
                                f'after the hanging {c} was torn down the mailboxes hold '
                                f'{multiset(after)}, before {multiset(before)}',
                                {'backend': 'dict', 'before': _js(before), 'cmd': c},
                                {'kind': 'move_lost_or_duplicated'})
                return           # this server instance is wedged: start a fresh one
            seen = await probe_state(probe, names)
            ctx.count(('dict', json.dumps(c), fault, kind if fault is not None else None, status),
                      nontrivial=c[0] != 'bad')
            replay = {'backend': 'dict', 'before': _js(before), 'cmd': c, 'fault': fault,
                      'kind': kind, 'status': status}
            # -- monitors (written against the statement, not the model)
            if {n: (mx, sorted(ms)) for n, (mx, ms) in after.items()} != seen:
                ctx.failure('observation', 'a second session sees other mailbox contents than '
                            'the store holds', replay, {'kind': 'probe_differs'})
            if c[0] == 'move':
                base = multiset(before)
                for i, cen in enumerate(census + [multiset(after)]):
                    if cen != base:
                        ctx.failure('move_conserved',
                                    f'during/after {c} with fault {fault} the contents of the '
                                    f'two mailboxes are {cen}, before {base} (observation {i})',
                                    replay, {'kind': 'move_lost_or_duplicated'})
                        break
                if status == 'OK' and c[3] in BOXES:
                    left = [u for u, _ in after[BOXES[c[1]]][1] if u in c[2]]
                    if left:
                        ctx.failure('move_conserved', f'MOVE answered OK but uids {left} are '
                                    f'still in the source', replay, {'kind': 'move_not_removed'})
            if c[0] == 'append' and status != 'OK':
                if {n: v[1] for n, v in after.items()} != {n: v[1] for n, v in before.items()}:
                    ctx.failure('multiappend_all_or_nothing',
                                f'{c} with fault {fault} ended in {status} but left '
                                f'{_js(after)}', replay, {'kind': 'append_half_applied',
                                                           'backend': 'dict'})
            if status in ('NO', 'BAD') and after != before:
                ctx.failure('no_bad_no_effect', f'{c} answered {status} but changed the store',
                            replay, {'kind': 'no_bad_changed'})
            if status in ('NO', 'BAD') and plan.calls:
                pass        # a storage call before NO/BAD is allowed only if it changed nothing
            cases.append(T.pair(enc_store(before), enc_cmd(c),
                                T.option(T.nat(fault) if fault is not None else None),
                                RESP.get(status, 'RBad'), enc_store(after)))
            keep.append(replay)
    finally:
        plan.uninstall()


def _js(st: dict) -> dict:
    return {k.decode(): v for k, v in st.items()}


def section_dict(ctx) -> None:
    rng = ctx.rng
    cases, keep = [], []
    sessions = ctx.scale(6, 100)
    for _ in range(sessions):
        arun(dict_session(ctx, rng, 25, cases, keep), timeout=300)
    ctx.sample(keep[0] if keep else {})
    bad = ctx.run_cases('dict_fault', HEADER,
                        'store * dcmd * option nat * resp * store', cases, 'chk_dict_fault')
    for i in bad[:5]:
        ctx.disagreement('dict_fault', keep[i])


# ------------------------------------------------- suspension points, drops
async def measure_atomicity(ctx) -> None:
    """A ticker task runs whenever the server task yields; every storage call
    of one command must see the same tick count as the first one."""
    env = await DictEnv().start()
    plan = FaultPlan()
    plan.install()
    ticks = [0]
    stop = False

    async def ticker():
        while not stop:
            ticks[0] += 1
            await asyncio.sleep(0)
    t = asyncio.get_running_loop().create_task(ticker())
    plan.ticks = lambda: ticks[0]
    try:
        conn = await env.login()
        for n in BOXES.values():
            await conn.send(b'c0 CREATE ' + n + b'\r\n')
        msgs = b''.join(b' {%d+}\r\n' % len(literal_msg(i)) + literal_msg(i) for i in (1, 2, 3))
        cmds = [b'm1 APPEND boxa' + msgs + b'\r\n', b'm2 SELECT boxa\r\n',
                b'm3 UID COPY 101:103 boxb\r\n', b'm4 UID MOVE 101,102 boxb\r\n',
                b'm5 UID STORE 103 +FLAGS (\\Deleted)\r\n', b'm6 EXPUNGE\r\n']
        for line in cmds:
            plan.arm(None)
            await conn.send(line)
            seen = {tk for _n, tk in plan.tick_log}
            ctx.count(('atomic', line[:12]), nontrivial=len(plan.tick_log) > 1)
            if len(seen) > 1:
                ctx.failure('atomicity', f'the command {line[:30]!r} suspended between its '
                            f'storage calls: {plan.tick_log}', {'cmd': line.decode('latin-1')},
                            {'kind': 'command_body_suspends'})
        ctx.extra['suspension_points'] = 'readline / drain / IDLE wait only (dict backend, asyncio)'
    finally:
        stop = True
        plan.uninstall()
        t.cancel()


async def drops_and_cancels(ctx) -> None:
    """Client disconnect and task cancellation at the real suspension points of
    APPEND / MULTIAPPEND / MOVE: in the middle of a literal, between two
    messages, after the last literal before the line end, inside drain."""
    names = list(BOXES.values())
    m1, m2 = literal_msg(901), literal_msg(902)

    async def fresh():
        env = await DictEnv().start()
        conn = await env.login()
        for n in names:
            await conn.send(b'c0 CREATE ' + n + b'\r\n')
        await conn.send(b'c1 APPEND boxa {%d+}\r\n' % len(literal_msg(900)) + literal_msg(900) + b'\r\n')
        return env, conn, None

    # the pieces of a synchronizing-literal MULTIAPPEND; a fault after piece i
    pieces = [b'a1 APPEND boxa {%d}\r\n' % len(m1), m1[:10], m1[10:],
              b' {%d}\r\n' % len(m2), m2[:7], m2[7:], b'\r\n']
    for cut in range(len(pieces)):
        for how in ('drop', 'cancel'):
            env, conn, probe = await fresh()
            before = box_state(env, names)
            for pc in pieces[:cut + 1]:
                # (Conn.send would spin on an incomplete literal: feed and yield)
                conn.feed_nowait(pc)
                for _ in range(6):
                    await asyncio.sleep(0)
            if how == 'drop':
                await conn.send_eof()
            else:
                conn.task.cancel()
                try:
                    await asyncio.wait_for(asyncio.shield(conn.task), 5)
                except BaseException:
                    pass
            after = box_state(env, names)
            done = cut == len(pieces) - 1
            ctx.count(('drop', cut, how))
            want = before if not done else None
            if not done and after != before:
                ctx.failure('multiappend_all_or_nothing',
                            f'{how} after piece {cut} of a two-message APPEND left '
                            f'{_js(after)}', {'cut': cut, 'how': how},
                            {'kind': 'append_half_applied', 'backend': 'dict'})
            if done:
                got = [c for _u, c in after[b'boxa'][1]]
                if got != [900, 901, 902]:
                    ctx.failure('multiappend_all_or_nothing', f'completed APPEND stored {got}',
                                {'cut': cut, 'how': how}, {'kind': 'append_incomplete'})
    # cancellation / drop while the server is inside drain() after a MOVE
    for how in ('drop', 'cancel'):
        env, conn, probe = await fresh()
        await conn.send(b's1 SELECT boxa\r\n')
        before = multiset(box_state(env, names))
        conn.drain_gate = asyncio.Event()
        conn.feed_nowait(b'v1 UID MOVE 101 boxb\r\n')
        await asyncio.wait_for(conn.in_drain.wait(), 5)
        mid = box_state(env, names)
        if how == 'cancel':
            conn.task.cancel()
        else:
            conn.eof = True
        conn.drain_gate.set()
        try:
            await asyncio.wait_for(asyncio.shield(conn.task), 5)
        except BaseException:
            pass
        after = box_state(env, names)
        ctx.count(('drain', how))
        if multiset(mid) != before or multiset(after) != before:
            ctx.failure('move_conserved', f'{how} inside drain after MOVE: {_js(after)}',
                        {'how': how}, {'kind': 'move_lost_or_duplicated'})
        if [u for u, _ in after[b'boxa'][1]] or [c for _u, c in after[b'boxb'][1]] != [900]:
            ctx.failure('move_conserved', f'{how} inside drain: MOVE not applied exactly once: '
                        f'{_js(after)}', {'how': how}, {'kind': 'move_not_removed'})


async def faults_inside_storage_calls(ctx) -> None:
    """Deterministic sweep: every fault kind (ordinary exception,
    CancelledError, a BaseException that is not an Exception, cancellation of
    the connection task while the call is suspended) at every storage call of a
    three-message APPEND and of a two-message MOVE; MOVE and COPY whose
    destination is the selected source mailbox itself, under a watchdog."""
    names = list(BOXES.values())

    async def fresh(plan):
        env = await DictEnv().start()
        conn = await env.login()
        for n in names:
            await conn.send(b'c0 CREATE ' + n + b'\r\n')
        plan.arm(None)
        await conn.send(b'c1 APPEND boxa {%d+}\r\n' % len(literal_msg(900)) + literal_msg(900)
                        + b' {%d+}\r\n' % len(literal_msg(899)) + literal_msg(899) + b'\r\n')
        return env, conn
    plan = FaultPlan()
    plan.install()
    try:
        for kind in KINDS:
            for idx in range(3):
                env, conn = await fresh(plan)
                before = box_state(env, names)
                c = ('append', 1, [911, 912, 913])
                status, _ = await run_dict_cmd(env, conn, c, plan, idx, kind)
                after = box_state(env, names)
                ctx.count(('sweep', 'append', kind, idx))
                if status == 'OK' or {n: v[1] for n, v in after.items()} != \
                        {n: v[1] for n, v in before.items()}:
                    ctx.failure('multiappend_all_or_nothing',
                                f'three-message APPEND whose storage call {idx} fails ({kind}) '
                                f'ended in {status} and left {_js(after)}',
                                {'backend': 'dict', 'cmd': c, 'fault': idx, 'kind': kind},
                                {'kind': 'append_half_applied', 'backend': 'dict'})
            for idx in range(2):
                env, conn = await fresh(plan)
                before = multiset(box_state(env, names))
                c = ('move', 1, [101, 102], 2)
                status, _ = await run_dict_cmd(env, conn, c, plan, idx, kind)
                after = multiset(box_state(env, names))
                ctx.count(('sweep', 'move', kind, idx))
                if after != before or status == 'HANG':
                    ctx.failure('move_conserved', f'MOVE whose storage call {idx} fails ({kind}): '
                                f'{status}, contents {after}, before {before}',
                                {'backend': 'dict', 'cmd': c, 'fault': idx, 'kind': kind},
                                {'kind': 'move_lost_or_duplicated'})
        # destination = the selected source mailbox itself
        for verb in ('move', 'copy'):
            env, conn = await fresh(plan)
            before = box_state(env, names)
            c = (verb, 1, [101], 1)
            status, _ = await run_dict_cmd(env, conn, c, plan, None)
            ctx.count(('sweep', 'same_mailbox', verb))
            if status == 'HANG':
                conn.task.cancel()
                try:
                    await asyncio.wait_for(asyncio.shield(conn.task), 5)
                except BaseException:
                    pass
            after = box_state(env, names)
            want = sorted([900, 899] + ([900] if verb == 'copy' else []))
            if status != 'OK' or multiset(after) != want:
                ctx.failure('move_conserved',
                            f'{verb.upper()} of a message into the selected mailbox itself: '
                            f'{"no tagged response (the command hangs)" if status == "HANG" else status}'
                            f'; the mailboxes then hold {multiset(after)}, expected {want}',
                            {'backend': 'dict', 'cmd': c, 'before': _js(before)},
                            {'kind': 'command_hangs' if status == 'HANG'
                             else 'move_lost_or_duplicated'})
        # the same mailbox under two spellings of its name (INBOX is
        # case-insensitive): SELECT INBOX; UID MOVE n inbox
        env = await DictEnv().start()
        conn = await env.login()
        mbs = next(iter(env.config.set_cache.values()))[0]
        before = sorted(len(bytes(m._content)) for m in mbs._inbox._messages.values())
        await conn.send(b's1 SELECT INBOX\r\n')
        plan.arm(None)
        r = await send_watched(conn, plan, b'x1 UID MOVE 101 inbox\r\n')
        ctx.count(('sweep', 'same_mailbox', 'inbox_spelling'))
        if r is None:
            conn.task.cancel()
            try:
                await asyncio.wait_for(asyncio.shield(conn.task), 5)
            except BaseException:
                pass
        after = sorted(len(bytes(m._content)) for m in mbs._inbox._messages.values())
        if r is None or b'x1 OK' not in r or after != before:
            ctx.failure('move_conserved',
                        f'SELECT INBOX; UID MOVE 101 inbox: '
                        f'{"no tagged response (hangs)" if r is None else r[-60:]!r}; INBOX message '
                        f'sizes {after}, before {before}', {'backend': 'dict'},
                        {'kind': 'command_hangs' if r is None else 'move_lost_or_duplicated'})
    finally:
        plan.uninstall()


def move_window_calls(ctx) -> None:
    """Which Python functions run inside MailboxData.move between the removal
    from the source and the insertion into the destination: only lock
    bookkeeping, the mod-sequence log, the update event and the Message copy
    constructor — none that can raise on message data."""
    from pymap.backend.dict.mailbox import MailboxData
    seen: list = []

    async def go():
        env = await DictEnv().start()
        conn = await env.login()
        for n in BOXES.values():
            await conn.send(b'c0 CREATE ' + n + b'\r\n')
        await conn.send(b'c1 APPEND boxa {%d+}\r\n' % len(literal_msg(1)) + literal_msg(1) + b'\r\n')
        await conn.send(b's1 SELECT boxa\r\n')
        orig = MailboxData.move
        code = orig.__code__

        def prof(frame, event, arg):
            # functions of pymap itself called directly from move()
            if event == 'call' and frame.f_back is not None and frame.f_back.f_code is code \
                    and '/pymap/' in frame.f_code.co_filename:
                seen.append(frame.f_code.co_qualname)

        async def traced(self_, *a, **k):
            sys.setprofile(prof)
            try:
                return await orig(self_, *a, **k)
            finally:
                sys.setprofile(None)
        MailboxData.move = traced
        try:
            await conn.send(b'v1 UID MOVE 101 boxb\r\n')
        finally:
            MailboxData.move = orig
    arun(go())
    allowed = {'_AsyncioReadWriteLock.write_lock', '_AsyncioReadWriteLock.read_lock',
               '_ModSequenceMapping.expunge', '_ModSequenceMapping.update',
               '_AsyncioEvent.set', 'Message.copy', 'MailboxData.messages_lock',
               'ReadWriteLock.write_lock', 'Event.set', '_AsyncGeneratorContextManager.__aenter__',
               '_AsyncGeneratorContextManager.__aexit__', 'asynccontextmanager.<locals>.helper',
               '_GeneratorContextManagerBase.__init__'}
    ctx.extra['dict_move_calls'] = sorted(set(seen))
    extra = [s for s in set(seen) if s not in allowed and not s.startswith('_AsyncioReadWriteLock')
             and not s.startswith('_AsyncGeneratorContextManager')]
    ctx.count(('move_window',))
    if extra or not seen:
        ctx.failure('move_conserved', f'MailboxData.move calls {extra or "nothing traced"} '
                    f'between its two mutations', {'calls': sorted(set(seen))},
                    {'kind': 'move_window_calls'})


# -------------------------------------------------------------------- maildir
def maildir_histories(rng, n: int) -> list:
    A = lambda f, *ms: ('append', f, list(ms))
    fixed = [
        [('create', ['foo']), A([], ('S', 1), ('', 2)), ('select', []),
         ('move', [1, 2], ['foo']), ('select', ['foo']), ('move', [1], [])],
        [A([], ('', 1), ('F', 2), ('S', 3))],
        # destination with a record of an expunged message (no CHECK since)
        [('create', ['foo']), A(['foo'], ('', 1), ('', 2)), A([], ('', 3), ('S', 4)),
         ('select', ['foo']), ('store', [1], '+', 'T'), ('expunge',), ('select', []),
         ('move', [1], ['foo']), ('copy', [2], ['foo']), A(['foo'], ('F', 5), ('', 6))],
        [A([], ('', 1), ('S', 2)), ('select', []), ('move', [1, 2], []), ('copy', [3], []),
         ('check',)],
        [('create', ['foo']), A(['foo'], ('', 1), ('', 2)), ('select', ['foo']),
         ('copy', [1, 2], []), ('store', [1], '+', 'T'), ('expunge',)],
    ]
    out = [{'layout': '++' if i % 2 == 0 else 'fs', 'history': h} for i, h in enumerate(fixed)]
    w = {'append': 6, 'move': 8, 'copy': 3, 'expunge': 2, 'store': 3, 'select': 4, 'create': 3,
         'rename': 0, 'subscribe': 0, 'unsubscribe': 0, 'check': 1, 'noop': 0, 'examine': 0,
         'close': 0}
    for _ in range(n):
        out.append({'layout': rng.choice(['++', 'fs']),
                    'history': MM.gen_history(rng, rng.randint(4, 7), weights=w)})
    return out


def maildir_failures(res: dict, cr: dict) -> list:
    """C14 oracles on a crash point of a maildir history."""
    ref = res['ref']
    cmds = ref['cmds']
    a = cr['acked']
    dumps = [ref['dump0']] + [c['dump'] for c in cmds]
    prev = dumps[a]
    rec = cr.get('dump_aged', cr['dump_raw'])
    fails = []
    inflight = MM._tup(cmds[a]['cmd']) if a < len(cmds) else None

    def bodies(d):
        return sorted(m['body'] for f in d['folders'].values() for m in f['msgs'])
    self_move = False
    if inflight is not None and inflight[0] == 'move':
        sel = [MM._tup(c['cmd'])[1] for c in cmds[:a] if c['cmd'][0] in ('select', 'examine')]
        self_move = bool(sel) and list(sel[-1]) == list(inflight[2])
    if self_move:
        # MOVE into the selected mailbox itself is copy + delete: while it is in
        # flight a moved message may exist twice, it may never be missing
        got, want = bodies(rec), bodies(prev)
        extra = list(got)
        for b_ in want:
            if b_ in extra:
                extra.remove(b_)
            else:
                fails.append(('move_conserved', f'a kill at operation {cr["k"]} of {inflight} '
                              f'(into the selected mailbox itself) lost cid '
                              f'{M.cid_of(bytes.fromhex(b_))}', {'kind': 'move_lost_or_duplicated'}))
        if any(b_ not in want for b_ in extra):
            fails.append(('move_conserved', 'unknown content appeared', {'kind': 'lost_or_duplicated'}))
    elif inflight is None or inflight[0] in ('move', 'select', 'store', 'check', 'create', 'noop'):
        # nothing may be lost or duplicated: same multiset of contents
        if bodies(rec) != bodies(prev):
            lost = [M.cid_of(bytes.fromhex(b_)) for b_ in bodies(prev) if b_ not in bodies(rec)]
            fails.append(('move_conserved',
                          f'after a kill at operation {cr["k"]} (during {inflight}) the store '
                          f'holds cids {[M.cid_of(bytes.fromhex(x)) for x in bodies(rec)]}, before '
                          f'{[M.cid_of(bytes.fromhex(x)) for x in bodies(prev)]}',
                          {'kind': 'move_lost_or_duplicated' if inflight and inflight[0] == 'move'
                           else 'lost_or_duplicated', 'lost': lost}))
    if inflight is not None and inflight[0] == 'append' and len(inflight[2]) > 1:
        new = [b_ for b_ in bodies(rec) if b_ not in bodies(prev)]
        if new:
            fails.append(('multiappend_all_or_nothing',
                          f'a kill at operation {cr["k"]} of a {len(inflight[2])}-message APPEND '
                          f'that was never acknowledged leaves {len(new)} of its messages in the '
                          f'mailbox', {'kind': 'append_half_applied', 'backend': 'maildir',
                                       'fault': 'kill'}))
    return fails


def section_maildir(ctx) -> None:
    rng = ctx.rng
    jobs = maildir_histories(rng, ctx.scale(3, 50))
    nkill = ctx.scale(1, 4)
    results = M.crash_campaign(
        jobs, lambda total: range(total + 1),
        lambda total: rng.sample(range(total + 1), min(nkill, total + 1)))
    hist_cases, crash_cases, keep = [], [], []
    points = 0
    for r in results:
        ref = r.get('ref')
        if not ref or ref.get('error') or 'cmds' not in ref:
            ctx.broken.append('maildir reference run failed: ' + json.dumps(r['history'])[:300])
            continue
        # a command answered NO or BAD leaves the store unchanged
        dumps = [ref['dump0']] + [c['dump'] for c in ref['cmds']]
        for i, c in enumerate(ref['cmds']):
            if c['status'] in ('NO', 'BAD') and MM.canon_dump(dumps[i]) != MM.canon_dump(dumps[i + 1]):
                ctx.failure('no_bad_no_effect', f'{c["cmd"]} answered {c["status"]} but changed '
                            f'the store', {'history': r['history'], 'layout': r['layout']},
                            {'kind': 'no_bad_changed'})
            if c['status'] in ('BYE', 'NONE'):
                ctx.failure('observation', f'{c["cmd"]} ended in {c["status"]}: {c.get("exc")}',
                            {'history': r['history'], 'layout': r['layout']},
                            {'kind': 'command_failed'})
        case, unknown = MM.history_case(r)
        if unknown:
            ctx.disagreement('maildir_history', {'events': unknown[:3], 'history': r['history']})
        hist_cases.append(case)
        for cr in r['crashes'] + r['kills']:
            points += 1
            ctx.count(('maildir_crash', r['layout'], json.dumps(r['history']), cr['k'],
                       bool(cr.get('killed'))))
            for clause, text, obs in maildir_failures(r, cr):
                ctx.failure(clause, text, {'layout': r['layout'], 'history': r['history'],
                                           'k': cr['k'], 'backend': 'maildir'}, obs)
        for kl in r['kills']:
            if not MM.determinism_ok(r, kl) or not MM.kill_matches_copy(r, kl):
                ctx.disagreement('kill_vs_copy', {'k': kl['k'], 'history': r['history']})
        crash_cases.append(MM.crash_case(r))
        keep.append(r)
    ctx.extra['maildir_crash_points'] = points
    for i in ctx.run_cases('maildir_history', MM.HEADER,
                           'layout * fs * list (cmd * list fsop * ack) * fs', hist_cases,
                           'chk_history', shard=6)[:5]:
        ctx.disagreement('maildir_history', {'layout': keep[i]['layout'],
                                             'history': keep[i]['history']})
    for i in ctx.run_cases('maildir_crash', MM.HEADER,
                           'layout * fs * list cmd * list (nat * bool * odump)', crash_cases,
                           'chk_crash', shard=2)[:5]:
        ctx.disagreement('maildir_crash', {'layout': keep[i]['layout'],
                                           'history': keep[i]['history']})


# ------------------------------------------- maildir: failing filesystem calls
def fault_targets(rng, n_random: int, quick: bool = False) -> list:
    """(layout, set-up history, command) triples: every command of the
    alphabet, both layouts."""
    A = lambda f, *ms: ('append', f, list(ms))
    base = [('create', ['foo']), A([], ('S', 1), ('', 2)), ('select', [])]
    fixed = [
        (base, A(['foo'], ('F', 3))),                              # APPEND, other folder selected
        (base, A([], ('', 3), ('F', 4), ('S', 5))),                # MULTIAPPEND into the selection
        (base, A(['foo'], ('', 3), ('S', 4))),                     # MULTIAPPEND elsewhere
        (base[:2], A([], ('', 3), ('T', 4))),                      # nothing selected
        (base, ('copy', [1, 2], ['foo'])),
        (base, ('move', [1, 2], ['foo'])),
        (base, ('move', [2], [])),                                 # into the selected mailbox
        (base, ('store', [1, 2], '+', 'F')),
        (base + [('store', [1, 2], '+', 'T')], ('expunge',)),
        (base, ('create', ['bar'])),
        (base + [('create', ['foo', 'sub'])], ('rename', ['foo'], ['bar'])),
        (base, ('subscribe', ['foo'])),
        (base + [('subscribe', ['foo']), ('subscribe', ['bar'])], ('unsubscribe', ['foo'])),
        (base + [A(['foo'], ('', 7), ('S', 8))], ('select', ['foo'])),
        (base + [('store', [1], '+', 'T'), ('expunge',)], ('check',)),
        # destination still records an expunged message
        ([('create', ['foo']), A(['foo'], ('', 1), ('', 2)), A([], ('', 3), ('S', 4)),
          ('select', ['foo']), ('store', [1], '+', 'T'), ('expunge',), ('select', [])],
         ('move', [1, 2], ['foo'])),
    ]
    out = []
    for i, (s, c) in enumerate(fixed):
        # quick: each target on one layout (alternating), the layout-specific
        # commands CREATE and RENAME on both; thorough: everything on both
        both = not quick or c[0] in ('create', 'rename')
        for lay in (('++', 'fs') if both else (('++', 'fs')[i % 2],)):
            out.append({'layout': lay, 'setup': list(s), 'cmd': c})
    w = {'append': 6, 'move': 6, 'copy': 3, 'expunge': 2, 'store': 3, 'select': 3, 'create': 2,
         'rename': 1, 'subscribe': 1, 'unsubscribe': 0, 'check': 1, 'noop': 0, 'examine': 1,
         'close': 0}
    tries = 0
    while n_random > 0 and tries < 50 * n_random:
        tries += 1
        h = MM.gen_history(rng, rng.randint(4, 8), weights=w)
        if h[-1][0] in ('noop', 'examine', 'close') or any(c[0] == 'rename' for c in h[:-1]):
            continue
        out.append({'layout': rng.choice(['++', 'fs']), 'setup': h[:-1], 'cmd': h[-1]})
        n_random -= 1
    return out


def _bodies(d: dict) -> list:
    return sorted(m['body'] for f in d['folders'].values() for m in f['msgs'])


def _contents(d: dict) -> dict:
    return {'list': sorted(d['list']), 'lsub': sorted(d['lsub']),
            'folders': {n: [(m['uid'], m['flags'], m['body']) for m in f['msgs']]
                        for n, f in d['folders'].items()}}


def fault_failures(job: dict, x: dict) -> list:
    """Oracles of the property on one faulted run (not the model)."""
    cmd = MM._tup(job['cmd'])
    fails = []
    d0, d1, d2 = x['dump0'], x['dump1'], x['dump2']
    failed = x.get('failed') or ['?', '?']
    where = f'{x["kind"]} at operation {x["k"]} ({failed[0]} {str(failed[1]).split("/")[-1]}) of {cmd}'
    at_tmp_unlink = failed[0] == 'unlink' and '/tmp/' in str(failed[1])
    # 1. NO / BAD: nothing changed
    if x['status'] in ('NO', 'BAD') and _contents(d1) != _contents(d0):
        fails.append(('no_bad_no_effect', f'{where}: answered {x["status"]} but a fresh session '
                      f'sees other contents', {'kind': 'no_bad_changed', 'backend': 'maildir'}))
    # 2. no stale lock, the folders answer at once
    timeouts = [e for e in d1['errors'] if e['status'] == 'NO' and 'TIMEOUT' in e['resp']]
    if x['locks_after'] or x['locks'] or timeouts:
        fails.append(('fault_lock_released', f'{where}: lock file left behind '
                      f'{x["locks"] or x["locks_after"]}; {len(timeouts)} mailbox(es) answer NO '
                      f'[TIMEOUT]', {'kind': 'fault_leaves_lock', 'backend': 'maildir'}))
    # 3. a restarted server serves the same
    if MM.canon_dump(d1) != MM.canon_dump(d2):
        fails.append(('fault_restart_same', f'{where}: a new backend object on the directory '
                      f'serves something else than the running one',
                      {'kind': 'restart_differs', 'backend': 'maildir'}))
    # 4. a connection that is still open goes on working
    if not x['closed'] and x.get('noop_after') != 'OK':
        fails.append(('fault_lock_released', f'{where}: the connection survived but NOOP answers '
                      f'{x.get("noop_after")}', {'kind': 'connection_wedged', 'backend': 'maildir'}))
    # 5. APPEND: all or nothing
    if cmd[0] == 'append':
        new = list(_bodies(d1))
        for b_ in _bodies(d0):
            if b_ in new:
                new.remove(b_)
        n = len(cmd[2])
        if x['status'] == 'OK' and len(new) != n:
            fails.append(('multiappend_all_or_nothing', f'{where}: answered OK but {len(new)} of '
                          f'{n} messages are served', {'kind': 'append_ok_incomplete',
                                                       'backend': 'maildir'}))
        if x['status'] != 'OK' and len(new) not in (0, n) or \
                (x['status'] in ('NO', 'BAD') and new):
            fails.append(('multiappend_all_or_nothing',
                          f'{where}: answered {x["status"]} and {len(new)} of its {n} messages '
                          f'are served afterwards',
                          {'kind': 'append_half_applied', 'backend': 'maildir',
                           'fault': 'unlink_tmp' if at_tmp_unlink else 'oserror'}))
    # 6. MOVE: every message in the source or the destination, never lost
    if cmd[0] in ('move', 'store', 'select', 'check', 'create', 'subscribe', 'unsubscribe',
                  'rename'):
        sel = selection_after_py(job['setup'])
        self_move = cmd[0] == 'move' and sel is not None and list(sel[0]) == list(cmd[2])
        got, want = _bodies(d1), _bodies(d0)
        lost = list(want)
        for b_ in got:
            if b_ in lost:
                lost.remove(b_)
        dup = len(got) - (len(want) - len(lost))
        broken = [e for e in d1['errors'] if e['status'] != 'NO' or 'TIMEOUT' not in e['resp']]
        if lost and not broken:
            fails.append(('move_conserved', f'{where}: {len(lost)} message(s) are served from no '
                          f'mailbox afterwards', {'kind': 'move_lost_or_duplicated',
                                                  'backend': 'maildir', 'fault': 'oserror'}))
        if dup and not self_move:
            fails.append(('move_conserved', f'{where}: {dup} message(s) are served twice',
                          {'kind': 'move_lost_or_duplicated', 'backend': 'maildir',
                           'fault': 'oserror'}))
    return fails


def selection_after_py(history):
    from harness.maildir_faults import selection_after
    return selection_after(history)


def section_maildir_faults(ctx) -> None:
    from harness import maildir_faults as F
    rng = ctx.rng
    jobs = fault_targets(rng, ctx.scale(3, 16), ctx.quick)
    for n, j in enumerate(jobs):
        # ENOSPC at every position of every target, the other two errors at
        # every position of every fourth (quick) / second (thorough) target each
        j['kinds'] = {'enospc': 'all'}
        every = 4 if ctx.quick else 2
        if n % every == 0:
            j['kinds']['eio'] = 'all'
        if n % every == every // 2:
            j['kinds']['eacces'] = 'all'
    results = F.run_faults(jobs)
    cases, keep = [], []
    stats = {'runs': 0, 'skipped_unlock': 0, 'serverbug_bye': 0, 'status': {}, 'half_created': 0,
             'eacces_link_fallback': 0, 'targets': len(jobs)}
    for job in results:
        clean = job['clean']
        if 'events' not in clean or clean.get('error') or clean.get('setup_failed'):
            ctx.broken.append('maildir fault reference run failed: '
                              + json.dumps([job['setup'], job['cmd'], clean.get('error'),
                                            clean.get('setup_failed')])[:400])
            continue
        stats['skipped_unlock'] += job.get('skipped_unlock', 0)
        group: dict = {}
        for x in job['runs']:
            rep = {'layout': job['layout'], 'setup': job['setup'], 'cmd': job['cmd'],
                   'k': x['k'], 'fault': x['kind'], 'backend': 'maildir'}
            if x.get('error') or 'dump2' not in x:
                ctx.broken.append('maildir fault run failed: ' + json.dumps(rep)[:300]
                                  + ' ' + str(x.get('error')))
                continue
            stats['runs'] += 1
            stats['status'][x['status']] = stats['status'].get(x['status'], 0) + 1
            ctx.count(('maildir_fault', job['layout'], json.dumps(job['setup']),
                       json.dumps(job['cmd']), x['k'], x['kind']))
            if x['status'] == 'BYE' and x['serverbug']:
                stats['serverbug_bye'] += 1
            if any(e['status'] != 'NO' or 'TIMEOUT' not in e['resp']
                   for e in x['dump1']['errors']):
                stats['half_created'] += 1
            fails = fault_failures(job, x)
            for clause, text, obs in fails:
                ctx.failure(clause, text, rep, obs)
            link_fallback = x['kind'] == 'eacces' and x['failed'] and x['failed'][0] == 'link'
            if link_fallback:
                # stdlib Maildir.add falls back to rename() when link() is not
                # permitted: the command must simply succeed
                stats['eacces_link_fallback'] += 1
                if x['status'] != clean['status'] or \
                        _contents(x['dump1']) != _contents(clean['dump1']):
                    ctx.failure('observation', f'link() refused with EACCES at operation {x["k"]} '
                                f'of {job["cmd"]}: the rename fallback did not complete the '
                                f'command', rep, {'kind': 'link_fallback_failed'})
                continue
            ob, unknown = F.fault_obs(job, x)
            if unknown or F.prefix_differs(job, x):
                ctx.disagreement('maildir_fault', {'events': unknown[:3], 'prefix_differs':
                                                   F.prefix_differs(job, x), **rep})
            group.setdefault(x['kind'], []).append((ob, rep, x, bool(fails)))
        for kind, items in group.items():
            if x_fs0_differs(job, [it[2] for it in items]):
                ctx.disagreement('maildir_fault_determinism',
                                 {'layout': job['layout'], 'setup': job['setup'],
                                  'cmd': job['cmd']})
            cases.append(F.fault_case(job, [it[0] for it in items]))
            keep.append((job, items))
    ctx.extra['maildir_fault'] = stats
    if keep:
        job, items = keep[len(keep) // 2]
        rep, x = items[len(items) // 2][1], items[len(items) // 2][2]
        ctx.sample({'maildir_fault': rep, 'status': x['status'],
                    'after_fault': [e[:2] for e in x['events'][x['failed_index'] or 0:]]})
    bad = ctx.run_cases('maildir_fault', F.HEADER, 'fault_case', cases, 'chk_fault', shard=2,
                        timeout=1800)
    # pinpoint: re-evaluate the runs of the first failing groups one by one
    for gi in bad[:3]:
        job, items = keep[gi]
        singles = [F.fault_case(job, [it[0]]) for it in items]
        res = coqrun.run_cases('C14', 'maildir_fault_pin', F.HEADER, 'fault_case', singles,
                               'chk_fault', shard=4, timeout=1800)
        for i in (res['bad'] or [0])[:3]:
            _ob, rep, x, had_failure = items[i]
            ctx.disagreement('maildir_fault', {**rep, 'status': x['status'],
                                               'after_fault': [e[:2] for e in x['events']
                                                               [x['failed_index'] or 0:]],
                                               'monitor_failed_too': had_failure})


def section_stale_selection(ctx) -> None:
    """dict: one command under a selection that another session has made stale (deleted,
    renamed away, deleted and re-created, renamed and back); monitors only (harness/c14_stale.py)."""
    from .. import c14_stale as CS
    plan = CS.plan(ctx.rng, quick=(ctx.scale(0, 1) == 0))
    hist = {}
    for i, (ro, stale, cname) in enumerate(plan):
        res = arun(CS.scenario(ro, stale, cname, 70000 + 100 * i), timeout=120)
        ctx.count(('stale_selection', stale, cname, res['status']),
                  nontrivial=stale != 'none')
        hist[res['status']] = hist.get(res['status'], 0) + 1
        for clause, what, obs in CS.judge(res):
            ctx.failure(clause, '[stale selection] ' + what,
                        {'backend': 'dict', 'family': 'stale_selection', **res}, obs)
    ctx.extra['stale_selection'] = {'scenarios': len(plan), 'status_histogram': hist}


def x_fs0_differs(job: dict, runs: list) -> bool:
    """The start state of every faulted run is that of the fault-free run
    (names are deterministic): the model is evaluated on the latter."""
    want = [list(e) for e in job['clean']['fs0']]
    return any([list(e) for e in x['fs0']] != want for x in runs)


def run(ctx) -> None:
    import time
    ctx.rule = ('dict: sessions of 25 random commands (APPEND with 1-4 messages, UID MOVE / COPY '
                'of 1-3 uids, EXPUNGE, an unparseable line) on two mailboxes, each with a fault '
                'position drawn over the storage calls of the command (or none); non-trivial = '
                'not the unparseable line.  maildir: histories centred on MOVE / COPY / '
                'multi-message APPEND, every filesystem-operation boundary as the kill point; '
                'maildir faults: every command of the alphabet, every filesystem operation of it '
                'raising ENOSPC / EIO / EACCES in turn (lock-file removals excepted); '
                'stale selection (dict): one command of 15 under a selection that a second '
                'session deleted / renamed away / re-created / renamed back, 6 x 15 scenarios')
    ctx.assumptions += [
        'a dict-backend command body does not suspend under asyncio (measured on every run), so '
        'cancellation and disconnect land between commands; faults inside a command are '
        'exceptions raised by a storage call',
        'the fault makes the storage call raise before it changes anything (dict append fails '
        'while parsing, before the insertion; pop/insert of move have no fallible call between)',
        'maildir: one process, kill = no further filesystem operation; rename(2) atomic; '
        'thread-level interleavings of the production executor are not explored',
        'maildir faults: one OSError per command, raised by the os-level call wrapped in the '
        'harness process before it takes effect (a failing write: write() of the file object '
        'raises); an OSError of the lock file\'s own removal is swallowed by FileLock._unlock and '
        'is not a fault position',
    ]
    ctx.check_proofs(['Faults/DictFaults', 'MaildirFS/Check', 'Faults/MaildirFaultsCheck'])
    timing = ctx.extra.setdefault('section_wall_s', {})
    for name, sec in (('dict', section_dict),
                      ('atomicity', lambda c: arun(measure_atomicity(c))),
                      ('drops', lambda c: arun(drops_and_cancels(c), timeout=300)),
                      ('fault_sweep', lambda c: arun(faults_inside_storage_calls(c), timeout=400)),
                      ('move_window', move_window_calls),
                      ('stale_selection', section_stale_selection),
                      ('maildir', section_maildir),
                      ('maildir_faults', section_maildir_faults)):
        t0 = time.time()
        sec(ctx)
        timing[name] = round(time.time() - t0, 1)


def replay(ctx, obj) -> int:
    print(json.dumps(obj, indent=1)[:3000])
    return 0
