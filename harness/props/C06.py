"""C06 — every input is answered: no hang, no internal error, no silent drop.

Model: coq/theories/Cmd (CLex, Parser, Utf7Ok, Grammar, Commands), theorems in
Props/C06.v.  This module re-checks the proofs, compares the model with the
real parser (Commands.parse called directly) and with the real server
(in-process IMAPServer / ManageSieveServer on the dict backend) on three input
streams in three connection states, and runs the monitors of the property
statement under a watchdog.
"""
from __future__ import annotations

import asyncio
import collections
import time

from .. import coqterm as T
from .. import c06drv as D
from .. import c06oracle as O
from ..c06gen import Gen, COMMAND_NAMES, ADVERSARIAL_MESSAGES, SIEVE_LINES

HEADER = ('From PV Require Import Base.Prelude Cmd.CLex Cmd.Parser Cmd.Utf7Ok Cmd.Grammar '
          'Cmd.Commands Cmd.Check.\n')

MAX_APPEND = 1000000000     # IMAPConfig default max_append_len

KINDS = ['CapabilityCommand', 'LogoutCommand', 'NoOpCommand', 'IdCommand', 'AppendCommand',
         'CreateCommand', 'DeleteCommand', 'ExamineCommand', 'ListCommand', 'LSubCommand',
         'RenameCommand', 'SelectCommand', 'StatusCommand', 'SubscribeCommand',
         'UnsubscribeCommand', 'AuthenticateCommand', 'LoginCommand', 'StartTLSCommand',
         'CheckCommand', 'CloseCommand', 'ExpungeCommand', 'CopyCommand', 'MoveCommand',
         'FetchCommand', 'StoreCommand', 'SearchCommand', 'UidCopyCommand', 'UidMoveCommand',
         'UidExpungeCommand', 'UidFetchCommand', 'UidSearchCommand', 'UidStoreCommand',
         'IdleCommand']
KIND_INDEX = {k: i for i, k in enumerate(KINDS)}


# ----------------------------------------------------------------- implementation side
_commands = None


def impl_parse(line: bytes, conts: list[bytes], max_append: int | None = MAX_APPEND):
    """Commands.parse on the real parser -> outcome tuple."""
    global _commands
    from pymap.parsing import Params
    from pymap.parsing.commands import Commands, InvalidCommand
    from pymap.parsing.state import ParsingState, ParsingInterrupt
    if _commands is None:
        _commands = Commands()
    params = Params(ParsingState(continuations=[memoryview(c) for c in conts]),
                    max_append_len=max_append)
    try:
        with D.Watch():
            cmd, _ = _commands.parse(memoryview(line), params)
    except ParsingInterrupt as i:
        return ('int', i.expected.literal_length)
    except D.Hang:
        return ('exc', 'Hang')
    except BaseException as e:  # noqa
        return ('exc', type(e).__name__)
    if isinstance(cmd, InvalidCommand):
        reason = 0 if not cmd.command_name else 1 if not cmd.command_type else 2
        return ('inv', reason, bytes(cmd.tag))
    name = type(cmd).__name__
    aux = 0
    if name == 'AppendCommand':
        aux = 2 * len(cmd.messages) + (1 if cmd.cancelled else 0)
    return ('cmd', KIND_INDEX.get(name, 99), bytes(cmd.tag), aux)


def enc_eout(e) -> str:
    if e[0] == 'cmd':
        return f'(ECmd {T.N(e[1])} {T.bytes_(e[2])} {T.N(e[3])})'
    if e[0] == 'inv':
        return f'(EInvalid {T.N(e[1])} {T.bytes_(e[2])})'
    if e[0] == 'int':
        return f'(EInterrupt {T.N(e[1])})'
    return 'EEscaped'


def enc_optN(n) -> str:
    return 'None' if n is None else f'(Some {T.N(n)})'


def enc_parse_case(line: bytes, conts: list[bytes], e, max_append=MAX_APPEND) -> str:
    table = O.build_table([line] + list(conts))
    return T.pair(O.enc_table(table), enc_optN(max_append), T.bytes_(line),
                  T.lst(T.bytes_(c) for c in conts), enc_eout(e))


def split_units(data: bytes) -> tuple[bytes, list[bytes]] | None:
    """Cut a generated command into the line and the continuation units a
    server that asks for every synchronizing literal would read."""
    end = D.next_chunk(data, 0, 0)
    if end is None:
        return None
    line = data[:end]
    conts = []
    pos = end
    last = line
    while pos < len(data):
        n = D.sync_literal_length(last)
        e2 = D.next_chunk(data, pos, n or 0)
        if e2 is None:
            break
        last = data[pos:e2]
        conts.append(last)
        pos = e2
    return line, conts


def nesting_depth(data: bytes) -> int:
    """Upper bound of the nesting the parser could reach on this input
    (parentheses and OR chains)."""
    return data.count(b'(') + data.upper().count(b'OR')


# ------------------------------------------------------------------------- sections
def section_utf7(ctx) -> None:
    from pymap.parsing.modutf7 import modutf7_decode
    import itertools
    rng = ctx.rng
    cases = []
    for n in range(0, 5):
        for t in itertools.product(b'&-A,+!\xff', repeat=n):
            cases.append(bytes(t))
    alph = b'&-,AOkaZ09+/!x\xff~\\'
    for _ in range(ctx.scale(1500, 20000)):
        cases.append(bytes(rng.choice(alph) for _ in range(rng.randint(0, 12))))
    b64 = b'ABCDEFGHIJKLMNOPQRSTUVWXYZabcdefghijklmnopqrstuvwxyz0123456789+,'
    for _ in range(ctx.scale(500, 5000)):
        cases.append(b'&' + bytes(rng.choice(b64) for _ in range(rng.randint(0, 12)))
                     + rng.choice([b'-', b'', b'-x', b'!', b'-&', b'&']))
    terms, keep = [], []
    for c in cases:
        try:
            with D.Watch():
                modutf7_decode(c)
            ok = True
        except UnicodeError:
            ok = False
        except D.Hang:
            ctx.failure('no_hang', f'modutf7_decode does not terminate on {c!r}',
                        {'kind': 'modutf7', 'input': c.hex()}, {'kind': 'hang'})
            continue
        except BaseException as e:  # noqa
            ctx.failure('no_internal_error', f'modutf7_decode raises {type(e).__name__} on {c!r}',
                        {'kind': 'modutf7', 'input': c.hex()}, {'kind': 'modutf7_exception'})
            continue
        ctx.count(('utf7', c), nontrivial=b'&' in c)
        terms.append(T.pair(T.bytes_(c), T.boolean(ok)))
        keep.append(c)
    for i in ctx.run_cases('modutf7_ok', HEADER, 'bytes * bool', terms, 'chk_utf7')[:5]:
        ctx.disagreement('modutf7_ok', {'input': keep[i].hex()})


def gen_parse_inputs(ctx, n_grammar: int, n_mut: int, n_raw: int) -> list[tuple[str, bytes]]:
    g = Gen(ctx.rng)
    out: list[tuple[str, bytes]] = []
    for name in COMMAND_NAMES:
        for _ in range(3):
            out.append(('grammar', g.grammar_line(name)))
    for _ in range(n_grammar):
        out.append(('grammar', g.grammar_line()))
    for _ in range(n_mut):
        out.append(('mutated', g.mutate(g.grammar_line())))
    for _ in range(n_raw):
        out.append(('raw', g.raw_line()))
    return out


SWEEP_BASES = [b'a NOOP\r\n', b'a UID FETCH 1:* (FLAGS BODY[1.TEXT]<0.5>)\r\n',
               b'a SEARCH CHARSET utf-8 OR SUBJECT "x" NOT (FROM y 1:3)\r\n',
               b'a APPEND INBOX (\\Seen) {3+}\r\nabc\r\n', b'a STORE 1 +FLAGS.SILENT (\\Seen)\r\n',
               b'a LIST "" &AOk-*\r\n', b'a SELECT x (CONDSTORE)\r\n', b'a LOGIN u {1}\r\n',
               b'a ID ("a" "b")\r\n', b'a STATUS x (MESSAGES)\r\n']


def sweep_lines(quick: bool) -> list[bytes]:
    out = []
    bases = SWEEP_BASES[:4] if quick else SWEEP_BASES
    values = list(range(256))
    for base in bases:
        for k in range(len(base)):
            for c in (values if not quick else values[::3] + [0x20, 0x22, 0x28, 0x29, 0x5b, 0x5d, 0x7b, 0x7d]):
                if c == base[k]:
                    continue
                out.append(base[:k] + bytes([c]) + base[k + 1:])
            out.append(base[:k] + base[k + 1:])
    return out


def section_parse(ctx) -> None:
    """Model vs Commands.parse, every prefix of the continuation exchange."""
    inputs = gen_parse_inputs(ctx, ctx.scale(2500, 40000), ctx.scale(2500, 40000), ctx.scale(600, 8000))
    inputs += [('sweep', ln) for ln in sweep_lines(ctx.quick)]
    g = Gen(ctx.rng)
    inputs += [('deep', ln) for ln in g.deep_lines(3000)] + [('deep', ln) for ln in g.deep_lines(30)]
    terms, keep = [], []
    hist = collections.Counter()
    seen = set()
    for stream, data in inputs:
        units = split_units(data)
        if units is None:
            continue
        line, conts = units
        d = nesting_depth(data)
        if 60 < d < 2500:
            continue        # the exact recursion limit is not modelled
        for k in range(len(conts) + 1):
            key = (line, tuple(conts[:k]))
            if key in seen:
                break
            seen.add(key)
            e = impl_parse(line, conts[:k])
            hist[(stream, e[0] if e[0] != 'cmd' else 'cmd')] += 1
            ctx.count(('parse', key), nontrivial=e[0] in ('cmd', 'int'))
            if e[0] == 'exc':
                clause = 'no_hang' if e[1] == 'Hang' else 'no_internal_error'
                ctx.failure(clause, f'Commands.parse: {e[1]} escapes on {line[:120]!r}',
                            {'kind': 'parse', 'line': line.hex(), 'conts': [c.hex() for c in conts[:k]]},
                            {'kind': 'parse_escape', 'exc': e[1]})
            terms.append(enc_parse_case(line, conts[:k], e))
            keep.append((line, conts[:k], e))
            if e[0] != 'int':
                break
    ctx.extra['parse_outcomes'] = {f'{a}/{b}': n for (a, b), n in sorted(hist.items())}
    ctx.sample({'parse_case': [keep[-1][0].decode('latin-1'), repr(keep[-1][2])]})
    bad = ctx.run_cases('parse_command', HEADER, 'parse_case', terms, 'chk_parse', shard=400)
    for i in bad[:8]:
        line, conts, e = keep[i]
        model = coq_parse(ctx, line, conts)
        ctx.disagreement('parse_command', {'line': line.hex(), 'conts': [c.hex() for c in conts],
                                           'line_text': line[:200].decode('latin-1'),
                                           'impl': repr(e), 'model': model})


def coq_parse(ctx, line: bytes, conts: list[bytes]) -> str:
    from .. import coqrun
    table = O.build_table([line] + list(conts))
    term = (f'parse_command (table_oracle {O.enc_table(table)}) (mk_config {enc_optN(MAX_APPEND)} CHECK_DEPTH) '
            f'{T.bytes_(line)} {T.lst(T.bytes_(c) for c in conts)}')
    out = coqrun.eval_term(ctx.prop, 'diag', HEADER, term)
    return out[-400:]


SECTIONS = [section_utf7, section_parse]


def run(ctx) -> None:
    D.install_watchdog()
    ctx.rule = ('inputs are drawn from one PRNG (seed): grammar-derived command lines for every '
                'built-in command with valid and invalid arguments, mutated lines, raw lines, byte sweeps')
    ctx.check_proofs(['Cmd/Check'])
    for sec in SECTIONS:
        sec(ctx)


def replay(ctx, obj) -> int:
    print(obj)
    return 0
