"""C06 — every input is answered: no hang, no internal error, no silent drop.

Model: coq/theories/Cmd (CLex, Parser, Utf7Ok, Grammar, Commands), theorems in
Props/C06.v.  This module re-checks the proofs, compares the model with the
real parser (Commands.parse called directly) and with the real server
(in-process IMAPServer / ManageSieveServer on the dict backend) on three input
streams in three connection states, and runs the monitors of the property
statement under a watchdog.
"""
from __future__ import annotations

import asyncio
import collections
import time

from .. import coqterm as T
from .. import c06drv as D
from .. import c06oracle as O
from .. import c06_pool as PL
from ..c06gen import Gen, COMMAND_NAMES, ADVERSARIAL_MESSAGES, SIEVE_LINES, BACKTRACK_LINES

HEADER = ('From PV Require Import Base.Prelude Cmd.CLex Cmd.Parser Cmd.Utf7Ok Cmd.Grammar '
          'Cmd.Commands Cmd.Check Cmd.Framing.\n')

MAX_APPEND = 1000000000     # IMAPConfig default max_append_len

KINDS = ['CapabilityCommand', 'LogoutCommand', 'NoOpCommand', 'IdCommand', 'AppendCommand',
         'CreateCommand', 'DeleteCommand', 'ExamineCommand', 'ListCommand', 'LSubCommand',
         'RenameCommand', 'SelectCommand', 'StatusCommand', 'SubscribeCommand',
         'UnsubscribeCommand', 'AuthenticateCommand', 'LoginCommand', 'StartTLSCommand',
         'CheckCommand', 'CloseCommand', 'ExpungeCommand', 'CopyCommand', 'MoveCommand',
         'FetchCommand', 'StoreCommand', 'SearchCommand', 'UidCopyCommand', 'UidMoveCommand',
         'UidExpungeCommand', 'UidFetchCommand', 'UidSearchCommand', 'UidStoreCommand',
         'IdleCommand']
KIND_INDEX = {k: i for i, k in enumerate(KINDS)}


# Coq evaluation of prepared cases runs in background threads while the next
# section drives the server (the implementation side is single-threaded).
_pending: list = []


def later(fn) -> None:
    import threading
    t = threading.Thread(target=fn, daemon=True)
    t.start()
    _pending.append(t)


def join_all() -> None:
    for t in _pending:
        t.join()
    _pending.clear()


# ----------------------------------------------------------------- implementation side
_commands = None
MAX_HANGS = 4            # a section stops after that many hangs (each costs the whole step budget)
_hangs = [0]


def too_many_hangs() -> bool:
    return _hangs[0] >= MAX_HANGS


def impl_parse(line: bytes, conts: list[bytes], max_append: int | None = MAX_APPEND):
    """Commands.parse on the real parser -> outcome tuple."""
    global _commands
    from pymap.parsing import Params
    from pymap.parsing.commands import Commands, InvalidCommand
    from pymap.parsing.state import ParsingState, ParsingInterrupt
    if _commands is None:
        _commands = Commands()
    params = Params(ParsingState(continuations=[memoryview(c) for c in conts]),
                    max_append_len=max_append)
    try:
        with D.Watch(cpu=1.5):
            cmd, _ = _commands.parse(memoryview(line), params)
    except ParsingInterrupt as i:
        return ('int', i.expected.literal_length)
    except D.Hang:
        _hangs[0] += 1
        return ('exc', 'Hang')
    except BaseException as e:  # noqa
        return ('exc', type(e).__name__)
    if isinstance(cmd, InvalidCommand):
        reason = 0 if not cmd.command_name else 1 if not cmd.command_type else 2
        return ('inv', reason, bytes(cmd.tag))
    name = type(cmd).__name__
    aux = 0
    if name == 'AppendCommand':
        aux = 2 * len(cmd.messages) + (1 if cmd.cancelled else 0)
    return ('cmd', KIND_INDEX.get(name, 99), bytes(cmd.tag), aux)


def enc_eout(e) -> str:
    if e[0] == 'cmd':
        return f'(ECmd {T.N(e[1])} {T.bytes_(e[2])} {T.N(e[3])})'
    if e[0] == 'inv':
        return f'(EInvalid {T.N(e[1])} {T.bytes_(e[2])})'
    if e[0] == 'int':
        return f'(EInterrupt {T.N(e[1])})'
    return 'EEscaped'


def enc_optN(n) -> str:
    return 'None' if n is None else f'(Some {T.N(n)})'


def enc_parse_case(line: bytes, conts: list[bytes], e, max_append=MAX_APPEND) -> str:
    table = O.build_table([line] + list(conts))
    return T.pair(O.enc_table(table), enc_optN(max_append), T.bytes_(line),
                  T.lst(T.bytes_(c) for c in conts), enc_eout(e))


def split_units(data: bytes) -> tuple[bytes, list[bytes]] | None:
    """Cut a generated command into the line and the continuation units a
    server that asks for every synchronizing literal would read."""
    end = D.next_chunk(data, 0, 0)
    if end is None:
        return None
    line = data[:end]
    conts = []
    pos = end
    last = line
    while pos < len(data):
        n = D.sync_literal_length(last)
        e2 = D.next_chunk(data, pos, n or 0)
        if e2 is None:
            break
        last = data[pos:e2]
        conts.append(last)
        pos = e2
    return line, conts


def nesting_depth(data: bytes) -> int:
    """Upper bound of the nesting the parser could reach on this input
    (parentheses and OR chains)."""
    return data.count(b'(') + data.upper().count(b'OR')


# ------------------------------------------------------------------------- sections
def section_utf7(ctx) -> None:
    from pymap.parsing.modutf7 import modutf7_decode
    import itertools
    rng = ctx.rng
    cases = []
    for n in range(0, 4 if ctx.quick else 5):
        for t in itertools.product(b'&-A,+!\xff', repeat=n):
            cases.append(bytes(t))
    alph = b'&-,AOkaZ09+/!x\xff~\\'
    for _ in range(ctx.scale(900, 6000)):
        cases.append(bytes(rng.choice(alph) for _ in range(rng.randint(0, 12))))
    b64 = b'ABCDEFGHIJKLMNOPQRSTUVWXYZabcdefghijklmnopqrstuvwxyz0123456789+,'
    for _ in range(ctx.scale(400, 2000)):
        cases.append(b'&' + bytes(rng.choice(b64) for _ in range(rng.randint(0, 12)))
                     + rng.choice([b'-', b'', b'-x', b'!', b'-&', b'&']))
    terms, keep = [], []
    for c in cases:
        if too_many_hangs():
            break
        try:
            with D.Watch(cpu=1.5):
                modutf7_decode(c)
            ok = True
        except UnicodeError:
            ok = False
        except D.Hang:
            _hangs[0] += 1
            ctx.failure('no_hang', f'modutf7_decode does not terminate on {c!r}',
                        {'kind': 'modutf7', 'input': c.hex()}, {'kind': 'hang'})
            continue
        except BaseException as e:  # noqa
            ctx.failure('no_internal_error', f'modutf7_decode raises {type(e).__name__} on {c!r}',
                        {'kind': 'modutf7', 'input': c.hex()}, {'kind': 'modutf7_exception'})
            continue
        ctx.count(('utf7', c), nontrivial=b'&' in c)
        terms.append(T.pair(T.bytes_(c), T.boolean(ok)))
        keep.append(c)
    def evaluate():
        for i in ctx.run_cases('modutf7_ok', HEADER, 'bytes * bool', terms, 'chk_utf7', shard=1500)[:5]:
            ctx.disagreement('modutf7_ok', {'input': keep[i].hex()})
    later(evaluate)


def gen_parse_inputs(ctx, n_grammar: int, n_mut: int, n_raw: int) -> list[tuple[str, bytes]]:
    g = Gen(ctx.rng)
    out: list[tuple[str, bytes]] = []
    for name in COMMAND_NAMES:
        for _ in range(3):
            out.append(('grammar', g.grammar_line(name)))
    for _ in range(n_grammar):
        out.append(('grammar', g.grammar_line()))
    for _ in range(n_mut):
        out.append(('mutated', g.mutate(g.grammar_line())))
    for _ in range(n_raw):
        out.append(('raw', g.raw_line()))
    return out


SWEEP_BASES = [b'a SEARCH NOT NOT (OR ALL 1:*)\r\n', b'a UID FETCH 1:* (FLAGS BODY[1.TEXT]<0.5>)\r\n',
               b'a SEARCH CHARSET utf-8 OR SUBJECT "x" NOT (FROM y 1:3)\r\n',
               b'a APPEND INBOX (\\Seen) {3+}\r\nabc\r\n', b'a STORE 1 +FLAGS.SILENT (\\Seen)\r\n',
               b'a LIST "" &AOk-*\r\n', b'a SELECT x (CONDSTORE)\r\n', b'a LOGIN u {1}\r\n',
               b'a ID ("a" "b")\r\n', b'a STATUS x (MESSAGES)\r\n']


def sweep_lines(quick: bool) -> list[bytes]:
    """Byte substitutions at every position of a few base lines: the bytes the
    grammar distinguishes (quick: one line) plus a stride through all values
    (thorough: five lines).  All 256 values at the lexically interesting
    positions are covered by CLASS_SWEEPS."""
    out = []
    bases = SWEEP_BASES[1:2] if quick else SWEEP_BASES[:4]
    special = [0x00, 0x0a, 0x0d, 0x20, 0x22, 0x28, 0x29, 0x2a, 0x2c, 0x2e, 0x30, 0x3a, 0x3c, 0x41, 0x5b, 0x5d,
               0x7b, 0x80]
    values = sorted(set(range(0, 256, 5)) | set(special)) if not quick else special
    for base in bases:
        for k in range(len(base)):
            for c in values:
                if c != base[k]:
                    out.append(base[:k] + bytes([c]) + base[k + 1:])
            out.append(base[:k] + base[k + 1:])
    return out


# every byte value at one position of a short line, one line per lexical
# context of the grammar (a changed character class shows up here)
CLASS_SWEEPS = [
    (b'', b' NOOP\r\n'), (b'a', b' NOOP\r\n'), (b'a AUTHENTICATE p', b'\r\n'), (b'a LOGIN u', b' p\r\n'),
    (b'a LIST "" b', b'\r\n'), (b'a STORE 1 FLAGS f', b'\r\n'), (b'a FETCH 1 UID', b'\r\n'),
    (b'a SELECT x (o', b')\r\n'), (b'a SEARCH EMAILID M', b'\r\n'), (b'a SEARCH ', b'\r\n'),
    (b'a FETCH ', b' FLAGS\r\n'), (b'a LOGIN "', b'" p\r\n'), (b'a LOGIN "\\', b'" p\r\n'),
    (b'a LOGIN {1', b'}\r\n'), (b'a NOOP', b'\n'), (b'a SELECT &', b'-\r\n'), (b'a SELECT &A', b'\r\n'),
    (b'a FETCH 1 BODY[', b']\r\n'), (b'a STATUS x (MESSAGES', b')\r\n'), (b'a UID', b'FETCH 1 UID\r\n'),
]


def class_sweeps() -> list[bytes]:
    return [pre + bytes([c]) + post for pre, post in CLASS_SWEEPS for c in range(256)]


def section_parse(ctx) -> None:
    """Model vs Commands.parse, every prefix of the continuation exchange."""
    inputs = gen_parse_inputs(ctx, ctx.scale(600, 3500), ctx.scale(600, 3500), ctx.scale(100, 600))
    inputs += [('sweep', ln) for ln in sweep_lines(ctx.quick)]
    g = Gen(ctx.rng)
    inputs += [('deep', ln) for ln in g.deep_lines(3000)] + [('deep', ln) for ln in g.deep_lines(30)]
    for depth in ([100, 330, 1000] if ctx.quick else [70, 100, 200, 300, 330, 400, 600, 950, 1000, 1500, 2400]):
        inputs += [('gray', ln) for ln in g.deep_lines(depth)]
    inputs += [('backtrack', ln) for ln in BACKTRACK_LINES]
    inputs += [('backtrack', g.mutate(ln, 1)) for ln in BACKTRACK_LINES for _ in range(3)]
    terms, keep = [], []
    deep_terms, deep_keep = [], []
    hist = collections.Counter()
    seen = set()
    for stream, data in inputs:
        if too_many_hangs():
            break
        units = split_units(data)
        if units is None:
            continue
        line, conts = units
        d = nesting_depth(data)
        gray = 60 < d < 2500        # the exact recursion limit is not modelled: weaker check
        for k in range(len(conts) + 1):
            key = (line, tuple(conts[:k]))
            if key in seen:
                break
            seen.add(key)
            e = impl_parse(line, conts[:k])
            hist[(stream, e[0] if e[0] != 'cmd' else 'cmd')] += 1
            ctx.count(('parse', key), nontrivial=e[0] in ('cmd', 'int'))
            if e[0] == 'exc':
                clause = 'no_hang' if e[1] == 'Hang' else 'no_internal_error'
                ctx.failure(clause, f'Commands.parse: {e[1]} escapes on {line[:120]!r}',
                            {'kind': 'parse', 'line': line.hex(), 'conts': [c.hex() for c in conts[:k]]},
                            {'kind': 'parse_escape', 'exc': e[1]})
            if gray:
                deep_terms.append(enc_parse_case(line, conts[:k], e))
                deep_keep.append((line, conts[:k], e))
            else:
                terms.append(enc_parse_case(line, conts[:k], e))
                keep.append((line, conts[:k], e))
            if e[0] != 'int':
                break
    ctx.extra['parse_outcomes'] = {f'{a}/{b}': n for (a, b), n in sorted(hist.items())}
    ctx.sample({'parse_case': [keep[-1][0].decode('latin-1'), repr(keep[-1][2])]})
    # lexical class sweeps: one compact case per context
    sweep_terms, sweep_keep = [], []
    for pre, post in CLASS_SWEEPS:
        if too_many_hangs():
            break
        outs = []
        for c in range(256):
            line = pre + bytes([c]) + post
            e = impl_parse(line, [], None)
            ctx.count(('class', line), nontrivial=e[0] == 'cmd')
            if e[0] == 'exc':
                ctx.failure('no_hang' if e[1] == 'Hang' else 'no_internal_error',
                            f'Commands.parse: {e[1]} escapes on {line!r}',
                            {'kind': 'parse', 'line': line.hex(), 'conts': []}, {'kind': 'parse_escape', 'exc': e[1]})
            outs.append(e)
        sweep_terms.append(T.pair(T.bytes_(pre), T.bytes_(post), T.lst(enc_eout(e) for e in outs)))
        sweep_keep.append((pre, post, outs))

    if len(sweep_terms) < len(CLASS_SWEEPS):
        sweep_terms, sweep_keep = [], []

    def evaluate():
        for i in ctx.run_cases('class_sweep', HEADER, 'bytes * bytes * list eout', sweep_terms, 'chk_sweep', shard=4):
            pre, post, outs = sweep_keep[i]
            # find the byte values: evaluate the 256 lines one by one
            singles = [enc_parse_case(pre + bytes([c]) + post, [], outs[c], None) for c in range(256)]
            for c in ctx.run_cases('class_sweep_detail', HEADER, 'parse_case', singles, 'chk_parse', shard=256)[:4]:
                line = pre + bytes([c]) + post
                ctx.disagreement('class_sweep', {'line': line.hex(), 'line_text': line.decode('latin-1'),
                                                 'impl': repr(outs[c]), 'model': coq_parse(ctx, line, [])})
        for i in ctx.run_cases('parse_deep', HEADER, 'parse_case', deep_terms, 'chk_parse_deep', shard=40)[:4]:
            line, conts, e = deep_keep[i]
            ctx.disagreement('parse_deep', {'line_head': line[:80].decode('latin-1'), 'len': len(line),
                                            'impl': repr(e)})
        bad = ctx.run_cases('parse_command', HEADER, 'parse_case', terms, 'chk_parse', shard=400)
        for i in bad[:8]:
            line, conts, e = keep[i]
            model = coq_parse(ctx, line, conts)
            ctx.disagreement('parse_command', {'line': line.hex(), 'conts': [c.hex() for c in conts],
                                               'line_text': line[:200].decode('latin-1'),
                                               'impl': repr(e), 'model': model})
    later(evaluate)


def coq_parse(ctx, line: bytes, conts: list[bytes]) -> str:
    from .. import coqrun
    table = O.build_table([line] + list(conts))
    term = (f'parse_command (table_oracle {O.enc_table(table)}) (mk_config {enc_optN(MAX_APPEND)} CHECK_DEPTH) '
            f'{T.bytes_(line)} {T.lst(T.bytes_(c) for c in conts)}')
    out = coqrun.eval_term(ctx.prop, 'diag', HEADER, term)
    return out[-400:]



# ------------------------------------------------------------------ server level
STATE_CODE = {'na': 0, 'auth': 1, 'sel': 2}
NA_CMDS = [b'CAPABILITY', b'NOOP', b'ID', b'LOGIN', b'AUTHENTICATE', b'STARTTLS', b'LOGOUT']
AUTH_CMDS = [b'CAPABILITY', b'NOOP', b'ID', b'APPEND', b'CREATE', b'DELETE', b'EXAMINE', b'LIST', b'LSUB',
             b'RENAME', b'SELECT', b'STATUS', b'SUBSCRIBE', b'UNSUBSCRIBE', b'LOGOUT']
SEL_CMDS = AUTH_CMDS + [b'CHECK', b'CLOSE', b'EXPUNGE', b'COPY', b'MOVE', b'FETCH', b'STORE', b'SEARCH',
                        b'UID COPY', b'UID MOVE', b'UID EXPUNGE', b'UID FETCH', b'UID SEARCH', b'UID STORE',
                        b'IDLE', b'FETCH', b'SEARCH', b'STORE', b'UID FETCH', b'UID SEARCH']
STATE_CMDS = {'na': NA_CMDS, 'auth': AUTH_CMDS, 'sel': SEL_CMDS}
FOLLOW_UP = [b'DONE\r\n', b'done\r\n', b'*\r\n', b'AHRlc3R1c2VyAHRlc3RwYXNz\r\n', b'dGVzdHVzZXI=\r\n',
             b'dGVzdHBhc3M=\r\n', b'!!!\r\n', b'AP8AeA==\r\n', b'/w==\r\n', b'\r\n', b'junk\r\n',
             b'DONE {3+}\r\nabc\r\n']


def pick_case(g: Gen, rng, stream: str) -> tuple[str, bytes]:
    state = rng.choice(D.STATES)
    if stream == 'raw':
        return state, g.raw_line()
    # mostly commands that make sense in the state, sometimes any command
    name = rng.choice(STATE_CMDS[state]) if rng.random() < 0.8 else rng.choice(COMMAND_NAMES)
    data = g.grammar_line(name)
    if name in (b'IDLE', b'AUTHENTICATE'):
        for _ in range(rng.choice([0, 1, 2, 3])):
            data += rng.choice(FOLLOW_UP)
    if stream == 'mutated':
        data = g.mutate(data, rng.choice([1, 1, 2]))
    return state, data


TAG_PREFIX_OK = __import__('re').compile(rb' *(\S+)')


def enc_history(history) -> list:
    return [[st, d.hex(), d[:200].decode('latin-1')] for st, d in history]


def monitor(ctx, where: str, state: str, data: bytes, o: D.Outcome, known_kind: str | None = None,
            history=None) -> bool:
    """The property statement on one exchange; True when it holds.  `history`
    = everything sent in this environment so far, in order, as (state of the
    connection, bytes) — the replay of a failure that needs a sequence."""
    replay = {'kind': where, 'state': state, 'data': data.hex(), 'data_text': data[:300].decode('latin-1')}
    if history:
        replay['kind'] = 'sequence'
        replay['sequence'] = enc_history(history[-400:])
    obs_base = {'exc': o.exc, 'site': o.site}
    ok = True

    def fail(clause, what, kind):
        nonlocal ok
        ok = False
        ctx.failure(clause, f'{what}: {state} {data[:160]!r} -> {o.out[-160:]!r}'
                    + (f' [{o.exc} at {o.site}]' if o.exc else ''),
                    dict(replay, outcome=o.as_dict()), dict(obs_base, kind=kind))

    if o.hang:
        fail('no_hang', 'the server does not come back within the step budget', 'hang')
        return ok
    if o.stalled:
        fail('answered', 'complete command line, but no tagged completion, continuation request or BYE within '
             'the step budget: the connection task waits for something that is not the client', 'stalled')
        return ok
    if o.other_ok is False:
        fail('others_served', "a second connection's NOOP is not answered", 'others_blocked')
    if o.serverbug:
        fail('no_internal_error', 'answered with BYE [SERVERBUG]', known_kind or 'serverbug')
    elif o.exc is not None:
        fail('no_internal_error', 'an exception escaped the connection task', known_kind or 'escaped_exception')
    if o.closed and not o.bye and o.exc is None and not o.truncated:
        fail('bye_before_close', 'the connection was closed without BYE', 'close_without_bye')
    if o.truncated or o.serverbug or o.exc is not None:
        return ok
    if o.tagged is not None:
        tag = o.tagged[0]
        m = TAG_PREFIX_OK.match(data)
        first = m.group(1) if m else b''
        if not (tag == b'*' or (tag and first.startswith(tag))):
            fail('tagged_completion', f'the completion carries the tag {tag!r}, not the line\'s', 'wrong_tag')
    elif o.closed and o.bye:
        pass
    elif o.pending and o.conts > 0 and not o.last_silent:
        pass        # waiting for the continuation data it asked for
    elif o.pending and o.conts > 0 and o.unsent == 0 and o.units and D.sync_literal_length(o.units[-1]) is None \
            and len(o.units) > 1 and o.last_silent:
        # the follow-up line of AUTHENTICATE / IDLE was consumed as data of a literal etc.
        fail('tagged_completion', 'complete input, the server stays silent', 'silent')
    elif o.pending:
        fail('tagged_completion', 'complete input, no tagged completion, no continuation request, no BYE', 'silent')
    return ok


def enc_server_case(state: str, units: list[bytes], o: D.Outcome) -> str:
    line, sup = units[0], units[1:]
    table = O.build_table(units)
    cond = {b'OK': 0, b'NO': 1, b'BAD': 2}
    tagged = 'None' if o.tagged is None else f'(Some {T.pair(T.bytes_(o.tagged[0]), T.N(cond[o.tagged[1]]))})'
    obs = T.pair(T.nat(min(o.conts, 4000)), tagged, T.boolean(o.closed), T.boolean(o.bye))
    return T.pair(O.enc_table(table), enc_optN(MAX_APPEND), T.N(STATE_CODE[state]), T.nat(0),
                  T.bytes_(line), T.lst(T.bytes_(c) for c in sup), obs)


async def run_server_stream(ctx, cases: list[tuple[str, str, bytes]], terms, keep, hist) -> None:
    pool = D.Pool()
    for i, (stream, state, data) in enumerate(cases):
        gray = 60 < nesting_depth(data) < 2500
        if too_many_hangs():
            break
        conn = await pool.get(state)
        pool.history.append((state, data))
        o = await D.feed(conn, data, pool.other, probe_other=(i % 7 == 0))
        if o.other_ok is not None:
            pool.history.append(('other', b'prN NOOP\r\nprN SUBSCRIBE INBOX\r\n'))
        hist[(stream, state, (o.tagged[1].decode() if o.tagged else 'closed' if o.closed else 'pending'))] += 1
        ctx.count(('server', state, data), nontrivial=bool(o.tagged and o.tagged[1] != b'BAD') or o.conts > 0)
        if o.hang or o.stalled:
            _hangs[0] += 1
        good = monitor(ctx, 'line', state, data, o, history=list(pool.history))
        if o.stalled or o.other_ok is False:
            pool.dead = True        # go on with a fresh environment
        if good and o.units and not o.truncated and not o.hang and not gray:
            terms.append(enc_server_case(state, o.units, o))
            keep.append((state, data, o))
        if not D.keeps_state(data, o):
            pool.drop(state)


async def bad_limit_monitor(ctx) -> None:
    """Consecutive BADs: the 5th is answered with BYE and the connection closes."""
    from ..pymap_env import DictEnv
    env = await DictEnv().start()
    for state in D.STATES:
        conn = D.keep(await (env.connect() if state == 'na' else env.login()))
        if state == 'sel':
            await conn.send(b's SELECT INBOX\r\n')
        for k in range(1, 7):
            data = b'b%d BOGUS\r\n' % k
            o = await D.feed(conn, data)
            monitor(ctx, 'bad_limit', state, data, o)
            want_close = k >= 5
            ctx.count(('bad_limit', state, k))
            if k <= 5 and (o.closed != want_close or o.bye != want_close or o.tagged is None
                           or o.tagged[1] != b'BAD'):
                ctx.failure('bye_before_close', f'bad-command limit: reply {k} in state {state}: {o.out!r} closed={o.closed}',
                            {'kind': 'bad_limit', 'state': state, 'k': k}, {'kind': 'bad_limit'})
            if o.closed:
                break


# a command answered NO because a mailbox lookup fails, then one that changes
# the mailbox set, on the same and on a second connection of the account
SEQ_FAILING = [(b'auth', b'q1 STATUS nope (MESSAGES)\r\n'), (b'auth', b'q1 SELECT nope\r\n'),
               (b'auth', b'q1 EXAMINE nope\r\n'), (b'auth', b'q1 CREATE Sent\r\n'),
               (b'auth', b'q1 DELETE nope\r\n'), (b'auth', b'q1 RENAME nope other\r\n'),
               (b'auth', b'q1 APPEND nope {1+}\r\nx\r\n'), (b'sel', b'q1 COPY 1 nope\r\n'),
               (b'sel', b'q1 MOVE 1 nope\r\n'), (b'auth', b'q1 SUBSCRIBE nope\r\n'),
               (b'auth', b'q1 LIST "" nope\r\n'), (b'sel', b'q1 FETCH 99 FLAGS\r\n')]
SEQ_MUTATING = [b'q2 CREATE fresh\r\n', b'q2 DELETE Sent\r\n', b'q2 RENAME Sent Sent2\r\n',
                b'q2 SUBSCRIBE INBOX\r\n', b'q2 UNSUBSCRIBE INBOX\r\n', b'q2 APPEND INBOX {1+}\r\nx\r\n',
                b'q2 STATUS INBOX (MESSAGES)\r\n']


async def sequence_monitor(ctx, quick: bool) -> None:
    from ..pymap_env import DictEnv
    k = 0
    for fstate, failing in SEQ_FAILING:
        muts = SEQ_MUTATING if not quick else [SEQ_MUTATING[k % len(SEQ_MUTATING)],
                                               SEQ_MUTATING[(k + 3) % len(SEQ_MUTATING)]]
        k += 1
        for mut in muts:
            if too_many_hangs():
                return
            env = await DictEnv().start()
            state = fstate.decode()
            a = D.keep(await env.login())
            b = D.keep(await env.login())
            history = [(state, b'<login>')]
            if state == 'sel':
                await a.send(b's SELECT INBOX\r\n')
                history.append((state, b's SELECT INBOX\r\n'))
            for conn, cstate, data in ((a, state, failing), (a, state, mut), (b, 'other', b'q3 CREATE fromB\r\n'),
                                       (b, 'other', b'q4 LIST "" *\r\n')):
                history.append((cstate, data))
                o = await D.feed(conn, data)
                ctx.count(('sequence', failing, mut, data))
                if o.hang or o.stalled:
                    _hangs[0] += 1
                if not monitor(ctx, 'sequence', cstate, data, o, history=list(history)):
                    break


async def eof_monitor(ctx) -> None:
    """The client disappears inside a continuation: the connection just ends —
    no [SERVERBUG], no escaped exception."""
    from ..pymap_env import DictEnv
    env = await DictEnv().start()
    for state, first, more in (('na', b'e1 AUTHENTICATE PLAIN\r\n', b''), ('na', b'e2 AUTHENTICATE LOGIN\r\n', b'dGVzdHVzZXI=\r\n'),
                               ('sel', b'e3 IDLE\r\n', b''), ('sel', b'e4 IDLE\r\n', b'DON'),
                               ('auth', b'e5 APPEND INBOX {10}\r\n', b'abc'), ('na', b'e6 LOGIN {5}\r\n', b''),
                               ('auth', b'e7 APPEND INBOX {10+}\r\nabc', b''), ('na', b'e8 NOO', b'')):
        conn = D.keep(await (env.connect() if state == 'na' else env.login()))
        if state == 'sel':
            await conn.send(b's SELECT INBOX\r\n')
        out = b''
        data = first
        if first.endswith(b'\n'):
            chunk, stalled = await D.send_step(conn, first)
            out += chunk
            if more.endswith(b'\n'):
                chunk, stalled = await D.send_step(conn, more)
                out += chunk
                more = b''
        else:
            more = first + more
        if more:
            conn.feed_nowait(more)
        out += await conn.send_eof()
        for _ in range(3):
            await asyncio.sleep(0)
        ctx.count(('eof', first, more))
        exc = type(conn.exc).__name__ if conn.exc else None
        if b'[SERVERBUG]' in out or exc or not conn.closed:
            ctx.failure('no_internal_error', f'end of input after {data!r}: {out[-120:]!r} exc={exc} closed={conn.closed}',
                        {'kind': 'eof', 'state': state, 'data': (first + more).hex()}, {'kind': 'eof_in_continuation', 'exc': exc})


def section_server(ctx) -> None:
    rng = ctx.rng
    g = Gen(rng)
    cases: list[tuple[str, str, bytes]] = []
    n = ctx.scale(800, 4500)
    for stream, share in (('grammar', 0.5), ('mutated', 0.4), ('raw', 0.1)):
        for _ in range(int(n * share)):
            state, data = pick_case(g, rng, stream)
            cases.append((stream, state, data))
    for depth in ([3000, 330] if ctx.quick else [3000, 100, 330, 600, 1000]):
        for ln in g.deep_lines(depth):
            cases.append(('deep', 'sel', ln))
    for ln in BACKTRACK_LINES:
        cases.append(('backtrack', 'sel', ln))
        cases.append(('backtrack', 'auth', ln))
    # literal data that ends like a literal+ marker (readline must not glue it)
    for payload in (b'x{9+}', b'{3+}', b'abc {5+}', b'{1+}\r\n{2+}'):
        cases.append(('glue', 'auth', b'g1 APPEND INBOX {%d+}\r\n' % len(payload) + payload + b'\r\n'))
        cases.append(('glue', 'na', b'g2 LOGIN {%d+}\r\n' % len(payload) + payload + b' {1+}\r\nx\r\n'))
        cases.append(('glue', 'sel', b'g3 SEARCH SUBJECT {%d}\r\n' % len(payload) + payload + b'\r\n'))
    # byte sweep of a few base lines against the live server
    for base, state in ((b'a LOGIN testuser testpass\r\n', 'na'), (b'a FETCH 1 BODY[1]<0.5>\r\n', 'sel'),
                        (b'a SELECT &AOk-\r\n', 'auth')):
        vals = range(0, 256, 6) if not ctx.quick else [0x00, 0x0d, 0x20, 0x22, 0x26, 0x28, 0x5b, 0x7b, 0xff]
        for k in range(len(base)):
            for c in vals:
                if c != base[k]:
                    cases.append(('sweep', state, base[:k] + bytes([c]) + base[k + 1:]))
    terms, keep = [], []
    hist = collections.Counter()
    t0 = time.time()
    D.run_all(run_server_stream(ctx, cases, terms, keep, hist))
    D.run_all(bad_limit_monitor(ctx), timeout=300)
    D.run_all(sequence_monitor(ctx, ctx.quick), timeout=600)
    D.run_all(eof_monitor(ctx), timeout=300)
    ctx.extra['server_outcomes'] = {'/'.join(k): v for k, v in sorted(hist.items())}
    ctx.extra['server_wall_s'] = round(time.time() - t0, 1)
    if keep:
        ctx.sample({'server_case': [keep[-1][0], keep[-1][1][:120].decode('latin-1'), keep[-1][2].cls().__repr__()]})
    # every continuation request is justified by a synchronizing literal of the data sent
    for state, data, o in keep:
        if True:
            syncs = sum(1 for u in o.units if D.sync_literal_length(u) is not None)
            lit_conts = sum(1 for t in o.cont_texts if t == b'Literal string')
            if lit_conts > syncs:
                ctx.failure('continuation_justified',
                            f'{lit_conts} literal continuation requests for {syncs} synchronizing literals: {data[:120]!r}',
                            {'kind': 'line', 'state': state, 'data': data.hex()}, {'kind': 'extra_continuation'})
    def evaluate():
        bad = ctx.run_cases('server_response', HEADER, 'server_case', terms, 'chk_server', shard=400)
        for i in bad[:8]:
            state, data, o = keep[i]
            ctx.disagreement('server_response', {'state': state, 'data': data.hex(),
                                                 'data_text': data[:200].decode('latin-1'),
                                                 'impl': o.as_dict(),
                                                 'model': coq_predict(ctx, state, o.units)})
    later(evaluate)


def coq_predict(ctx, state: str, units: list[bytes]) -> str:
    from .. import coqrun
    table = O.build_table(units)
    term = (f'predict {O.enc_table(table)} {enc_optN(MAX_APPEND)} (state_of {T.N(STATE_CODE[state])}) 0 '
            f'{T.bytes_(units[0])} {T.lst(T.bytes_(c) for c in units[1:])}')
    return coqrun.eval_term(ctx.prop, 'diag', HEADER, term)[-400:]


# ---------------------------------------------------------------- stored content
FETCH_ATTS = [b'ENVELOPE', b'FLAGS', b'INTERNALDATE', b'UID', b'RFC822.SIZE', b'BODYSTRUCTURE', b'BODY',
              b'EMAILID', b'THREADID', b'RFC822', b'RFC822.HEADER', b'RFC822.TEXT',
              b'BODY[]', b'BODY[HEADER]', b'BODY[TEXT]', b'BODY[1]', b'BODY[1.MIME]', b'BODY[1.1]', b'BODY[2]',
              b'BODY[1.HEADER]', b'BODY[1.TEXT]', b'BODY[HEADER.FIELDS (Subject Date)]',
              b'BODY[HEADER.FIELDS.NOT (Subject)]', b'BODY.PEEK[]<0.10>', b'BODY[]<5.1000>',
              b'BODY[]<100000.1>', b'BODY[1.2.3.4]', b'BODY[1.HEADER.FIELDS (a)]',
              b'BINARY[]', b'BINARY[1]', b'BINARY.PEEK[1]<0.5>', b'BINARY.SIZE[]', b'BINARY.SIZE[1]']
SEARCH_KEYS = ([b'ALL', b'ANSWERED', b'DELETED', b'FLAGGED', b'NEW', b'OLD', b'RECENT', b'SEEN', b'UNANSWERED',
                b'UNDELETED', b'UNFLAGGED', b'UNSEEN', b'DRAFT', b'UNDRAFT']
               + [k + b' x' for k in (b'BCC', b'BODY', b'CC', b'FROM', b'SUBJECT', b'TEXT', b'TO')]
               + [k + b' 1-Jan-2020' for k in (b'BEFORE', b'ON', b'SINCE', b'SENTBEFORE', b'SENTON', b'SENTSINCE')]
               + [b'HEADER Subject x', b'HEADER Date ""', b'HEADER X ""', b'LARGER 5', b'SMALLER 5', b'KEYWORD kw',
                  b'UNKEYWORD kw', b'UID 1:*', b'1:*', b'NOT ALL', b'OR ALL SEEN', b'(ALL SEEN)', b'EMAILID M1',
                  b'THREADID T1', b'CHARSET utf-8 SUBJECT \xc3\xa9', b'TEXT ""', b'BODY ""', b'SUBJECT ""',
                  b'FROM "<"', b'SENTON 1-Jan-0001', b'SENTBEFORE 31-Dec-9999'])


def stored_kind(att: bytes, o: D.Outcome) -> str | None:
    """Class of a known stored-content failure (matched against known_findings)."""
    if att.startswith(b'BINARY') and o.site.startswith('mime/cte.py'):
        return 'binary_cte'
    return None


async def run_stored(ctx, messages: list[bytes], hist, maildir: bool = False) -> None:
    from ..pymap_env import DictEnv, MaildirEnv
    for m in messages:
        env = await (MaildirEnv('++').start() if maildir else DictEnv().start())
        try:
            await _stored_one(ctx, env, m, hist, maildir)
        finally:
            env.close()


async def _stored_one(ctx, env, m: bytes, hist, maildir: bool) -> None:
    if True:
        conn = D.keep(await env.login())
        other = D.keep(await env.login())
        data = b'a APPEND INBOX {%d+}\r\n' % len(m) + m + b'\r\n'
        o = await D.feed(conn, data, other, probe_other=True)
        ctx.count(('stored-append', m))
        hist['append ' + (o.tagged[1].decode() if o.tagged else 'none')] += 1
        if not monitor(ctx, 'stored_append' + ('_maildir' if maildir else ''), 'auth', data, o) \
                or o.tagged is None or o.tagged[1] != b'OK':
            return
        if maildir:
            # the stored bytes come back unchanged
            await conn.send(b's SELECT INBOX\r\n')
            r = await conn.send(b'v FETCH * (BODY.PEEK[])\r\n')
            if m not in r:
                ctx.failure('no_internal_error', f'maildir: APPENDed bytes are not fetched back verbatim: {m[:80]!r}',
                            {'kind': 'stored_maildir', 'message': m.hex()}, {'kind': 'maildir_not_verbatim'})
        # a message nested in a message/rfc822 part goes through the same code
        for atts, mk in ((FETCH_ATTS, lambda a: b'f FETCH * (' + a + b')\r\n'),
                         (SEARCH_KEYS, lambda a: b'f SEARCH ' + a + b'\r\n')):
            for a in atts:
                if conn.closed:
                    conn = D.keep(await env.login())
                r = await conn.send(b's SELECT INBOX\r\n')
                if b's OK' not in r:
                    break
                line = mk(a)
                o = await D.feed(conn, line, other)
                ctx.count(('stored', m, a))
                hist[('fetch ' if atts is FETCH_ATTS else 'search ') + (o.tagged[1].decode() if o.tagged else 'none')] += 1
                monitor(ctx, 'stored', 'sel', line, o, known_kind=stored_kind(a, o))
                ctx.extra.setdefault('stored_replay_note', 'replay: APPEND the message then the command')
                if not o.tagged:
                    ctx.extra.setdefault('stored_failures', []).append(
                        {'message': m[:120].decode('latin-1'), 'command': line.decode('latin-1'), 'exc': o.exc, 'site': o.site})


def section_stored(ctx) -> None:
    g = Gen(ctx.rng)
    msgs = list(ADVERSARIAL_MESSAGES)
    # the same content nested as message/rfc822 and as a multipart part
    for m in ADVERSARIAL_MESSAGES[::4]:
        msgs.append(b'Content-Type: message/rfc822\r\n\r\n' + m)
        msgs.append(b'Content-Type: multipart/mixed; boundary=q\r\n\r\n--q\r\n' + m + b'\r\n--q--\r\n')
    for _ in range(ctx.scale(10, 150)):
        msgs.append(g.message())
    if ctx.quick:
        # the witnesses of the findings are always part of the quick subset
        must = [m for m in ADVERSARIAL_MESSAGES
                if any(k in m for k in (b'Encoding: bogus', b'not base64', b'Date: not a date', b'From: <\r',
                                        b'Sender: a@b, c@d', b'Content-Type :', b're: re: '))]
        msgs = must + msgs[::5] + msgs[1::11]
    hist = collections.Counter()
    D.run_all(run_stored(ctx, msgs, hist))
    # the maildir backend, low volume: 8-bit and multipart content through APPEND, FETCH, SEARCH
    md = [m for m in ADVERSARIAL_MESSAGES if any(b >= 0x80 for b in m) or b'multipart' in m]
    md += [b'Content-Type: multipart/alternative; boundary="q q"\r\n\r\n. \xff\xfe -\r\ncaf\xc3\xa9 >From x\r\n--q q--\r\n',
           b'Subject: x\r\n\r\nFrom here\r\n>From there\r\nbody \xe9\r\n']
    hist_md = collections.Counter()
    D.run_all(run_stored(ctx, md[::3] if ctx.quick else md, hist_md, maildir=True))
    ctx.extra['stored_outcomes_maildir'] = dict(hist_md)
    ctx.extra['stored_outcomes'] = dict(hist)
    ctx.extra['stored_messages'] = len(msgs)


# ------------------------------------------------------------------------ sieve
SKINDS = ['NoOpCommand', 'CapabilityCommand', 'StartTLSCommand', 'AuthenticateCommand',
          'UnauthenticateCommand', 'LogoutCommand', 'HaveSpaceCommand', 'PutScriptCommand',
          'ListScriptsCommand', 'SetActiveCommand', 'GetScriptCommand', 'DeleteScriptCommand',
          'RenameScriptCommand', 'CheckScriptCommand']


def impl_sieve_parse(line: bytes):
    from pymap.parsing import Params
    from pymap.parsing.exceptions import NotParseable
    from pymap.sieve.manage.command import Command
    try:
        with D.Watch():
            cmd, _ = Command.parse(memoryview(line), Params(allow_continuations=False))
    except NotParseable:
        return None
    except (ValueError, RecursionError):
        return None          # answered "Bad command" by ManageSieveConnection.run since the fix
    return SKINDS.index(type(cmd).__name__)


async def run_sieve(ctx, lines: list[bytes], hist) -> None:
    from ..pymap_env import DictEnv
    env = await DictEnv().start()
    for authed in (False, True):
        conn = None
        for data in lines:
            if conn is None or conn.closed:
                conn = D.keep(await env.connect(sieve=True))
                if authed:
                    r = await conn.send(b'AUTHENTICATE "PLAIN" "AHRlc3R1c2VyAHRlc3RwYXNz"\r\n')
                    assert r.startswith(b'OK'), r
            other = D.keep(await env.login())
            end = D.next_chunk(data, 0, 0)
            if end is None:
                continue
            before = len(conn.all_out)
            stalled = False
            try:
                with D.Watch():
                    out, stalled = await D.send_step(conn, data[:end])
                hang = False
            except D.Hang:
                out, hang = b'', True
            for _ in range(3):
                await asyncio.sleep(0)
            ctx.count(('sieve', authed, data))
            exc = type(conn.exc).__name__ if conn.exc else None
            last = D.split_responses(out)[-1:] or [b'']
            answered = last[0].startswith((b'OK', b'NO', b'BYE')) or (out != b'' and not conn.closed and b'AUTHENTICATE' in data.upper())
            hist[('auth ' if authed else 'anon ') + (last[0][:3].decode('latin-1') or 'none')] += 1
            replay = {'kind': 'sieve', 'authed': authed, 'data': data.hex()}
            if hang or isinstance(conn.exc, D.Hang):
                ctx.failure('no_hang', f'ManageSieve: no return within the step budget on {data[:100]!r}', replay, {'kind': 'hang'})
            elif stalled:
                ctx.failure('answered', f'ManageSieve: complete line {data[:100]!r}, no answer within the step budget',
                            replay, {'kind': 'stalled'})
                conn = None
                continue
            elif exc:
                ctx.failure('no_internal_error', f'ManageSieve: {exc} escaped on {data[:100]!r}', replay,
                            {'kind': 'sieve_escape', 'exc': exc})
            elif not answered:
                ctx.failure('tagged_completion', f'ManageSieve: {data[:100]!r} -> {out[-100:]!r} closed={conn.closed}',
                            replay, {'kind': 'sieve_unanswered'})
            elif conn.closed and not last[0].startswith(b'BYE'):
                ctx.failure('bye_before_close', f'ManageSieve: closed without BYE after {data[:100]!r}', replay,
                            {'kind': 'sieve_close_without_bye'})
            if not await D.probe(other):
                ctx.failure('others_served', f'IMAP connection not served after ManageSieve {data[:100]!r}', replay,
                            {'kind': 'others_blocked'})
            if b'AUTHENTICATE' in data.upper() or b'STARTTLS' in data.upper() or b'UNAUTH' in data.upper():
                conn = None


def section_sieve(ctx) -> None:
    rng = ctx.rng
    g = Gen(rng)
    lines = list(SIEVE_LINES)
    for _ in range(ctx.scale(100, 1500)):
        lines.append(g.mutate(rng.choice(SIEVE_LINES), rng.choice([1, 1, 2])))
    lines = [ln for ln in lines if D.next_chunk(ln, 0, 0) is not None]
    # parser correspondence
    terms, keep = [], []
    for ln in lines:
        end = D.next_chunk(ln, 0, 0)
        line = ln[:end]
        e = impl_sieve_parse(line)
        _small, vals = O.token_values([line])
        bad_utf8 = []
        for v in vals:
            try:
                v.decode('utf-8')
            except UnicodeError:
                bad_utf8.append(v)
        terms.append(T.pair(T.lst(T.bytes_(v) for v in sorted(bad_utf8)), T.bytes_(line),
                            'None' if e is None else f'(Some {T.N(e)})'))
        keep.append((line, e))
        ctx.count(('sieve-parse', line), nontrivial=e is not None)
    def evaluate():
        for i in ctx.run_cases('sieve_parse', HEADER, 'list bytes * bytes * option N', terms, 'chk_sieve', shard=400)[:5]:
            ctx.disagreement('sieve_parse', {'line': keep[i][0].hex(), 'line_text': keep[i][0][:200].decode('latin-1'),
                                             'impl': keep[i][1]})
    later(evaluate)
    hist = collections.Counter()
    D.run_all(run_sieve(ctx, lines if not ctx.quick else lines[:120], hist))
    ctx.extra['sieve_outcomes'] = dict(hist)


# ---------------------------------------------------------------------- framing
class _StreamReader:
    """A finished client stream as asyncio.StreamReader would present it."""

    def __init__(self, data: bytes) -> None:
        self.buf = bytearray(data)

    async def readline(self) -> bytes:
        i = self.buf.find(b'\n')
        end = len(self.buf) if i < 0 else i + 1
        ret = bytes(self.buf[:end])
        del self.buf[:end]
        return ret

    async def readexactly(self, n: int) -> bytes:
        if len(self.buf) < n:
            partial = bytes(self.buf)
            self.buf.clear()
            raise asyncio.IncompleteReadError(partial, n)
        ret = bytes(self.buf[:n])
        del self.buf[:n]
        return ret

    def write(self, data) -> None:
        pass

    async def drain(self) -> None:
        pass

    def close(self) -> None:
        pass

    def get_extra_info(self, name, default=None):
        return default


async def impl_frames(cases):
    """IMAPConnection.read_continuation / readline and ManageSieve _read_data
    on finished streams -> (unit, rest) or None (EOFError)."""
    from proxyprotocol.sock import SocketInfoLocal
    from pymap.imap import IMAPConnection
    from pymap.sieve.manage import ManageSieveConnection
    from ..pymap_env import DictEnv
    env = await DictEnv().start()
    out = []
    for kind, need, stream in cases:
        rd = _StreamReader(stream)
        try:
            if kind == 'imap':
                conn = IMAPConnection(env.config.commands, env.config, rd, rd, SocketInfoLocal(rd))
                unit = bytes(await conn.read_continuation(need)) if need else bytes(await conn.readline())
            else:
                conn = ManageSieveConnection(env.backend.login, env.config, rd, rd, SocketInfoLocal(rd))
                unit = bytes(await conn._read_data())
            out.append((unit, bytes(rd.buf)))
        except EOFError:
            out.append(None)
        except D.Hang:
            out.append('hang')
        except BaseException as e:  # noqa
            out.append('exc:' + type(e).__name__)
    return out


def section_frame(ctx) -> None:
    rng = ctx.rng
    g = Gen(rng)
    streams: list[tuple[str, int, bytes]] = []
    pieces = [b'a NOOP\r\n', b'x {3+}\r\nabc y\r\n', b'{2+}\nzz\n', b'p {5+}\r\nx{9+}\r\n', b'q {0+}\r\n\r\n',
              b'{1+}\r\n{2+}\r\n', b'r {3}\r\n', b'abc rest\r\n', b't {2+}\r\r\nab\r\n',
              b'{+}\r\n', b'1+}\r\n', b'u {12{3+}\r\nabc\r\n', b'v {9+}\r\nshort', b'no newline', b'\n', b'w {1+} \r\n']
    big = b's {' + b'1' * 4301 + b'+}\r\n'
    for tail in (b'', b'abc\r\n', b'x {1+}\r\ny\r\n'):
        streams.append(('imap', 0, big + tail))
        streams.append(('sieve', 0, big + tail))
    for _ in range(ctx.scale(200, 3000)):
        data = b''.join(rng.choice(pieces) for _ in range(rng.randint(1, 4)))
        if rng.random() < 0.4:
            data = g.mutate(data, 1)
        kind = rng.choice(['imap', 'imap', 'sieve'])
        need = rng.choice([0, 0, 0, 1, 3, 5, 40]) if kind == 'imap' else 0
        streams.append((kind, need, data))
    for _ in range(ctx.scale(60, 1500)):
        streams.append(('imap', 0, g.grammar_line() + rng.choice(pieces)))
    with D.Watch(cpu=20, wall=120):
        results = D.run_all(impl_frames(streams), timeout=300)
    terms, keep = [], []
    for (kind, need, data), r in zip(streams, results):
        ctx.count(('frame', kind, need, data), nontrivial=r is not None)
        if isinstance(r, str):
            ctx.failure('no_internal_error' if r != 'hang' else 'no_hang', f'framing of {data[:100]!r}: {r}',
                        {'kind': 'frame', 'reader': kind, 'need': need, 'data': data.hex()}, {'kind': 'frame_escape'})
            continue
        exp = 'None' if r is None else f'(Some {T.pair(T.bytes_(r[0]), T.bytes_(r[1]))})'
        terms.append(T.pair(T.N(need), T.bytes_(data), exp))
        keep.append((kind, need, data, r))

    def evaluate():
        for i in ctx.run_cases('framing', HEADER, 'N * bytes * option (bytes * bytes)', terms, 'chk_frame', shard=600)[:5]:
            kind, need, data, r = keep[i]
            ctx.disagreement('framing', {'reader': kind, 'need': need, 'data': data.hex(),
                                         'data_text': data[:200].decode('latin-1'), 'impl': repr(r)[:300]})
    later(evaluate)


# ------------------------------------------------------------- several sessions
# commands of the main session (it has selected the mailbox Work, 4 messages)
MAIN_CMDS = [b'NOOP', b'CHECK', b'FETCH 1:* (FLAGS)', b'FETCH 2 (UID BODY.PEEK[HEADER])', b'UID FETCH 1:* (FLAGS)',
             b'STORE 1 +FLAGS (\\Seen)', b'STORE 1:* -FLAGS.SILENT (\\Flagged)', b'UID STORE 1:* +FLAGS (kw)',
             b'SEARCH ALL', b'SEARCH 1:* UNSEEN', b'UID SEARCH ALL', b'EXPUNGE', b'UID EXPUNGE 1:*',
             b'COPY 1 Sent', b'UID COPY 1:* Sent', b'MOVE 1 Sent', b'STATUS Work (MESSAGES RECENT)',
             b'APPEND Work {1+}\r\nx', b'IDLE\r\nDONE', b'CLOSE', b'SELECT Work', b'EXAMINE Work', b'LIST "" *']
# what a second session does to the same mailbox in between
MUTATIONS = {
    'none': [],
    'expunge_one': [b'STORE 2 +FLAGS.SILENT (\\Deleted)', b'EXPUNGE'],
    'expunge_first': [b'STORE 1 +FLAGS.SILENT (\\Deleted)', b'EXPUNGE'],
    'expunge_all': [b'STORE 1:* +FLAGS.SILENT (\\Deleted)', b'EXPUNGE'],
    'store': [b'STORE 1:* +FLAGS (\\Flagged)'],
    'append': [b'APPEND Work (\\Seen) {12+}\r\nSubject: n\r\n\r\n'],
    'delete': [b'CLOSE', b'DELETE Work'],
    'rename': [b'CLOSE', b'RENAME Work Work2'],
    'delete_recreate': [b'CLOSE', b'DELETE Work', b'CREATE Work'],
}
DIRECT_AFTER = [b'NOOP', b'CHECK', b'FETCH 1:* (FLAGS)', b'EXPUNGE', b'CLOSE', b'IDLE\r\nDONE', b'SEARCH ALL', b'STORE 1 +FLAGS (x)']


def multi_scenarios(rng, quick: bool) -> list[list[tuple[str, bytes]]]:
    """Each scenario: steps ('main', command) / ('other', mutation name)."""
    out = []
    held_back = [c for c in MAIN_CMDS if c.split()[0] in (b'FETCH', b'STORE', b'SEARCH')]
    # a change made by the other session, a command that holds EXPUNGE back,
    # then directly a command that delivers it
    for m0 in (['expunge_one', 'expunge_first', 'expunge_all', 'append', 'store'] if quick else list(MUTATIONS)):
        for c1 in (held_back + [b'NOOP', b'UID FETCH 1:* (FLAGS)'] if quick else MAIN_CMDS):
            for c2 in DIRECT_AFTER:
                out.append([('other', m0.encode()), ('main', c1), ('main', c2)])
    muts = list(MUTATIONS)
    for _ in range(120 if quick else 1500):
        steps = []
        for _ in range(rng.choice([2, 3, 4])):
            steps.append(('other', rng.choice(muts).encode()))
            steps.append(('main', rng.choice(MAIN_CMDS)))
        out.append(steps)
    return out


async def run_multi(ctx, scenarios, maildir: bool, hist) -> None:
    from ..pymap_env import DictEnv, MaildirEnv
    for steps in scenarios:
        if too_many_hangs():
            return
        env = await (MaildirEnv('++').start() if maildir else DictEnv().start())
        try:
            main = D.keep(await env.login())
            oth = D.keep(await env.login())
            history = [('main', b'<login>'), ('other', b'<login>')]
            n = [0]

            async def do(conn, who, cmd, check=True):
                n[0] += 1
                data = b'%s%d ' % (who[:1].encode(), n[0]) + cmd + b'\r\n'
                history.append((who, data))
                o = await D.feed(conn, data)
                ctx.count(('multi', maildir, who, cmd, len(history)))
                hist[(who, (o.tagged[1].decode() if o.tagged else 'bye' if o.bye else 'none'))] += 1
                if o.hang or o.stalled:
                    _hangs[0] += 1
                ok = monitor(ctx, 'multi', who, data, o, history=list(history)) if check else True
                return ok, o
            setup = [b'CREATE Work', b'CREATE Sent'] if maildir else [b'CREATE Work']
            good = True
            for cmd in setup:
                await do(main, 'main', cmd, check=False)
            for k in range(4):
                await do(main, 'main', b'APPEND Work {23+}\r\nSubject: m%d\r\n\r\nbody %d\r\n' % (k, k), check=False)
            for conn, who in ((main, 'main'), (oth, 'other')):
                g1, _ = await do(conn, who, b'SELECT Work')
                good = good and g1
            for who, what in steps:
                if not good:
                    break
                if who == 'other':
                    for cmd in MUTATIONS[what.decode()]:
                        if oth.closed:
                            break
                        g1, o = await do(oth, 'other', cmd)
                        good = good and g1
                    if what in (b'delete', b'rename', b'delete_recreate') and not oth.closed:
                        await do(oth, 'other', b'SELECT Work', check=False)
                else:
                    if main.closed:
                        break
                    g1, o = await do(main, 'main', what)
                    good = good and g1
        finally:
            env.close()


def section_multi(ctx) -> None:
    """Two sessions on one mailbox: the second changes it between the
    commands of the first; every command of both is answered."""
    scen = multi_scenarios(ctx.rng, ctx.quick)
    hist = collections.Counter()
    D.run_all(run_multi(ctx, scen, False, hist), timeout=1500)
    hist_md = collections.Counter()
    D.run_all(run_multi(ctx, scen[::9] if ctx.quick else scen[::4], True, hist_md), timeout=1500)
    ctx.extra['multi_scenarios'] = len(scen)
    ctx.extra['multi_outcomes'] = {'/'.join(k): v for k, v in sorted(hist.items())}
    ctx.extra['multi_outcomes_maildir'] = {'/'.join(k): v for k, v in sorted(hist_md.items())}


# --------------------------------------------------------------- mailbox names
# modified UTF-7 payloads at the edges: unpaired high / low surrogate, reversed
# pair, a proper pair, U+FFFE, U+FFFF, NUL, controls, '&' forms, non-zero
# padding bits (refused), plain 8-bit
EDGE_NAMES = [b'&2D0-', b'&3AA-', b'&3ADYPQ-', b'&2D3eAA-', b'a&2D0-b', b'&2D0-/x', b'&,,4-', b'&,,8-', b'&AAA-',
              b'x&AAA-y', b'&AAE-', b'&AH8-', b'&AOk-', b'&AOkA6Q-', b'&-', b'a&-b', b'&AOl-', b'&2D0', b'&2D3eAA',
              b'&AOkA-', b'\xe9', b'&IKw-&IKw-', b'&2D3eANg93gE-', b'&2D3YPQ-', b'INBOX/&2D0-', b'&2D0-*', b'&ZeVnLIqe-']
NAME_CREATORS = [b'CREATE %s', b'SUBSCRIBE %s', b'RENAME Sent %s', b'COPY 1 %s', b'APPEND %s {1+}\r\nx']
NAME_USERS = [b'LIST "" *', b'LSUB "" *', b'STATUS %s (MESSAGES UNSEEN)', b'LIST "" %s', b'SELECT %s', b'EXAMINE %s',
              b'LIST "" "%%"', b'UNSUBSCRIBE %s', b'DELETE %s']


async def run_names(ctx, maildir: bool, quick: bool, hist) -> None:
    from ..pymap_env import DictEnv, MaildirEnv
    for name in EDGE_NAMES:
        q = b'"' + name + b'"'
        for creator in (NAME_CREATORS[:3] if quick and maildir else NAME_CREATORS):
            if too_many_hangs():
                return
            env = await (MaildirEnv('++').start() if maildir else DictEnv().start())
            try:
                a = D.keep(await env.login())
                b = D.keep(await env.login())
                history = [('main', b'<login>'), ('other', b'<login>')]
                n = [0]

                async def do(conn, who, cmd):
                    n[0] += 1
                    data = b'%s%d ' % (who[:1].encode(), n[0]) + cmd + b'\r\n'
                    history.append((who, data))
                    o = await D.feed(conn, data)
                    ctx.count(('names', maildir, name, creator, cmd))
                    hist[(who, (o.tagged[1].decode() if o.tagged else 'bye' if o.bye else 'none'))] += 1
                    if o.hang or o.stalled:
                        _hangs[0] += 1
                    return monitor(ctx, 'names', who, data, o, history=list(history))
                if maildir:
                    await do(a, 'main', b'CREATE Sent')
                    await do(a, 'main', b'APPEND INBOX {1+}\r\nx')
                await do(a, 'main', b'SELECT INBOX')
                good = await do(a, 'main', creator % q if b'%s' in creator else creator)
                for user in NAME_USERS:
                    if not good:
                        break
                    cmd = user % q if b'%s' in user else user
                    for conn, who in ((a, 'main'), (b, 'other')):
                        if conn.closed:
                            good = False
                            break
                        good = await do(conn, who, cmd) and good
            finally:
                env.close()


def section_names(ctx) -> None:
    hist = collections.Counter()
    D.run_all(run_names(ctx, False, ctx.quick, hist), timeout=1500)
    hist_md = collections.Counter()
    D.run_all(run_names(ctx, True, ctx.quick, hist_md), timeout=1500)
    ctx.extra['names_outcomes'] = {'/'.join(k): v for k, v in sorted(hist.items())}
    ctx.extra['names_outcomes_maildir'] = {'/'.join(k): v for k, v in sorted(hist_md.items())}


SECTIONS = [section_utf7, section_parse, section_frame, section_server, section_multi, section_names,
            section_stored, section_sieve]


def run(ctx) -> None:
    import faulthandler, signal as _signal, sys as _sys
    faulthandler.register(_signal.SIGUSR1, file=_sys.stderr)      # kill -USR1 <pid> shows where the check is
    import logging
    logging.disable(logging.CRITICAL)       # pymap logs the exceptions it answers
    D.install_watchdog()
    ctx.rule = ('inputs are drawn from one PRNG (seed): grammar-derived command lines for every built-in '
                'command with valid and invalid arguments (80% chosen among the commands meaningful in the '
                'connection state), mutated lines (1-3 byte/token edits), raw lines, byte sweeps of base lines, '
                'deep nestings; adversarial stored messages x every FETCH attribute and SEARCH key; ManageSieve '
                'lines; non-trivial = parsed to a command / answered OK or NO / continuation requested; '
                'worker pool: maildir backend with --concurrency 1, 2 (thorough 3) x k >= N connections waiting for '
                'their client (7 kinds) x a prober connection with 3-5 commands, own PRNG stream')
    ctx.assumptions += [
        'CPython (re, int, codecs, datetime.strptime, email) is the semantics of the implementation side and the '
        'source of the oracle answers given to the model (strptime, codec lookup and decode)',
        'the recursion limit is modelled as a depth budget; inputs nested between 60 and 2500 levels are not generated',
        'command bodies are abstracted by their outcome class (exec_ok); that no body raises outside the contract '
        'is checked by the monitors only (dict backend)',
        'super-linear CPU time of the regex engine cannot be exhibited by the model; it is bounded only by the '
        f'watchdog ({D.CPU_BUDGET} s CPU per step)',
        f'worker pool: real-time bounds ({PL.BOUND:.0f} s per answer, {PL.POLL_BOUND:.0f} s per idle poll call, '
        f'{PL.CALL_BOUND:.0f} s per other backend call); ThreadPoolExecutor is FIFO and work conserving (validated by '
        'the worker_pool correspondence on every observed call); the executor is reached through the private '
        'attribute _executor of the threading subsystem',
    ]
    ctx.check_proofs(['Cmd/Check', 'Cmd/Framing', 'Sync/WorkerPoolCheck'])
    import os
    only = os.environ.get('C06_SECTIONS')      # development aid: run a subset
    # the maildir backend on its thread pool: real time, real threads, in a child
    # process that runs while the sections below drive the in-process servers
    pool_run = PL.start(ctx) if (not only or 'pool' in only.split(',')) else None
    for sec in SECTIONS:
        if only and sec.__name__.replace('section_', '') not in only.split(','):
            continue
        t0 = time.time()
        _hangs[0] = 0
        sec(ctx)
        ctx.extra.setdefault('section_wall_s', {})[sec.__name__] = round(time.time() - t0, 1)
    if pool_run is not None:
        t0 = time.time()
        PL.judge(ctx, pool_run)
        ctx.extra.setdefault('section_wall_s', {})['pool_wait_and_judge'] = round(time.time() - t0, 1)
    t0 = time.time()
    join_all()
    ctx.extra.setdefault('section_wall_s', {})['coq_evaluation_tail'] = round(time.time() - t0, 1)


def replay(ctx, obj) -> int:
    if obj.get('kind') == 'pool':
        return PL.replay(obj)
    D.install_watchdog()
    from ..pymap_env import run, DictEnv

    async def go():
        env = await DictEnv().start()
        state = obj.get('state', 'auth')
        if obj.get('kind') == 'sieve':
            conn = await env.connect(sieve=True)
        elif state == 'na':
            conn = await env.connect()
        else:
            conn = await env.login()
            if state == 'sel':
                await conn.send(b's SELECT INBOX\r\n')
        data = bytes.fromhex(obj.get('data', ''))
        o = await D.feed(conn, data)
        print(state, data)
        print(o.as_dict())
    async def go_sequence():
        env = await DictEnv().start()
        conns = {}
        for st, hexdata, _text in obj['sequence']:
            data = bytes.fromhex(hexdata)
            if data in (b'<connect>', b'<login>'):
                conns[st] = await (env.connect() if st == 'na' else env.login())
                continue
            if st not in conns:
                conns[st] = await (env.connect() if st == 'na' else env.login())
            for unit in ([data] if not data.startswith(b'prN ') else [ln + b'\r\n' for ln in data.split(b'\r\n') if ln]):
                o = await D.feed(conns[st], unit)
                print(st, unit[:120], '->', 'STALLED' if o.stalled else o.out[-120:])
                if o.stalled:
                    return
    if obj.get('sequence'):
        run(go_sequence())
    elif 'data' in obj:
        run(go())
    else:
        print(obj)
    return 0
