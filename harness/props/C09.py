"""C09 — authentication and authorisation are sound.

Model  : Conn/ConnFSM.v (IMAP connection layer, generated command table) composed
         with Conn/Auth.v login_bk (Login.authenticate / authorize / new_session of
         the dict and maildir backends); Conn/SieveAuth.v for the ManageSieve listener.
Proofs : Conn/AuthProofs.v, Conn/SieveAuthProofs.v; statements in Props/C09.v.
(K)    : generated sequences of LOGIN / AUTHENTICATE PLAIN / AUTHENTICATE LOGIN
         attempts (and STARTTLS, CAPABILITY, probes) against the real server: dict
         backend (three TLS/peer configurations, preauth) and maildir backend, IMAP
         and ManageSieve.  After every attempt the identity is observed through a
         per-user marker mailbox (IMAP: LIST) / the OWNER capability (ManageSieve).
         The model runs the same sequence with its own login backend over the same
         user database; the password check is the oracle table computed here with
         pysasl (saslprep + hash) for the (stored, presented) pairs of the case.
(S)    : monitor written against the statement, with the plaintext passwords and
         roles the harness itself provisioned as ground truth.
"""
from __future__ import annotations

import asyncio
import base64
import binascii
import logging
import re
import time

from .. import coqterm as T
from ..conn_common import (Recorder, cache_sasl_entry_points, coq_bytes, has_bye,
                           populate_user, run_exchange, tagged, write_cmd_table)
from .C05 import Interner, _why
from .. import c09_dbhist, c09_lookalike

HEADER = ('From Coq Require Import String.\n'
          'From PV Require Import Base.Prelude Conn.CmdEntry Conn.CmdTable Conn.ConnFSM '
          'Conn.ConnCheck Conn.Auth Conn.SieveAuth Conn.AuthCheck.\nOpen Scope string_scope.\n')

# ground truth provisioned by the harness: name -> (password or None, roles)
USERS = {
    'testuser': ('testpass', ()),
    'bob': ('bobpass', ()),
    'root': ('rootpass', ('admin',)),
    'carol': ('carolpass', ('sudo',)),
    'dis': (None, ()),            # no / disabled password
    # look-alike accounts: distinct users whose names are equal under case
    # folding / Unicode compatibility normalisation (saslprep maps U+FF42 to b)
    'Bob': ('Bobpass', ()),
    '\uff42ob': ('fwpass', ()),
    'ROOT': ('ROOTpass', ()),
    # accounts whose password is the empty string / a single character
    'empty': ('', ()),
    'one': ('x', ()),
}
UIDX = {name: i for i, name in enumerate(USERS)}
UNAME = {i: name for name, i in UIDX.items()}


def mark_of(name: str) -> str:
    return 'mark-%d' % UIDX[name]


# ------------------------------------------------------------- environments
class Env:
    """A server under test + what the harness knows about it."""

    def __init__(self, name, kind, tls, local, limit, preauth=None):
        self.name = name
        self.kind = kind            # 'dict' | 'maildir'
        self.tls = tls
        self.local = local
        self.limit = limit
        self.preauth = preauth      # (authc, secret, authz) or None
        self.env = None
        self.stored: dict[str, str | None] = {}

    async def start(self):
        if self.kind == 'dict':
            await self._start_dict()
        else:
            await self._start_maildir()
        return self

    async def _start_dict(self):
        from pymap.user import Passwords, UserMetadata
        from ..pymap_env import DictEnv
        over = {'bad_command_limit': self.limit}
        if self.preauth:
            from pysasl.creds.plain import PlainCredentials
            a, s, z = self.preauth
            over['preauth_credentials'] = PlainCredentials(a, s, z)
        self.env = env = await DictEnv(demo_data=None, tls=self.tls or None).start(**over)
        login = env.backend.login
        for name, (pw, roles) in USERS.items():
            hashed = await Passwords(env.config).hash_password(pw) if pw is not None else None
            login.users_dict[name] = UserMetadata(env.config, name, password=hashed,
                                                  roles=frozenset(roles))
            self.stored[name] = hashed
            await populate_user(env, name, {'INBOX': (0, False), mark_of(name): (0, False)})
        self.config = env.config
        self.login = login

    async def _start_maildir(self):
        from pymap.backend.maildir import Identity
        from pymap.user import Passwords, UserMetadata
        from ..pymap_env import MaildirEnv
        self.env = env = await MaildirEnv('++', users=()).start()
        for name, (pw, roles) in USERS.items():
            hashed = await Passwords(env.config).hash_password(pw) if pw is not None else None
            ident = Identity(env.config, env.login_obj.tokens, name, None, {'admin'})
            await ident.set(UserMetadata(env.config, name, password=hashed,
                                         roles=frozenset(roles),
                                         params={'mailbox_path': name}))
            self.stored[name] = hashed
        self.config = env.config
        self.login = env.login_obj
        # marker mailboxes, created through the server itself
        for name, (pw, _roles) in USERS.items():
            if pw is None:
                continue
            conn = await env.connect()
            r = await conn.send(b'm0 LOGIN ' + quote(name.encode()) + b' ' + quote(pw.encode()) + b'\r\n')
            assert b'm0 OK' in r, r
            r = await conn.send(b'm1 CREATE ' + mark_of(name).encode() + b'\r\n')
            assert b'm1 OK' in r, r
            await conn.send_eof()

    def imap_server(self, rec: Recorder):
        from pymap.imap import IMAPServer
        return IMAPServer(self.login, self.config)

    def sieve_server(self, rec: Recorder):
        from pymap.sieve.manage import ManageSieveServer
        return ManageSieveServer(rec.wrap_login(self.login), self.config)

    async def connect(self, rec: Recorder, sieve: bool = False):
        from ..pymap_env import Conn
        conn = Conn(self.sieve_server(rec) if sieve else self.imap_server(rec), local=self.local)
        conn.greeting = await conn.start()
        return conn

    def close(self):
        if self.env is not None:
            self.env.close()

    # ---- oracle tables (pysasl + hash, as UserMetadata.compare_secret does)
    def verify(self, stored: str, secret: str) -> bool:
        prepare = self.config.password_prep
        try:
            return bool(self.config.hash_context.copy().verify(prepare(secret), prepare(stored)))
        except ValueError:
            return False

    def prep_ok(self, name: str) -> bool:
        try:
            self.config.password_prep(name).encode('utf-8')
        except ValueError:
            return False
        return True


ENV_SPECS = [
    ('dict_plain', 'dict', False, True, None, None),
    ('dict_limit', 'dict', False, True, 5, None),
    ('dict_remote_tls', 'dict', True, False, None, None),
    ('dict_local_tls', 'dict', True, True, None, None),
    ('dict_preauth', 'dict', False, True, None, ('bob', 'bobpass', 'bob')),
    ('dict_preauth_admin', 'dict', False, True, None, ('root', 'rootpass', 'bob')),
    ('dict_preauth_bad', 'dict', False, True, None, ('bob', 'wrong', 'bob')),
    ('maildir', 'maildir', False, True, 5, None),
]


# ------------------------------------------------------------------ attempts
def b64(b: bytes) -> bytes:
    return base64.b64encode(b)


def full_line(raw: bytes) -> bytes:
    """the bytes the server reads for a client line: lines that carry their own
    terminator (bare LF) are sent as they are, CRLF is added otherwise"""
    return raw if raw.endswith(b'\n') else raw + b'\r\n'


def cline(raw: bytes, crlf: bool = True) -> dict:
    """crlf=True: an IMAP continuation line (the model gets the whole line with
    its terminator, b64decode sees it too); False: a ManageSieve string value."""
    full = full_line(raw) if crlf else raw
    try:
        dec = base64.b64decode(full)
    except binascii.Error:
        dec = None
    utf8 = True
    if dec is not None:
        try:
            dec.decode('utf-8')
        except UnicodeDecodeError:
            utf8 = False
    return {'raw': full, 'dec': dec, 'utf8': utf8}


def reference_creds(kind: str, lines: list[bytes], sieve_initial: bytes | None = None,
                    sieve: bool = False):
    """What a SASL PLAIN / LOGIN exchange presents, written from the mechanism
    definitions (RFC 4616, draft LOGIN) and the protocols' cancel rule: a client
    line consisting of "*" alone cancels.  base64 decoding is CPython's (the
    same oracle the model gets).  None = nothing is presented."""
    resps = []
    if sieve and sieve_initial is not None:
        resps.append(('init', sieve_initial))
    resps += [('line', x) for x in lines]
    need = 1 if kind == 'plain' else 2
    vals = []
    for how, x in resps[:need]:
        if sieve:
            body, full = x, x
        else:
            full = full_line(x)
            body = full.rstrip(b'\r\n')
        if how == 'line' and body == b'*':
            return None
        try:
            vals.append(base64.b64decode(full))
        except binascii.Error:
            return None
    if len(vals) < need:
        return None
    try:
        if kind == 'plain':
            parts = vals[0].split(b'\0')
            if len(parts) != 3 or not parts[1]:
                return None
            for p_ in parts:
                p_.decode('utf-8')
            return (parts[1], parts[2], parts[0] or parts[1])
        for v in vals:
            v.decode('utf-8')
        return (vals[0], vals[1], vals[0])
    except UnicodeDecodeError:
        return None


class Attempt:
    """One command of a C09 sequence.  `creds` = what the client intends to
    present (authc, secret, authz) as byte strings, None when the exchange is
    cancelled / malformed on purpose or the command is not a login."""

    def __init__(self, kind, line, lines=(), creds=None, label='', eol=b'\r\n'):
        self.kind = kind        # login | plain | sasl_login | other mech | starttls | probe | ...
        self.line = line
        self.lines = list(lines)
        self.label = label
        self.eol = eol          # terminator of the command line itself
        if kind in ('plain', 'sasl_login'):
            # ground truth of what the exchange presents, whatever the generator meant
            creds = reference_creds(kind, self.lines)
        self.creds = creds


def quote(b: bytes) -> bytes:
    return b'"' + b.replace(b'\\', b'\\\\').replace(b'"', b'\\"') + b'"'


def variant(rng, name: bytes) -> bytes:
    """a case / normalisation / spacing variant of a name"""
    try:
        t = name.decode('utf-8')
    except UnicodeDecodeError:
        return name
    k = rng.randrange(8)
    if k == 0:
        t = t.upper()
    elif k == 1:
        t = t.lower()
    elif k == 2:
        t = t.capitalize()
    elif k == 3:
        t = t.swapcase()
    elif k == 4:
        t = t + ' '
    elif k == 5:
        t = ''.join(chr(ord(c) + 0xfee0) if c == 'b' else c for c in t)   # fullwidth b
    elif k == 6:
        t = t.replace('\uff42', 'b')
    else:
        t = t.replace('o', '\u00f6') if rng.random() < 0.5 else t.title()
    return t.encode('utf-8')


def gen_user(rng) -> bytes:
    r = rng.random()
    if r < 0.62:
        return rng.choice(list(USERS)).encode()
    if r < 0.72:
        return variant(rng, rng.choice(list(USERS)).encode())
    if r < 0.8:
        return rng.choice([b'nobody', b'', b'BOB', b'testuser ', b'roo', b'root2', b'admin'])
    if r < 0.9:
        return rng.choice([b'b\xc3\xb6b', b'bob\x01', b'\xe2\x80\x8bbob', b'bob\xc2\xa0'])
    return bytes(rng.choice(b'abor tz') for _ in range(rng.randint(1, 6)))


def gen_secret(rng, user: bytes) -> bytes:
    r = rng.random()
    name = user.decode('utf-8', 'replace')
    pw = USERS.get(name, (None, ()))[0]
    if pw is None and rng.random() < 0.5:
        # the password of a look-alike account
        for n2, (p2, _r) in USERS.items():
            if p2 and n2.casefold() == name.strip().casefold():
                pw = p2
    if r < 0.45 and pw is not None:
        return pw.encode()
    if r < 0.6:
        other = rng.choice([p for p, _ in USERS.values() if p])
        return other.encode()
    if r < 0.7:
        return rng.choice([b'', b'x', b' ', b'*'])
    if r < 0.85 and pw is not None:
        p = pw.encode()
        return rng.choice([p + b' ', p[:-1], p.upper(), b' ' + p, p + b'\xc2\xa0', p * 2])
    if r < 0.73:
        return b'A' * rng.choice([300, 1500])
    return bytes(rng.choice(b'abpsw0 ') for _ in range(rng.randint(1, 10)))


def gen_attempt(rng, tls_env: bool) -> Attempt:
    r = rng.random()
    user = gen_user(rng)
    secret = gen_secret(rng, user)
    if r < 0.22:
        # LOGIN; arguments quoted unless awkward
        ok = all(32 <= c < 127 for c in user + secret)
        if ok and len(secret) < 2000:
            form = rng.random()
            if form < 0.5 and user and secret and re.fullmatch(rb'[A-Za-z0-9]+', user) \
                    and re.fullmatch(rb'[A-Za-z0-9]+', secret):
                line = b'LOGIN ' + user + b' ' + secret
            elif form < 0.8:
                line = b'LOGIN ' + quote(user) + b' ' + quote(secret)
            else:
                line = b'LOGIN {%d}\r\n%s {%d+}\r\n%s' % (len(user), user, len(secret), secret)
        else:
            if len(secret) > 2000:
                secret = secret[:2000]
            line = b'LOGIN {%d+}\r\n%s {%d+}\r\n%s' % (len(user), user, len(secret), secret)
        return Attempt('login', line, creds=(user, secret, user), label='LOGIN')
    if r < 0.62:
        # AUTHENTICATE PLAIN
        z = rng.random()
        if z < 0.45:
            authz = b''
        elif z < 0.6:
            authz = user
        elif z < 0.78:
            authz = rng.choice(list(USERS)).encode()
        elif z < 0.86:
            authz = variant(rng, user)            # look-alike of the authcid
        elif z < 0.94:
            authz = variant(rng, rng.choice(list(USERS)).encode())
        else:
            authz = rng.choice([b'nobody', b'BOB', b'\xff'])
        mech = rng.choice([b'PLAIN', b'PLAIN', b'plain', b'Plain'])
        m = rng.random()
        if m < 0.72:
            payload = authz + b'\0' + user + b'\0' + secret
            creds = (user, secret, authz or user)
            if not user or b'\0' in user + secret + authz:
                creds = None
            try:
                payload.decode('utf-8')
            except UnicodeDecodeError:
                creds = None
            if rng.random() < 0.015:
                payload = authz + b'\0' + user + b'\0' + secret * 4 + b'A' * 4200
                creds = (user, secret * 4 + b'A' * 4200, authz or user) if creds else None
            return Attempt('plain', b'AUTHENTICATE ' + mech, [b64(payload)], creds, 'PLAIN')
        bad = rng.choice([b'*', b'AAA', b'', b'=', b'!!!!', b64(user + secret),
                          b64(b'\0' + user), b64(b'a\0b\0c\0d'), b64(b'\0\0' + secret),
                          b64(b'\0' + user + b'\0' + secret)[:-2] + b'*',
                          b'* ', b64(b'\0\xff\xfe\0' + secret), b64(b'\0' + user + b'\0\xff')])
        return Attempt('plain', b'AUTHENTICATE ' + mech, [bad], None, 'PLAIN-malformed')
    if r < 0.8:
        mech = rng.choice([b'LOGIN', b'login'])
        m = rng.random()
        if m < 0.7:
            creds = (user, secret, user)
            try:
                (user + secret).decode('utf-8')
            except UnicodeDecodeError:
                creds = None
            return Attempt('sasl_login', b'AUTHENTICATE ' + mech, [b64(user), b64(secret)], creds,
                           'SASL-LOGIN')
        k = rng.random()
        if k < 0.4:
            lines = [rng.choice([b'*', b'AAA', b'=']), b64(secret)]
        elif k < 0.8:
            lines = [b64(user), rng.choice([b'*', b'AAA', b'=A'])]
        else:
            lines = [b64(b'\xff' + user), b64(secret)]
        return Attempt('sasl_login', b'AUTHENTICATE ' + mech, lines, None, 'SASL-LOGIN-malformed')
    if r < 0.85:
        good = b64(b'\0' + user + b'\0' + secret)
        return Attempt('mech', b'AUTHENTICATE ' + rng.choice([b'CRAM-MD5', b'XOAUTH2', b'PLAINX']),
                       [good, good], None, 'unknown-mech')
    if r < 0.93:
        return Attempt('starttls', b'STARTTLS', label='STARTTLS')
    if r < 0.97:
        return Attempt('capability', b'CAPABILITY', label='CAPABILITY')
    return Attempt('noop', b'NOOP', label='NOOP')


CANCELS = [b'*\n', b'* ', b' *', b'*\r', b'* \n', b'**', b'*\r\n', b'*=']


def vary(rng, a: Attempt) -> Attempt:
    """Line-ending and cancel variants: bare LF after continuation lines and
    after the command itself, '*' with spaces around it."""
    lines = list(a.lines)
    if a.kind in ('plain', 'sasl_login', 'mech'):
        for i, ln in enumerate(lines):
            r = rng.random()
            if r < 0.25 and not ln.endswith(b'\n'):
                lines[i] = ln + b'\n'
            elif r < 0.32:
                lines[i] = rng.choice(CANCELS)
    eol = b'\r\n'
    if b'{' not in a.line and rng.random() < 0.12:
        eol = b'\n'
    if lines == a.lines and eol == b'\r\n':
        return a
    return Attempt(a.kind, a.line, lines, a.creds, a.label + '~', eol)


PROBE = Attempt('probe', b'LIST "" *', label='probe')


def attempt_model(a: Attempt) -> str:
    """The model command an attempt denotes (written from what the client
    sends, not from pymap's parser)."""
    def cl(raw):
        c = cline(raw)
        dec = 'None' if c['dec'] is None else f'(Some {ib(c["dec"])})'
        return f'(mk_cline {ib(raw)} {dec} {T.boolean(c["utf8"])})'
    if a.kind == 'login':
        u, p, _ = a.creds
        return f'(CCmd "LOGIN" (ALogin {ib(u)} {ib(p)}))'
    if a.kind in ('plain', 'sasl_login', 'mech'):
        mech = a.line.split()[1]
        return f'(CCmd "AUTHENTICATE" (AAuth {ib(mech)} {T.lst(cl(x) for x in a.lines)}))'
    if a.kind == 'starttls':
        return '(CCmd "STARTTLS" ANone)'
    if a.kind == 'capability':
        return '(CCmd "CAPABILITY" ANone)'
    if a.kind == 'noop':
        return '(CCmd "NOOP" ANone)'
    if a.kind == 'probe':
        return '(CCmd "LIST" ANone)'
    raise ValueError(a.kind)


INTERN = Interner()


def ib(b) -> str:
    """byte string as a compact literal: nb <len> 0x<hex> (Conn/ConnCheck.v)"""
    if isinstance(b, str):
        b = b.encode('utf-8', 'surrogateescape')
    if not b:
        return '(@nil N)'
    if len(b) <= 200:
        return f'(nb {len(b)} 0x{b.hex()})'
    # nat literals stay small: long strings are concatenations
    parts = [b[i:i + 200] for i in range(0, len(b), 200)]
    return '(' + ' ++ '.join(f'nb {len(x)} 0x{x.hex()}' for x in parts) + ')%list'


# ----------------------------------------------------------- IMAP sequences
_MARK_RE = re.compile(rb'\* LIST \([^)]*\) "[^"]*" "?mark-([0-9]+)"?\r\n')


async def run_imap_sequence(rec: Recorder, E: Env, attempts: list[Attempt]) -> dict:
    conn = await E.connect(rec)
    rec.log.take()
    steps = []
    g = conn.greeting
    greet = {'out': g, 'closed': conn.closed,
             'owner': rec.snapshot()['owner'] if rec.states else None}
    full = []
    for a in attempts:
        full.append(a)
        if a.kind != 'probe':
            full.append(PROBE)
    who = None
    for i, a in enumerate(full):
        tag = b'q%d' % i
        out, used = await run_exchange(conn, tag + b' ' + a.line, a.lines,
                                       getattr(a, 'eol', b'\r\n'))
        cond, text = tagged(out, tag)
        calls = rec.log.take()
        snap = rec.snapshot()
        if a.kind == 'probe' and cond == 'OK':
            marks = _MARK_RE.findall(out)
            who = UNAME.get(int(marks[0]), '?') if len(marks) == 1 else 'MARKERS:%r' % marks
        elif a.kind == 'probe' and cond == 'BAD':
            who = None
        stage = None
        login_calls = [c for c in calls if c['meth'] in ('authenticate', 'authorize', 'new_session')]
        if login_calls:
            stage = 0
            for n, m in ((1, 'authenticate'), (2, 'authorize'), (3, 'new_session')):
                rs = [c for c in login_calls if c['meth'] == m]
                if rs and rs[-1].get('out') != 'ok':
                    stage = n
                    break
        steps.append({'attempt': a, 'out': out, 'used': used, 'cond': cond, 'text': text,
                      'bye': has_bye(out), 'closed': conn.closed, 'owner': snap['owner'],
                      'who': who, 'stage': stage,
                      'exc': None if conn.exc is None else type(conn.exc).__name__})
    if not conn.closed:
        await conn.send_eof()
    return {'greeting': greet, 'steps': steps, 'full': full}


def env_term(E: Env, secrets: set[bytes], names: set[bytes]) -> str:
    users = []
    true_pairs = []
    for name, (pw, roles) in USERS.items():
        stored = E.stored[name]
        pwterm = 'None' if stored is None else f'(Some {ib(stored)})'
        users.append(f'(mk_user {ib(name)} {pwterm} {T.lst(ib(r) for r in roles)})')
        if stored is not None:
            for s in secrets:
                try:
                    sstr = s.decode('utf-8')
                except UnicodeDecodeError:
                    sstr = s.decode('utf-8', 'surrogateescape')
                if E.verify(stored, sstr):
                    true_pairs.append(f'({ib(stored)}, {ib(s)})')
    bad = []
    for n in names:
        nstr = n.decode('utf-8', 'surrogateescape')
        if not E.prep_ok(nstr):
            bad.append(ib(n))
    kind = 'BDict' if E.kind == 'dict' else 'BMaildir'
    return INTERN('env_', f'(mk_aenv {kind} {T.lst(users)} {T.lst(sorted(true_pairs))} '
                  f'{T.lst(sorted(bad))})', 'aenv')


def cfg_term(E: Env) -> str:
    pre = 'None'
    if E.preauth:
        a, s, z = E.preauth
        pre = f'(Some ({ib(a)}, {ib(s)}, {ib(z)}))'
    return INTERN('cfg_', f'(mk_config {T.boolean(E.tls)} {T.boolean(E.local)} '
                  f'{T.N(E.limit or 0)} true true {pre})', 'config')


def _opt(b) -> str:
    return 'None' if b is None else f'(Some {ib(b)})'


def imap_case_term(E: Env, res: dict) -> str:
    secrets, names = set(), set()
    if E.preauth:
        names.add(E.preauth[0].encode())
        secrets.add(E.preauth[1].encode())
    for st in res['steps']:
        a = st['attempt']
        if a.creds:
            names.add(a.creds[0])
            secrets.add(a.creds[1])
        elif a.kind in ('plain', 'sasl_login'):
            # credentials the server may still extract from a 'malformed' line
            for x in a.lines:
                d = cline(x)['dec']
                if d:
                    parts = d.split(b'\0')
                    for p in parts:
                        names.add(p)
                        secrets.add(p)
    g = res['greeting']
    gout = g['out']
    if gout.startswith((b'* OK', b'* PREAUTH')):
        gob = f'(mk_aobs OK WDone false 0 {_opt(g["owner"])} false None)'
    elif gout.startswith(b'* BYE'):
        gob = '(mk_aobs NOTAG WGreetBye true 0 None true None)'
    else:
        gob = '(mk_aobs NOTAG WCrash false 0 None true None)'
    steps = []
    for st in res['steps']:
        a = st['attempt']
        cond = st['cond'] if st['cond'] in ('OK', 'NO', 'BAD') else 'NOTAG'
        why = _why(st['cond'], st['text'], st['out'], st['closed'])
        stage = 'None' if st['stage'] is None else f'(Some {T.N(st["stage"])})'
        ob = INTERN('ao_', f'(mk_aobs {cond} {why} {T.boolean(st["bye"])} {T.N(st["used"])} '
                    f'{_opt(st["owner"])} {T.boolean(st["closed"])} {stage})', 'aobs')
        steps.append(f'(mk_astep {attempt_model(a)} {ob})')
    return f'(mk_acase {env_term(E, secrets, names)} {cfg_term(E)} {gob} {T.lst(steps)})'


# ------------------------------------------------------------------ monitor
def truth_valid(E: Env, creds) -> bool:
    """Ground truth from what the harness provisioned (plaintext passwords,
    roles): do these credentials verify for an existing user who may act as
    authz?"""
    if creds is None:
        return False
    authc, secret, authz = creds
    try:
        a, s, z = authc.decode('utf-8'), secret.decode('utf-8'), authz.decode('utf-8')
    except UnicodeDecodeError:
        return False
    # secrets are equal iff their SASLprep forms are (RFC 4013; identity on printable ASCII)
    if a not in USERS or USERS[a][0] is None or not c09_lookalike.secret_eq(USERS[a][0], s):
        return False
    if z not in USERS:
        return False
    if z != a:
        roles = set(USERS[a][1])
        need = {'admin'} if E.kind == 'dict' else {'admin', 'sudo'}
        if not (roles & need):
            return False
    return True


def monitor_imap(ctx, E: Env, res: dict, replay: dict) -> None:
    g = res['greeting']
    who = None
    authed_by = None
    if g['out'].startswith(b'* PREAUTH'):
        who = E.preauth[2] if E.preauth else '?'
        if not (E.preauth and truth_valid(E, tuple(x.encode() for x in E.preauth))):
            ctx.failure('sound', 'PREAUTH greeting without valid preauth credentials', replay,
                        {'kind': 'preauth_invalid'})
    disabled = b'LOGINDISABLED' in g['out']
    for i, st in enumerate(res['steps']):
        a = st['attempt']
        rp = dict(replay, step=i, line=a.line.decode('latin-1')[:120],
                  response=st['out'].decode('latin-1')[-300:])
        if a.kind == 'capability' and st['cond'] == 'OK':
            disabled = b'LOGINDISABLED' in st['out']
        if a.kind == 'starttls' and st['cond'] == 'OK':
            disabled = False    # capabilities must be asked again; LOGIN may be open now
        if a.kind == 'login' and st['cond'] == 'OK' and disabled:
            ctx.failure('login_disabled', 'LOGIN accepted while LOGINDISABLED was advertised', rp,
                        {'kind': 'login_while_disabled'})
        if a.kind != 'probe':
            if st['cond'] == 'OK' and a.kind in ('login', 'plain', 'sasl_login', 'mech'):
                authed_by = (i, a)
            continue
        # a probe: who is the connection now?
        now = st['who']
        if st['cond'] not in ('OK', 'BAD'):
            continue
        if now is not None and who is None:
            # became somebody: the attempt just before must justify it
            prev = res['steps'][i - 1] if i else None
            pa = prev['attempt'] if prev else None
            ok = (pa is not None and prev['cond'] == 'OK' and truth_valid(E, pa.creds)
                  and pa.creds[2].decode('utf-8', 'replace') == now)
            if not ok:
                ctx.failure('sound', f'connection acts as {now!r} after '
                            f'{(pa.label or pa.kind) if pa else None} '
                            f'{pa.line[:40] if pa else b""!r} + lines {pa.lines[:2] if pa else []!r} '
                            f'presenting {pa.creds if pa else None!r}',
                            rp, {'kind': 'authenticated_without_valid_credentials',
                                 'as': now})
        elif now is not None and who is not None and now != who:
            ctx.failure('sound', f'identity changed from {who!r} to {now!r}', rp,
                        {'kind': 'identity_changed'})
        elif now is None and who is not None and not st['closed']:
            ctx.failure('sound', f'identity {who!r} lost without the connection ending', rp,
                        {'kind': 'identity_lost'})
        if now is None and i and res['steps'][i - 1]['cond'] == 'OK' and \
                res['steps'][i - 1]['attempt'].kind in ('login', 'plain', 'sasl_login', 'mech'):
            ctx.failure('sound', 'login answered OK but the connection is not authenticated', rp,
                        {'kind': 'ok_but_unauthenticated'})
        who = now
        # failed / cancelled / malformed leaves unauthenticated: covered by
        # the first rule (any identity needs a justified OK just before)
        if st['owner'] is not None and now is not None and st['owner'] != now:
            ctx.failure('sound', f'session owner {st["owner"]!r} but mailboxes of {now!r}', rp,
                        {'kind': 'owner_marker_mismatch'})


# ------------------------------------------------------------- ManageSieve
class SAttempt:
    def __init__(self, kind, line, lines=(), creds=None, initial=None, mech=b'', label='',
                 eol=b'\r\n'):
        self.kind = kind
        self.line = line
        self.lines = list(lines)     # raw values (sent quoted)
        self.eol = eol               # terminator of every line of this command
        if kind == 'auth' and mech.upper() in (b'PLAIN', b'LOGIN'):
            creds = reference_creds('plain' if mech.upper() == b'PLAIN' else 'sasl_login',
                                    self.lines, initial, sieve=True)
        self.creds = creds
        self.initial = initial
        self.mech = mech
        self.label = label


def gen_sattempt(rng) -> SAttempt:
    r = rng.random()
    user = gen_user(rng)
    secret = gen_secret(rng, user)
    if len(secret) > 500:
        secret = secret[:500]
    if r < 0.5:
        z = rng.random()
        authz = b'' if z < 0.4 else (user if z < 0.5 else (
            rng.choice(list(USERS)).encode() if z < 0.75 else variant(rng, user)))
        payload = authz + b'\0' + user + b'\0' + secret
        creds = (user, secret, authz or user)
        if not user or b'\0' in user + secret + authz:
            creds = None
        try:
            payload.decode('utf-8')
        except UnicodeDecodeError:
            creds = None
        mech = rng.choice([b'PLAIN', b'plain'])
        m = rng.random()
        if m < 0.45:
            val = b64(payload)
            return SAttempt('auth', b'AUTHENTICATE "%s" "%s"' % (mech, val), [], creds, val, mech,
                            'PLAIN-initial')
        if m < 0.75:
            return SAttempt('auth', b'AUTHENTICATE "%s"' % mech, [b64(payload)], creds, None, mech,
                            'PLAIN')
        bad = rng.choice([b'*', b'AAA', b'', b'!!!!', b64(b'nonul'), b64(b'\0\xff\0x')])
        if rng.random() < 0.5:
            return SAttempt('auth', b'AUTHENTICATE "%s" "%s"' % (mech, bad), [], None, bad, mech,
                            'PLAIN-initial-malformed')
        return SAttempt('auth', b'AUTHENTICATE "%s"' % mech, [bad], None, None, mech,
                        'PLAIN-malformed')
    if r < 0.65:
        creds = (user, secret, user)
        try:
            (user + secret).decode('utf-8')
        except UnicodeDecodeError:
            creds = None
        if rng.random() < 0.7:
            return SAttempt('auth', b'AUTHENTICATE "LOGIN"', [b64(user), b64(secret)], creds, None,
                            b'LOGIN', 'SASL-LOGIN')
        lines = rng.choice([[b'*', b64(secret)], [b64(user), b'*'], [b64(user), b'AAA']])
        return SAttempt('auth', b'AUTHENTICATE "LOGIN"', lines, None, None, b'LOGIN',
                        'SASL-LOGIN-malformed')
    if r < 0.7:
        good = b64(b'\0' + user + b'\0' + secret)
        return SAttempt('auth', b'AUTHENTICATE "CRAM-MD5"', [good], None, None, b'CRAM-MD5',
                        'unknown-mech')
    if r < 0.8:
        return SAttempt('unauth', b'UNAUTHENTICATE', label='UNAUTHENTICATE')
    if r < 0.86:
        return SAttempt('starttls', b'STARTTLS', label='STARTTLS')
    if r < 0.9:
        return SAttempt('other', b'LISTSCRIPTS', label='LISTSCRIPTS')
    if r < 0.94:
        return SAttempt('noop', b'NOOP', label='NOOP')
    if r < 0.97:
        return SAttempt('bad', b'FROBNICATE', label='garbage')
    return SAttempt('logout', b'LOGOUT', label='LOGOUT')


def sattempt_model(a: SAttempt) -> str:
    def cl(raw):
        c = cline(raw, crlf=False)
        dec = 'None' if c['dec'] is None else f'(Some {ib(c["dec"])})'
        return f'(mk_cline {ib(raw)} {dec} {T.boolean(c["utf8"])})'
    if a.kind == 'auth':
        init = 'None' if a.initial is None else f'(Some {cl(a.initial)})'
        return f'(SAuthenticate {ib(a.mech)} {init} {T.lst(cl(x) for x in a.lines)})'
    return {'unauth': 'SUnauthenticate', 'starttls': 'SStartTls', 'logout': 'SLogout',
            'noop': 'SNoop', 'other': 'SOther', 'bad': 'SBad'}[a.kind]


def _sieve_done(out: bytes) -> str | None:
    lines = [ln for ln in out.split(b'\r\n') if ln]
    if not lines:
        return None
    last = lines[-1]
    for c in (b'OK', b'NO', b'BYE'):
        if last == c or last.startswith(c + b' '):
            return c.decode()
    return None


def _sieve_caps(out: bytes) -> dict:
    owner = re.search(rb'"OWNER" (?:"([^"]*)"|\{(\d+)\+?\}\r\n)', out)
    oname = None
    if owner:
        if owner.group(1) is not None:
            oname = owner.group(1).decode('utf-8', 'replace')
        else:
            n = int(owner.group(2))
            oname = out[owner.end():owner.end() + n].decode('utf-8', 'replace')
    sasl = re.search(rb'"SASL" "([^"]*)"', out)
    return {'owner': oname,
            'mechs': bool(sasl and sasl.group(1)),
            'offer_tls': b'"STARTTLS"' in out}


async def run_sieve_sequence(rec: Recorder, E: Env, attempts: list[SAttempt]) -> dict:
    conn = await E.connect(rec, sieve=True)
    rec.log.take()
    g = conn.greeting
    greet = {'out': g, 'closed': conn.closed, **_sieve_caps(g)}
    steps = []
    for a in attempts:
        out = await conn.send(a.line + a.eol)
        used = 0
        while _sieve_done(out) is None and not conn.closed and used < len(a.lines):
            out += await conn.send(quote(a.lines[used]) + a.eol)
            used += 1
        cond = _sieve_done(out)
        caps = {'owner': None, 'mechs': False, 'offer_tls': False}
        if not conn.closed:
            caps = _sieve_caps(await conn.send(b'CAPABILITY\r\n'))
        steps.append({'attempt': a, 'out': out, 'used': used, 'cond': cond,
                      'closed': conn.closed, **caps,
                      'exc': None if conn.exc is None else type(conn.exc).__name__})
        rec.log.take()
    if not conn.closed:
        await conn.send_eof()
    return {'greeting': greet, 'steps': steps}


def sieve_case_term(E: Env, res: dict) -> str:
    secrets, names = set(), set()
    if E.preauth:
        names.add(E.preauth[0].encode())
        secrets.add(E.preauth[1].encode())
    for st in res['steps']:
        a = st['attempt']
        if a.creds:
            names.add(a.creds[0])
            secrets.add(a.creds[1])
        for x in a.lines + ([a.initial] if a.initial else []):
            d = cline(x, crlf=False)['dec']
            if d:
                for p in d.split(b'\0'):
                    names.add(p)
                    secrets.add(p)

    def ob(v, cond):
        c = {'OK': 'SOK', 'NO': 'SNO', 'BYE': 'SBYE'}.get(cond, 'SNONE')
        return INTERN('so_', f'(mk_sobs {c} {T.N(v.get("used", 0))} {_opt(v["owner"])} '
                      f'{T.boolean(v["mechs"])} {T.boolean(v["offer_tls"])} '
                      f'{T.boolean(v["closed"])})', 'sobs')
    g = res['greeting']
    gcond = _sieve_done(g['out'])
    steps = [f'(mk_sstep {sattempt_model(st["attempt"])} {ob(st, st["cond"])})'
             for st in res['steps']]
    return (f'(mk_scase {env_term(E, secrets, names)} {cfg_term(E)} {ob(g, gcond)} '
            f'{T.lst(steps)})')


def monitor_sieve(ctx, E: Env, res: dict, replay: dict) -> None:
    who = res['greeting']['owner']
    if who is not None and not (E.preauth and truth_valid(
            E, (E.preauth[0].encode(), E.preauth[1].encode(), E.preauth[0].encode()))):
        ctx.failure('sieve_sound', f'greeting owned by {who!r} without valid preauth credentials',
                    replay, {'kind': 'preauth_invalid'})
    for i, st in enumerate(res['steps']):
        a = st['attempt']
        rp = dict(replay, step=i, line=a.line.decode('latin-1')[:120],
                  response=st['out'].decode('latin-1')[-200:])
        now = st['owner']
        if st['closed']:
            who = None
            continue
        if now != who:
            if now is None:
                if a.kind != 'unauth':
                    ctx.failure('sieve_sound', f'owner {who!r} dropped by {a.label}', rp,
                                {'kind': 'identity_lost'})
            else:
                c = a.creds
                ok = (who is None and a.kind == 'auth' and st['cond'] == 'OK' and c is not None
                      and truth_valid(E, (c[0], c[1], c[0]))
                      and c[0].decode('utf-8', 'replace') == now)
                if not ok:
                    ctx.failure('sieve_sound', f'connection owned by {now!r} (was {who!r}) after '
                                f'{a.label} presenting {c!r}', rp,
                                {'kind': 'authenticated_without_valid_credentials', 'as': now})
        elif a.kind == 'auth' and st['cond'] == 'OK' and now is None:
            ctx.failure('sieve_sound', 'AUTHENTICATE answered OK but nobody owns the connection',
                        rp, {'kind': 'ok_but_unauthenticated'})
        who = now


# ---------------------------------------------------------------------- run
def build_groups(items, build, size, header=None):
    """Case terms in groups, each with its own table of interned sub-terms
    (a group = one self-contained Coq file; groups are evaluated in parallel)."""
    global INTERN
    groups = []
    for i in range(0, len(items), size):
        INTERN = Interner()
        cases = [build(x) for x in items[i:i + size]]
        groups.append(((header or HEADER) + INTERN.header(), cases))
    return groups


def eval_groups(ctx, name, typ, chk, groups, size):
    """Returns (bad global indices, {global index: (header, case term)})."""
    from concurrent.futures import ThreadPoolExecutor

    def one(gi):
        hdr, cases = groups[gi]
        return gi, ctx.run_cases(f'{name}_{gi}', hdr, typ, cases, chk, shard=size, jobs=1)
    bad = []
    with ThreadPoolExecutor(max_workers=12) as ex:
        for gi, idx in ex.map(one, range(len(groups))):
            bad.extend(gi * size + i for i in idx)
    # fold the per-group entries of the evidence into one
    mine = [c for c in ctx.corr if c['name'].startswith(name + '_')]
    ctx.corr[:] = [c for c in ctx.corr if not c['name'].startswith(name + '_')]
    ctx.corr.append({'name': name, 'cases': sum(c['cases'] for c in mine),
                     'disagreements': sum(c['disagreements'] for c in mine),
                     'groups': len(mine),
                     'wall_s': round(max([c['wall_s'] for c in mine] or [0]), 2)})
    return sorted(bad)


def fixed_sequences() -> list[tuple[str, list[Attempt]]]:
    """Hand-picked sequences that every run contains (the clauses of the
    statement, one by one)."""
    P = b'AUTHENTICATE PLAIN'
    FW = '\uff42ob'.encode('utf-8')

    def plain(z, c, s):
        creds = (c, s, z or c)
        return Attempt('plain', P, [b64(z + b'\0' + c + b'\0' + s)], creds, 'PLAIN')

    def login(u, p):
        return Attempt('login', b'LOGIN ' + quote(u) + b' ' + quote(p), creds=(u, p, u),
                       label='LOGIN')
    seqs = []
    for envname in ('dict_plain', 'maildir', 'dict_limit'):
        seqs += [
            (envname, [login(b'bob', b'bobpass')]),
            (envname, [login(b'bob', b'wrong'), login(b'nobody', b'x'), login(b'', b''),
                       login(b'dis', b''), login(b'dis', b'*'), login(b'bob', b'bobpass')]),
            (envname, [plain(b'', b'bob', b'bobpass'), plain(b'', b'root', b'rootpass')]),
            (envname, [plain(b'bob', b'root', b'rootpass')]),
            (envname, [plain(b'bob', b'carol', b'carolpass')]),
            (envname, [plain(b'root', b'bob', b'bobpass'), plain(b'testuser', b'bob', b'bobpass')]),
            (envname, [plain(b'nobody', b'root', b'rootpass'), plain(b'dis', b'root', b'rootpass')]),
            (envname, [plain(b'bob', b'root', b'wrong'), plain(b'bob', b'nobody', b'x')]),
            (envname, [Attempt('plain', P, [b'*']), Attempt('plain', P, [b'AAA']),
                       Attempt('plain', P, [b'']), plain(b'', b'bob', b'bobpass'),
                       plain(b'', b'root', b'rootpass'), login(b'root', b'rootpass')]),
            (envname, [Attempt('sasl_login', b'AUTHENTICATE LOGIN', [b64(b'bob'), b64(b'bobpass')],
                               (b'bob', b'bobpass', b'bob'), 'SASL-LOGIN')]),
            # look-alike accounts: bob / Bob / fullwidth-b ob, root / ROOT
            (envname, [plain(b'Bob', b'bob', b'bobpass')]),
            (envname, [plain(b'bob', b'Bob', b'Bobpass')]),
            (envname, [plain(FW, b'bob', b'bobpass'), plain(b'bob', FW, b'fwpass')]),
            (envname, [plain(b'BOB', b'bob', b'bobpass'), plain(b'root', b'ROOT', b'ROOTpass')]),
            (envname, [plain(b'bob', b'ROOT', b'ROOTpass')]),
            (envname, [login(b'Bob', b'bobpass'), login(b'bob', b'Bobpass'), login(FW, b'bobpass'),
                       login(b'Bob', b'Bobpass')]),
            (envname, [plain(b'', FW, b'fwpass')]),
            # accounts with an empty / one-character password and cancelled exchanges
            (envname, [login(b'empty', b''), ]),
            (envname, [login(b'empty', b'x'), login(b'one', b''), login(b'one', b'x')]),
            (envname, [Attempt('sasl_login', b'AUTHENTICATE LOGIN', [b64(b'empty'), b'*\n'])]),
            (envname, [Attempt('sasl_login', b'AUTHENTICATE LOGIN', [b64(b'empty') + b'\n', b'*'])]),
            (envname, [Attempt('sasl_login', b'AUTHENTICATE LOGIN', [b64(b'empty'), b'*\r'])]),
            (envname, [Attempt('sasl_login', b'AUTHENTICATE LOGIN', [b64(b'empty'), b'* ']),
                       ]),
            (envname, [Attempt('sasl_login', b'AUTHENTICATE LOGIN', [b'*\n', b'*\n']),
                       Attempt('plain', P, [b'*\n']), Attempt('plain', P, [b' *']),
                       Attempt('plain', P, [b64(b'\0empty\0') + b'\n'])]),
            (envname, [Attempt('sasl_login', b'AUTHENTICATE LOGIN', [b64(b'one'), b64(b'x') + b'\n'],
                               eol=b'\n')]),
            (envname, [Attempt('sasl_login', b'AUTHENTICATE LOGIN', [b64(b'bob'), b'*']),
                       Attempt('sasl_login', b'AUTHENTICATE LOGIN', [b'*', b'x']),
                       Attempt('sasl_login', b'AUTHENTICATE LOGIN', [b64(b'bob'), b64(b'nope')],
                               (b'bob', b'nope', b'bob'))]),
        ]
    for envname in ('dict_remote_tls', 'dict_local_tls'):
        seqs += [
            (envname, [login(b'bob', b'bobpass'), plain(b'', b'bob', b'bobpass'),
                       Attempt('capability', b'CAPABILITY'), Attempt('starttls', b'STARTTLS'),
                       Attempt('capability', b'CAPABILITY'), login(b'bob', b'bobpass')]),
            (envname, [Attempt('starttls', b'STARTTLS'), Attempt('starttls', b'STARTTLS'),
                       plain(b'bob', b'root', b'rootpass')]),
        ]
    for envname in ('dict_preauth', 'dict_preauth_admin', 'dict_preauth_bad'):
        seqs += [(envname, [login(b'root', b'rootpass'), plain(b'', b'testuser', b'testpass')])]
    return seqs


def run(ctx) -> None:
    logging.getLogger('pymap.sieve.manage').disabled = True
    ctx.rule = ('a case = one connection: a generated sequence of LOGIN / AUTHENTICATE PLAIN / '
                'AUTHENTICATE LOGIN attempts (45% correct password, wrong / empty / unknown user / '
                'other user\'s password / disabled password / oversized, authzid absent, equal, '
                'another user, unknown; cancelled, bad base64, wrong field count, invalid UTF-8), '
                'STARTTLS, CAPABILITY, each followed by a LIST probe; 8 server configurations '
                '(dict: 3 TLS/peer combinations, bad-command limit, 3 preauth; maildir), IMAP and '
                'ManageSieve; non-trivial = at least one attempt answered OK; distinct = by the '
                'lines sent')
    ctx.assumptions += [
        'verify_secret / prep_ok oracles = pysasl saslprep + the configured hash, evaluated by the '
        'harness for the (stored, presented) pairs of each case',
        'base64.b64decode and UTF-8 validity of CPython are given to the model per client line',
        'ground truth of the monitor = the plaintext passwords and roles the harness provisioned; '
        'ASCII secrets compare by equality',
    ]
    cache_sasl_entry_points()
    t0 = time.time()
    table, changed = write_cmd_table()
    ctx.extra['cmd_table'] = {'entries': len(table), 'rewritten': changed}
    ctx.check_proofs(['Conn/AuthCheck', 'Conn/AuthDbCheck'])
    ctx.extra['t_proofs_s'] = round(time.time() - t0, 1)
    rng = ctx.rng
    n_imap = ctx.scale(900, 10000)
    n_sieve = ctx.scale(300, 2500)

    async def main():
        envs = {}
        for spec in ENV_SPECS:
            envs[spec[0]] = await Env(*spec).start()
        imap_runs, sieve_runs = [], []
        look_imap, look_sieve = [], []
        try:
            with Recorder() as rec:
                plan = list(fixed_sequences())
                names = [s[0] for s in ENV_SPECS]
                weights = [4, 2, 3, 2, 1, 1, 1, 4]
                for _ in range(n_imap):
                    envname = rng.choices(names, weights)[0]
                    E = envs[envname]
                    n = rng.randint(1, 7)
                    plan.append((envname, [vary(rng, gen_attempt(rng, E.tls)) for _ in range(n)]))
                for envname, attempts in plan:
                    E = envs[envname]
                    res = await asyncio.wait_for(run_imap_sequence(rec, E, attempts), 120)
                    imap_runs.append((E, attempts, res))
                for envname in ('dict_plain', 'maildir'):
                    for lines, eol in (([b64(b'empty'), b'*'], b'\n'), ([b64(b'empty'), b'* '], b'\r\n'),
                                       ([b64(b'empty'), b''], b'\n'), ([b'*', b'*'], b'\n'),
                                       ([b64(b'one'), b64(b'x')], b'\n')):
                        sa = SAttempt('auth', b'AUTHENTICATE "LOGIN"', lines, None, None, b'LOGIN',
                                      'SASL-LOGIN-fixed', eol)
                        E = envs[envname]
                        res = await asyncio.wait_for(run_sieve_sequence(rec, E, [sa]), 120)
                        sieve_runs.append((E, [sa], res))
                for _ in range(n_sieve):
                    envname = rng.choices(names, weights)[0]
                    E = envs[envname]
                    attempts = [gen_sattempt(rng) for _ in range(rng.randint(1, 7))]
                    for sa in attempts:
                        if rng.random() < 0.2 and b'{' not in sa.line:
                            sa.eol = b'\n'
                        if sa.kind == 'auth' and sa.lines and rng.random() < 0.1:
                            k = rng.randrange(len(sa.lines))
                            sa.lines[k] = rng.choice([b'* ', b' *', b'**', b'*'])
                            sa.creds = reference_creds(
                                'plain' if sa.mech.upper() == b'PLAIN' else 'sasl_login',
                                sa.lines, sa.initial, sieve=True) \
                                if sa.mech.upper() in (b'PLAIN', b'LOGIN') else None
                    res = await asyncio.wait_for(run_sieve_sequence(rec, E, attempts), 120)
                    sieve_runs.append((E, attempts, res))
                # round 5: look-alike credentials (decoding of credential octets)
                for envname, attempts in c09_lookalike.imap_plan(rng, ctx.scale(40, 600)):
                    res = await asyncio.wait_for(run_imap_sequence(rec, envs[envname], attempts), 120)
                    look_imap.append((envs[envname], attempts, res))
                for envname, attempts in c09_lookalike.sieve_plan(rng, ctx.scale(16, 250)):
                    res = await asyncio.wait_for(run_sieve_sequence(rec, envs[envname], attempts), 120)
                    look_sieve.append((envs[envname], attempts, res))
        finally:
            for E in envs.values():
                E.close()
        return imap_runs, sieve_runs, look_imap, look_sieve
    t1 = time.time()
    imap_runs, sieve_runs, look_imap, look_sieve = asyncio.run(main())
    ctx.extra['t_impl_s'] = round(time.time() - t1, 1)

    # ---- IMAP
    cases = []
    hist = {}
    for E, attempts, res in imap_runs + look_imap:
        replay = {'listener': 'imap', 'env': E.name,
                  'attempts': [{'line': a.line.decode('latin-1'),
                                'lines': [x.decode('latin-1') for x in a.lines]} for a in attempts]}
        monitor_imap(ctx, E, res, replay)
        okd = any(st['cond'] == 'OK' and st['attempt'].kind in ('login', 'plain', 'sasl_login')
                  for st in res['steps'])
        ctx.count(('imap', E.name, tuple((a.line, tuple(a.lines)) for a in attempts)),
                  nontrivial=okd)
        for st in res['steps']:
            a = st['attempt']
            if a.kind != 'probe':
                key = f'{a.label}:{st["cond"]}'
                hist[key] = hist.get(key, 0) + 1
    ctx.extra['imap_attempt_outcomes'] = dict(sorted(hist.items()))
    # ---- ManageSieve
    scases = []
    shist = {}
    for E, attempts, res in sieve_runs + look_sieve:
        replay = {'listener': 'sieve', 'env': E.name,
                  'attempts': [{'line': a.line.decode('latin-1'),
                                'lines': [x.decode('latin-1') for x in a.lines]} for a in attempts]}
        monitor_sieve(ctx, E, res, replay)
        okd = any(st['cond'] == 'OK' and st['attempt'].kind == 'auth' for st in res['steps'])
        ctx.count(('sieve', E.name, tuple((a.line, tuple(a.lines)) for a in attempts)),
                  nontrivial=okd)
        for st in res['steps']:
            key = f'{st["attempt"].label}:{st["cond"]}'
            shist[key] = shist.get(key, 0) + 1
    ctx.extra['sieve_attempt_outcomes'] = dict(sorted(shist.items()))
    if imap_runs:
        E, attempts, res = imap_runs[-1]
        ctx.sample({'env': E.name, 'attempts': [a.label for a in attempts],
                    'conds': [s['cond'] for s in res['steps']],
                    'who': [s['who'] for s in res['steps']]})
    t2 = time.time()
    from .. import coqrun
    GS = 100
    groups = build_groups(imap_runs, lambda r: imap_case_term(r[0], r[2]), GS)
    bad = eval_groups(ctx, 'imap_auth', 'auth_case', 'chk_auth', groups, GS)
    for i in bad[:5]:
        E, attempts, res = imap_runs[i]
        hdr, cases = groups[i // GS]
        where = coqrun.eval_term(ctx.prop, f'where_{i}', hdr, f'where_abad {cases[i % GS]}')
        ctx.disagreement('imap_auth', {
            'env': E.name,
            'impl': [(s['attempt'].label, s['attempt'].line.decode('latin-1')[:60],
                      [x.decode('latin-1')[:40] for x in s['attempt'].lines],
                      s['cond'], s['text'].decode('latin-1')[:40], s['owner'], s['stage'],
                      s['closed']) for s in res['steps']],
            'model_first_difference': where[-600:]})
    sgroups = build_groups(sieve_runs, lambda r: sieve_case_term(r[0], r[2]), GS)
    sbad = eval_groups(ctx, 'sieve_auth', 'sieve_case', 'chk_sieve', sgroups, GS)
    for i in sbad[:5]:
        E, attempts, res = sieve_runs[i]
        hdr, scs = sgroups[i // GS]
        where = coqrun.eval_term(ctx.prop, f'swhere_{i}', hdr, f'where_sbad {scs[i % GS]}')
        ctx.disagreement('sieve_auth', {
            'env': E.name,
            'impl': [(s['attempt'].label, s['attempt'].line.decode('latin-1')[:70],
                      [x.decode('latin-1')[:40] for x in s['attempt'].lines],
                      s['cond'], s['owner'], s['mechs'], s['offer_tls'], s['closed'])
                     for s in res['steps']],
            'model_first_difference': where[-600:]})
    # ---- round 5: look-alike credentials under the strict-decoding model, the UTF-8
    # validator, the identity database as state (three Coq jobs side by side)
    from concurrent.futures import ThreadPoolExecutor
    ucases, uterms = c09_lookalike.utf8_terms(ctx, ctx.scale(1200, 20000))
    hruns = c09_dbhist.run(ctx, ctx.scale(14, 150))
    lg = build_groups(look_imap, lambda r: imap_case_term(r[0], r[2]), GS, c09_lookalike.HEADER)
    lsg = build_groups(look_sieve, lambda r: sieve_case_term(r[0], r[2]), GS, c09_lookalike.HEADER)
    with ThreadPoolExecutor(max_workers=3) as ex:
        fu = ex.submit(coqrun.run_cases, ctx.prop, 'utf8_decode', c09_lookalike.HEADER, '(bytes * bool)',
                       uterms, 'chk_utf8', shard=4000)
        fh = ex.submit(coqrun.run_cases, ctx.prop, 'db_history', c09_dbhist.HEADER, 'hist_case',
                       [r['term'] for r in hruns], 'chk_hist', shard=60)
        lbad = eval_groups(ctx, 'imap_lookalike', 'auth_case', 'chk_auth_strict', lg, GS)
        lsbad = eval_groups(ctx, 'sieve_lookalike', 'sieve_case', 'chk_sieve_strict', lsg, GS)
        raw_u, raw_h = fu.result(), fh.result()
    for nm, raw in (('utf8_decode', raw_u), ('db_history', raw_h)):
        # what Ctx.run_cases records (done here because the jobs ran in worker threads)
        ctx.traces_validated += raw['n'] - len(raw['bad'])
        entry = {'name': nm, 'cases': raw['n'], 'disagreements': len(raw['bad']), 'wall_s': raw['wall_s']}
        ctx.corr.append(entry)
        if raw['errors']:
            entry['errors'] = raw['errors'][:3]
            ctx.broken.append(f'correspondence {nm}: case file did not evaluate: ' + raw['errors'][0][-800:])
    for i in raw_u['bad'][:5]:
        ctx.disagreement('utf8_decode', {'bytes': ucases[i].hex()})
    c09_dbhist.evaluate(ctx, hruns, raw_h)
    for i in lbad[:5]:
        E, attempts, res = look_imap[i]
        hdr, cases = lg[i // GS]
        where = coqrun.eval_term(ctx.prop, f'lwhere_{i}', hdr, f'where_abad_strict {cases[i % GS]}')
        ctx.disagreement('imap_lookalike', {
            'env': E.name,
            'impl': [(s['attempt'].label, s['attempt'].line.decode('latin-1')[:60],
                      [x.decode('latin-1')[:40] for x in s['attempt'].lines], s['cond'], s['owner'],
                      s['stage']) for s in res['steps'] if s['attempt'].kind != 'probe'],
            'model_first_difference': where[-400:]})
    for i in lsbad[:5]:
        E, attempts, res = look_sieve[i]
        ctx.disagreement('sieve_lookalike', {
            'env': E.name,
            'impl': [(s['attempt'].label, s['attempt'].line.decode('latin-1')[:70],
                      [x.decode('latin-1')[:40] for x in s['attempt'].lines], s['cond'], s['owner'])
                     for s in res['steps']]})
    ctx.extra['t_coq_s'] = round(time.time() - t2, 1)


def replay(ctx, obj) -> int:
    logging.getLogger('pymap.sieve.manage').disabled = True
    cache_sasl_entry_points()
    if obj.get('family') == 'db_history':
        return c09_dbhist.replay(ctx, obj)
    spec = [s for s in ENV_SPECS if s[0] == obj.get('env')]
    if not spec:
        print('unknown env', obj.get('env'))
        return 2

    async def main():
        E = await Env(*spec[0]).start()
        try:
            with Recorder() as rec:
                if obj.get('listener') == 'sieve':
                    atts = [SAttempt('auth' if a['line'].startswith('AUTHENTICATE') else 'other',
                                     a['line'].encode('latin-1'),
                                     [x.encode('latin-1') for x in a['lines']])
                            for a in obj['attempts']]
                    res = await run_sieve_sequence(rec, E, atts)
                    for st in res['steps']:
                        print(st['attempt'].line[:80], '->', st['cond'], 'owner', st['owner'])
                else:
                    atts = [Attempt('raw', a['line'].encode('latin-1'),
                                    [x.encode('latin-1') for x in a['lines']])
                            for a in obj['attempts']]
                    res = await run_imap_sequence(rec, E, atts)
                    for st in res['steps']:
                        print(st['attempt'].line[:80], '->', st['cond'], st['text'][:60],
                              'owner', st['owner'], 'who', st['who'])
        finally:
            E.close()
    asyncio.run(main())
    return 0
