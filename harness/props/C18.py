"""C18 — how an argument is spelled does not change what it means.

Part 1 (this file, section `seqset`): sequence sets — model Wire/SeqSet.v,
theorem C18_seqset_roundtrip, correspondence against
pymap.parsing.specials.sequenceset.SequenceSet (parse, __bytes__, iter, build),
monitor = print/parse round trip on the implementation itself.
Further sections are registered in SECTIONS by the other Wire components.
"""
from __future__ import annotations

from .. import coqterm as T
from .C18_strings import B, queue, flush

HEADER = 'From PV Require Import Base.Prelude Wire.SeqSet Wire.SeqSetCheck.\n'


# ------------------------------------------------------------------ encoders
def enc_idx(i) -> str:
    from pymap.parsing.specials.sequenceset import MaxValue
    if isinstance(i, MaxValue):
        return 'SMax'
    return f'(SNum {T.N(i)})'


def enc_seqset(seqs) -> str:
    items = []
    for e in seqs:
        if isinstance(e, tuple):
            items.append(f'(SRange {enc_idx(e[0])} {enc_idx(e[1])})')
        else:
            items.append(f'(SOne {enc_idx(e)})')
    return T.lst(items)


# ---------------------------------------------------------------- generators
def gen_seq_value(rng, maxlen=5):
    from pymap.parsing.specials.sequenceset import MaxValue
    def idx():
        r = rng.random()
        if r < 0.2:
            return MaxValue()
        if r < 0.3:
            return rng.choice([1, 9, 10, 99, 100, 4294967295, 10**25])
        return rng.randint(1, 30)
    out = []
    for _ in range(rng.randint(1, maxlen)):
        out.append((idx(), idx()) if rng.random() < 0.5 else idx())
    return out


def gen_seq_bytes(rng) -> bytes:
    r = rng.random()
    if r < 0.45:      # valid print + arbitrary tail
        from pymap.parsing.specials.sequenceset import SequenceSet
        s = bytes(SequenceSet(gen_seq_value(rng)))
        tail = rng.choice([b'', b' ', b' FLAGS', b')', b'\r\n', b',', b':', b'5', b'*', b',,',
                           b' 1:2', b'x'])
        lead = rng.choice([b'', b'', b' ', b'   '])
        return lead + s + tail
    if r < 0.75:      # mutated
        from pymap.parsing.specials.sequenceset import SequenceSet
        s = bytearray(bytes(SequenceSet(gen_seq_value(rng))) + b' x')
        for _ in range(rng.randint(1, 3)):
            k = rng.randrange(len(s) + 1)
            op = rng.random()
            c = rng.choice(b'0123456789*:, x\r\n') if rng.random() < 0.6 else rng.randrange(256)
            if op < 0.4:
                s.insert(k, c)
            elif op < 0.7 and s:
                del s[min(k, len(s) - 1)]
            elif s:
                s[min(k, len(s) - 1)] = c
        return bytes(s)
    n = rng.randint(0, 8)   # raw over a small alphabet
    return bytes(rng.choice(b'0129*:, a') for _ in range(n))


def impl_parse(buf: bytes):
    from pymap.parsing import Params
    from pymap.parsing.exceptions import NotParseable
    from pymap.parsing.specials.sequenceset import SequenceSet
    try:
        val, rest = SequenceSet.parse(memoryview(buf), Params())
    except NotParseable:
        return None
    return val, bytes(rest)


# ------------------------------------------------------------------- section
def section_seqset(ctx) -> None:
    from pymap.parsing.specials.sequenceset import SequenceSet
    rng = ctx.rng
    n = ctx.scale(600, 9000)
    from .C18_strings import INTERESTING, thin
    # --- parse correspondence (+ round-trip monitor on the implementation)
    cases, inputs = [], []
    seen = set()
    seen_vals = set()
    small = [bytes(x) for x in _small_strings(b'1*:, ', 4 if ctx.quick else 6)]
    # every byte value inserted at every position of a few base spellings
    sweep = []
    for base in (b'1', b'12:3', b'*', b'1,2', b'7:* x'):
        for k in range(len(base) + 1):
            for c in (INTERESTING if ctx.quick else range(256)):
                sweep.append(base[:k] + bytes([c]) + base[k:])
    stream = small + sweep + [gen_seq_bytes(rng) for _ in range(n)]
    stream = thin(ctx, stream, 1400)
    for buf in stream:
        if buf in seen:
            continue
        seen.add(buf)
        res = impl_parse(buf)
        ctx.count(('parse', buf), nontrivial=res is not None)
        if res is None:
            exp = 'None'
        else:
            val, rest = res
            exp = T.option(T.pair(enc_seqset(val.sequences), B(rest)))
            # monitor: print -> parse gives the value back, consuming exactly
            # the printed bytes, whatever (terminating) bytes follow.
            fresh = SequenceSet(list(val.sequences))
            printed = bytes(fresh)
            tails = [b'', b' x', b')']
            if len(seen_vals) < 60 and printed not in seen_vals:
                seen_vals.add(printed)
                tails = [b''] + [bytes([c]) + b'x' for c in range(256)
                                 if c not in b'0123456789:,']
            for tail in tails:
                again = impl_parse(printed + tail)
                if again is None or again[0].sequences != list(val.sequences) \
                        or again[1] != tail:
                    ctx.failure('seqset_roundtrip',
                                f'sequence set {printed!r} does not round-trip before {tail!r}',
                                {'input': buf.hex(), 'printed': printed.hex(), 'tail': tail.hex()},
                                {'kind': 'seqset_roundtrip'})
            # the cached raw form must be the canonical one for a parsed value
        cases.append(T.pair(B(buf), exp))
        inputs.append(buf)
    ctx.sample({'seqset_parse_input': inputs[-1].decode('latin-1')})
    queue(ctx, 'seqset_parse', HEADER, 'bytes * option (seqset * bytes)', cases, 'chk_seq_parse',
          lambda i, inputs=inputs: {'input': inputs[i].hex(),
                                          'impl': repr(impl_parse(inputs[i]))})
    # --- print / iter / build correspondence
    pc, ic, bc, keep = [], [], [], []
    for _ in range(n // 3):
        v = gen_seq_value(rng)
        printed = bytes(SequenceSet(v))
        pc.append(T.pair(enc_seqset(v), B(printed)))
        mx = rng.choice([0, 1, 5, 12, 30, 40])
        small_v = [e for e in v if not _huge(e)] or [1]
        it = list(SequenceSet(small_v).iter(mx))
        ic.append(T.pair(enc_seqset(small_v), T.N(mx), T.nlist(it)))
        vals = sorted({rng.randint(1, 25) for _ in range(rng.randint(1, 12))})
        bc.append(T.pair(T.nlist(vals), B(bytes(SequenceSet.build(vals)))))
        keep.append((v, mx, vals))
        ctx.count(('print', printed, mx, tuple(vals)))
    for nm, typ, cs, chk in (('seqset_print', 'seqset * bytes', pc, 'chk_seq_print'),
                             ('seqset_iter', 'seqset * N * list N', ic, 'chk_seq_iter'),
                             ('seqset_build', 'list N * bytes', bc, 'chk_seq_build')):
        queue(ctx, nm, HEADER, typ, cs, chk, lambda i, keep=keep: {'case': repr(keep[i])})


def _huge(e) -> bool:
    if isinstance(e, tuple):
        return any(isinstance(x, int) and x > 1000 for x in e)
    return isinstance(e, int) and e > 1000


def _small_strings(alphabet: bytes, maxlen: int):
    out = [b'']
    frontier = [b'']
    for _ in range(maxlen):
        frontier = [s + bytes([c]) for s in frontier for c in alphabet]
        out.extend(frontier)
    return out


SECTIONS = [section_seqset]


def _modules():
    import importlib
    import pkgutil
    import harness.props as pk
    return [importlib.import_module(f'harness.props.{m}')
            for m in sorted(x.name for x in pkgutil.iter_modules(pk.__path__))
            if m.startswith('C18_')]


def run(ctx) -> None:
    ctx.rule = ('cases are byte strings / values / client streams generated from one PRNG (seed): '
                'structured mostly-valid inputs (printed values, spelled arguments, command lines) '
                'with tails, a mutated stream, raw strings over small alphabets, and sweeps (every '
                'byte value, or in the quick tier every lexically interesting byte value, inserted '
                'at every position of base inputs; all strings over small alphabets up to a small '
                'length); non-trivial = the implementation accepted the input; distinct = by input')
    ctx.assumptions += [
        're / int / bytes / str.encode / bytes.decode("utf-7") / base64 / datetime.strptime of '
        'CPython 3.12 are the semantics of the implementation side',
        'datetime.strptime is modelled for the C locale (month names Jan..Dec, %X = %H:%M:%S)',
        'numerals of 4300 digits or more (int() limit) are outside the model',
        'mailbox names are sequences of Unicode scalar values (no lone surrogates)',
    ]
    mods = _modules()
    checkers = ['Wire/SeqSetCheck']
    for m in mods:
        checkers += list(getattr(m, 'CHECKERS', []))
    import time
    timing = ctx.extra.setdefault('timing_s', {})
    t = time.time()
    ctx.check_proofs(checkers)
    timing['proofs'] = round(time.time() - t, 1)
    for sec in SECTIONS:
        t = time.time()
        sec(ctx)
        timing['seqset'] = round(time.time() - t, 1)
    for m in mods:
        t = time.time()
        m.section(ctx)
        timing[m.__name__.rsplit('.', 1)[-1]] = round(time.time() - t, 1)
    t = time.time()
    flush(ctx)      # evaluate every queued correspondence, several coqc at a time
    timing['coq_cases'] = round(time.time() - t, 1)


def replay(ctx, obj) -> int:
    """re-run the monitors on the input recorded in a replay file"""
    import json
    print(json.dumps({k: obj.get(k) for k in ('clause', 'what', 'observation')}, indent=1))
    for m in _modules():
        fn = getattr(m, 'replay', None)
        if fn is not None and fn(ctx, obj):
            break
    else:
        if 'input' in obj and 'class' not in obj:
            buf = bytes.fromhex(obj.get('input', ''))
            print('input', buf, '->', impl_parse(buf))
    for v in ctx.violations:
        print('STILL FAILING:', v['clause'], '-', v['what'][:300])
    for k, h in ctx.known_hits.items():
        print('KNOWN-FINDING:', k, h['first'][:300])
    if not ctx.violations and not ctx.known_hits:
        print('replayed input no longer fails')
    return 1 if ctx.violations else 0
