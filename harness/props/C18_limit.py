"""C18, section `limit`: spelling independence under a *configuration* and at
the size boundaries.

The four spellings (atom, quoted, {n}, {n+}) x literal sizes at the boundaries
0, 1, 4095/4096/4097 (String._MAX_LEN), max_append_len-1/=/+1 for servers
configured with a small Config(max_append_len=...) (APPENDLIMIT) x letter case
of the command word x every command that takes a string.

Model Cmd/FramingLimit.v (`serve_command`: Cmd/Framing.v's readline /
read_continuation + LiteralString._check_too_big under a configuration);
theorems C18_litplus_consumed_any_limit, C18_literal_limit_spelling.

Correspondence `serve_literal`: the real IMAPConnection.read_command of a
Config with the given max_append_len over a fake stream: refused?,
continuation requests, unread rest.

Monitor `limit_spelling` (live server, dict backend, written from the
statement + RFC 7888/7889): a literal may be refused for its size only above
4096 bytes (APPEND: above the advertised APPENDLIMIT); otherwise all spellings
and letter cases of one command get the same answer and leave the same state;
a {n+} literal is answered exactly like {n}; the command sent right behind is
the next thing the server answers (no byte of a literal is read as a command).
"""
from __future__ import annotations

import re

from .. import coqterm as T
from .C18_strings import B, queue

CHECKERS = ['Cmd/FramingLimitCheck']
HEADER = ('From PV Require Import Base.Prelude Wire.Lex Cmd.FramingLimit '
          'Cmd.FramingLimitCheck.\n')

NEXT = b'N1 NOOP\r\n'
DEFAULT = 1000000000

# (name, command word, bytes before the spelled argument, bytes after it, is the
#  argument a message (only literal spellings exist), live-server setup)
TEMPLATES = [
    ('login_user', b'LOGIN', b'', b' testpass', False, 'noauth'),
    ('login_pass', b'LOGIN', b'testuser ', b'', False, 'noauth'),
    ('create', b'CREATE', b'', b'', False, 'auth'),
    ('delete', b'DELETE', b'', b'', False, 'auth'),
    ('subscribe', b'SUBSCRIBE', b'', b'', False, 'auth'),
    ('unsubscribe', b'UNSUBSCRIBE', b'', b'', False, 'auth'),
    ('select', b'SELECT', b'', b'', False, 'auth'),
    ('examine', b'EXAMINE', b'', b'', False, 'auth'),
    ('rename_src', b'RENAME', b'', b' Other', False, 'auth'),
    ('rename_dst', b'RENAME', b'Trash ', b'', False, 'auth'),
    ('status', b'STATUS', b'', b' (MESSAGES UIDNEXT)', False, 'auth'),
    ('list_ref', b'LIST', b'', b' *', False, 'auth'),
    ('list_pat', b'LIST', b'"" ', b'', False, 'auth'),
    ('lsub_pat', b'LSUB', b'"" ', b'', False, 'auth'),
    ('copy', b'COPY', b'1 ', b'', False, 'selected'),
    ('uid_move', b'UID MOVE', b'101 ', b'', False, 'selected'),
    ('search_subject', b'SEARCH', b'SUBJECT ', b'', False, 'selected'),
    ('search_header', b'SEARCH', b'HEADER Subject ', b' UNSEEN', False, 'selected'),
    ('uid_search_text', b'UID SEARCH', b'TEXT ', b'', False, 'selected'),
    ('fetch_fields', b'FETCH', b'1 BODY.PEEK[HEADER.FIELDS (', b')]', False, 'selected'),
    ('append_msg', b'APPEND', b'INBOX ', b'', True, 'auth'),
    ('append_flags_msg', b'APPEND', b'Sent (\\Seen) ', b'', True, 'auth'),
    ('append_mbox', b'APPEND', b'', b' {5+}\r\nS: x\n', False, 'auth'),
]


def data_of(n: int, kind: int) -> bytes:
    """n bytes of argument data; kind 1 = lines that would run as commands
    (and look like literal markers) if they were ever read as such"""
    if kind == 0:
        return b'x' * n
    unit = b'S: 1\r\n\r\nZ9 CREATE injected\r\nab {2+}\r\nZ8 DELETE Trash\r\n'
    return (unit * (n // len(unit) + 1))[:n]


def case_of(word: bytes, k: int) -> bytes:
    if k == 0:
        return word
    if k == 1:
        return word.lower()
    return bytes(c ^ 0x20 if (i % 2 == 0 and 65 <= c <= 90) else c for i, c in enumerate(word))


def spell(v: bytes, kind: str) -> bytes | None:
    from .C18_strings import _is_astring_char
    if kind == 'atom':
        return v if v and all(_is_astring_char(c) for c in v) and b'}' not in v else None
    if kind == 'quoted':
        if b'\r' in v or b'\n' in v:
            return None
        return b'"' + v.replace(b'\\', b'\\\\').replace(b'"', b'\\"') + b'"'
    if kind == 'lit':
        return b'{%d}\r\n' % len(v) + v
    return b'{%d+}\r\n' % len(v) + v


def wire(tpl, word: bytes, v: bytes, kind: str, spaces: int = 1) -> bytes | None:
    name, _w, pre, post, _msg, _st = tpl
    s = spell(v, kind)
    if s is None:
        return None
    return b'T1' + b' ' * spaces + word + b' ' + pre + s + post + b'\r\n'


def sizes_for(mal, append: bool, quick: bool) -> list[int]:
    out = {0, 1, 2}
    if mal is not None and mal < 10 ** 6:
        out |= {max(mal - 1, 0), mal, mal + 1}
    if not quick or mal in (None, DEFAULT, 5000) or not append:
        out |= {4095, 4096, 4097}
    return sorted(out)


# ------------------------------------------------- correspondence: read_command
def lits_of(tpl, n: int, kind: str):
    """(plus?, n) of the literals in line order (the harness built the line)"""
    out = []
    if kind in ('lit', 'litplus'):
        out.append((kind == 'litplus', n))
    if tpl[0] == 'append_mbox':
        out.append((True, 5))
    return out


async def _corr(ctx, configs):
    from pymap.parsing.commands import InvalidCommand
    from .C18_cmdline import impl_read_command
    rng = ctx.rng
    cases, keep = [], []
    nbig = 0
    big_seen = 0
    big_cap = ctx.scale(40, 1500)
    for mal, config in configs:
        for tpl in TEMPLATES:
            append = tpl[1] == b'APPEND'
            for n in sizes_for(mal, append, ctx.quick):
                for kind in ('lit', 'litplus'):
                    # letter case / data shape / what follows: rotated, seeded
                    ck = rng.randrange(3)
                    dk = 1 if (tpl[4] or tpl[0].startswith(('search', 'login'))) and rng.random() < 0.6 else 0
                    v = data_of(n, dk)
                    line = wire(tpl, case_of(tpl[1], ck), v, kind, rng.choice((1, 1, 2)))
                    streams = [line + NEXT]
                    if kind == 'lit':
                        # the client that waits for the continuation request: when the
                        # server answers the bare line (no request), the data are never sent
                        i = line.index(b'}\r\n') + 3
                        first = await impl_read_command(config, line[:i])
                        if first is not None and first[2] == 0:
                            streams.append(line[:i] + NEXT)
                    if n > 1000:
                        # 4 kB streams are what costs coqc time: quick keeps a strided
                        # sample over all configurations / templates (the live monitor
                        # runs every big size); no PRNG draw depends on this
                        big_seen += 1
                        if nbig >= big_cap or (ctx.quick and big_seen % 29 != 0):
                            continue
                        nbig += len(streams)
                    for st in streams:
                        res = await impl_read_command(config, st)
                        if res is None:
                            exp = 'None'
                        else:
                            bad = isinstance(res[0], InvalidCommand)
                            exp = T.option(T.pair(T.boolean(bad), T.N(res[2]), B(res[1])))
                        lits = T.lst(T.pair(T.boolean(p), T.N(k)) for p, k in lits_of(tpl, n, kind))
                        cases.append(T.pair('None' if mal is None else T.option(T.N(mal)),
                                            T.boolean(append), lits, B(st), exp))
                        keep.append((mal, tpl[0], st))
                        ctx.count(('serve', mal, tpl[0], n, kind, st[:40]), nontrivial=res is not None)
    return cases, keep


# ------------------------------------------------------- monitor: live server
class _Tap:
    """records how many fed bytes were still unread when the tagged answer of
    T1 was written"""
    def __init__(self, conn):
        self.conn = conn
        self.unread = None
        orig = conn.write

        def write(data):
            if self.unread is None and bytes(data).startswith(b'T1 '):
                self.unread = len(conn.buf)
            orig(data)
        conn.write = write


async def live(mal_kw, setup: str, line: bytes):
    """one sibling on a fresh server: the command, then (pipelined when the
    spelling allows) the next command; probes of the resulting state"""
    from ..pymap_env import DictEnv
    from .C18_cmdline import canon
    env = await DictEnv().start(**mal_kw)
    conn = await env.connect()
    caps = b''
    if setup != 'noauth':
        caps = await conn.send(b'l0 LOGIN testuser testpass\r\n')
        assert b'l0 OK' in caps, caps
    if setup == 'selected':
        await conn.send(b's2 SELECT INBOX\r\n')
    tap = _Tap(conn)
    out = b''
    pos = 0
    refused = False
    for m in re.finditer(rb'\{(\d+)\}\r\n', line):
        # a synchronizing literal: the client waits for the continuation request
        if m.start() < pos:
            continue
        got = await conn.send(line[pos:m.end()])
        pos = m.end()
        out += got
        if not (got.startswith(b'+ ') or b'\r\n+ ' in got):
            refused = True
            break
        pos_end = pos + int(m.group(1))
        got = await conn.send(line[pos:pos_end]) if pos_end > pos else b''
        out += got
        pos = pos_end
    out += await conn.send(NEXT if refused else line[pos:] + NEXT)
    i = out.find(b'\r\nN1 ')
    first, nxt = (out, b'') if i < 0 else (out[:i + 2], out[i + 2:])
    if out.startswith(b'N1 '):
        first, nxt = b'', out
    state = b''
    if not conn.closed:
        if setup == 'noauth':
            state += await conn.send(b'p0 LOGIN testuser testpass\r\n')
        state += await conn.send(b'p1 LIST "" *\r\n')
        state += await conn.send(b'p2 LSUB "" *\r\n')
        state += await conn.send(b'p3 STATUS INBOX (MESSAGES UIDNEXT UNSEEN)\r\n')
        state += await conn.send(b'p4 STATUS Trash (MESSAGES UIDNEXT)\r\n')
    obs = dict(answer=canon(first, b'T1'), next=nxt, unread=tap.unread, closed=conn.closed,
               exc=repr(conn.exc) if conn.exc else None, state=canon(state, b'p'),
               greeting=bytes(conn.greeting) + caps, raw=out)
    await conn.send_eof()
    return obs


def advertised_limit(obs, append: bool):
    """the size above which the server may refuse a literal: 4096 (pymap's
    documented string limit), for APPEND the advertised APPENDLIMIT"""
    if not append:
        return 4096
    m = re.search(rb'APPENDLIMIT=(\d+)', obs['greeting'] + obs['raw'])
    return int(m.group(1)) if m else None


def monitor_sizes(mal, append: bool, quick: bool) -> list[int]:
    """quick tier: the boundaries of the limit that applies and of the one that
    does not, small enough for every (configuration, template, size) to be run"""
    if not quick:
        return sizes_for(mal, append, quick)
    if append:
        if mal == 100:
            return [0, 1, 99, 100, 101]
        if mal == 5000:
            return [4097, 4999, 5000, 5001]
        return [0, 1, 4096, 4097]
    if mal == 100:
        return [0, 101, 4097]
    if mal == 5000:
        return [4097, 5001]
    return [0, 1, 4096, 4097]


def monitor(ctx, mals) -> None:
    from ..pymap_env import run
    rng = ctx.rng
    nruns = 0
    budget = ctx.scale(900, 6000)
    plan = []
    for mal in mals:
        for tpl in TEMPLATES:
            append = tpl[1] == b'APPEND'
            if ctx.quick and mal == 5000 and not append and tpl[0] not in ('create', 'login_pass', 'search_subject'):
                continue
            for n in monitor_sizes(mal, append, ctx.quick):
                plan.append((mal, tpl, n))
    # every template x configuration first with the boundary sizes of its limit, seeded order
    rng.shuffle(plan)

    def prio(p):
        mal, tpl, n = p
        lim = mal if tpl[1] == b'APPEND' and mal is not None else 4096
        return 0 if n in (0, lim + 1) else (1 if n in (lim, 1) else 2)
    plan.sort(key=prio)
    for mal, tpl, n in plan:
        if nruns >= budget:
            break
        append = tpl[1] == b'APPEND'
        kw = {} if mal == DEFAULT else {'max_append_len': mal}
        dk = 1 if tpl[4] else 0
        v = data_of(n, dk)
        sibs = []
        kinds = ('lit', 'litplus') if tpl[4] else ('lit', 'litplus', 'quoted', 'atom')
        for j, kind in enumerate(kinds):
            cases_ = (0, 1, 2) if (append and kind != 'atom') else ((j + n) % 3,)
            if n > 1000 and kind in ('quoted', 'atom') and tpl[0] not in ('create', 'login_pass'):
                continue
            for ck in cases_:
                line = wire(tpl, case_of(tpl[1], ck), v, kind)
                if line is None:
                    continue
                try:
                    obs = run(live(kw, tpl[5], line), timeout=60)
                except Exception as exc:
                    obs = dict(answer=[b'<no answer: %s>' % type(exc).__name__.encode()], next=b'',
                               unread=None, closed=None, exc=None, state=[], greeting=b'', raw=b'')
                nruns += 1
                sibs.append((kind, ck, line, obs))
        ctx.count(('limit_e2e', mal, tpl[0], n), nontrivial=len(sibs) > 1)
        if not sibs:
            continue
        ref = sibs[0]          # the {n} spelling, command word as in the RFC

        def show(s):
            return (f'{s[2][:70]!r}{"..." if len(s[2]) > 70 else ""} -> {repr(s[3]["answer"])[:400]}, then '
                    f'{s[3]["next"][:120]!r}, unread {s[3]["unread"]}')

        def fail(what, s):
            ctx.failure('literal_limit_spelling',
                        f'limit/{tpl[0]} (max_append_len={mal}, {n} bytes): {what}: {show(s)}  '
                        f'vs  {show(ref)}',
                        {'section': 'limit', 'template': tpl[0], 'max_append_len': mal, 'n': n,
                         'line_a': ref[2].hex(), 'line_b': s[2].hex(), 'setup': tpl[5]},
                        {'kind': 'limit_sibling', 'template': tpl[0]})
        lim = advertised_limit(ref[3], append)
        tagged = [r for r in ref[3]['answer'] if r.startswith(b'TAG ')]
        ref_refused = bool(tagged) and tagged[-1].startswith(b'TAG BAD')
        if ref_refused and (lim is None or n <= lim):
            fail(f'a literal of {n} bytes within the limit {lim} is refused', ref)
            continue
        for s in sibs:
            kind, ck, line, obs = s
            # RFC 7888: the literal is consumed; the next command is answered next
            if obs['closed'] is False and not (obs['next'].startswith(b'N1 OK') and obs['next'].count(b'\r\n') == 1):
                fail('the command sent right behind is not the next thing answered', s)
                break
            if obs['unread'] not in (None, 0, len(NEXT)):
                fail('bytes of the command are still unread when it is answered', s)
                break
            same = (obs['answer'], obs['state'], obs['closed'], obs['exc']) == \
                (ref[3]['answer'], ref[3]['state'], ref[3]['closed'], ref[3]['exc'])
            if kind in ('lit', 'litplus') or not ref_refused:
                if not same:
                    fail('siblings are answered differently', s)
                    break
    ctx.extra['limit_e2e'] = {'sibling_runs': nruns}


def section(ctx) -> None:
    from ..pymap_env import DictEnv, run
    mals_corr = [None, 0, 1, 7, 100, 4096, 5000, DEFAULT] if not ctx.quick else [None, 1, 100, 5000, DEFAULT]

    async def corr():
        configs = []
        for mal in mals_corr:
            env = await DictEnv().start(**({} if mal == DEFAULT else {'max_append_len': mal}))
            assert env.config.parsing_params.max_append_len == mal
            configs.append((mal, env.config))
        return await _corr(ctx, configs)
    cases, keep = run(corr(), timeout=900)
    queue(ctx, 'serve_literal', HEADER,
          'option N * bool * list (bool * N) * bytes * option (bool * N * bytes)', cases, 'chk_serve',
          lambda i, keep=keep: {'max_append_len': keep[i][0], 'template': keep[i][1],
                                'stream': keep[i][2][:300].hex(), 'stream_len': len(keep[i][2])},
          pre=lambda i, keep=keep: _pre(ctx, keep[i]), shard=400)
    monitor(ctx, [100, 5000, DEFAULT] if ctx.quick else [100, 5000, DEFAULT, None, 1])


def _pre(ctx, k) -> None:
    """failing-input search for a disagreeing stream: the same stream on a live
    server configured alike must answer T1 once and N1 next"""
    from ..pymap_env import DictEnv, run
    mal, tname, st = k
    tpl = [t for t in TEMPLATES if t[0] == tname][0]

    async def go():
        env = await DictEnv().start(**({} if mal == DEFAULT else {'max_append_len': mal}))
        conn = await env.connect()
        if tpl[5] != 'noauth':
            await conn.send(b'l0 LOGIN testuser testpass\r\n')
        if tpl[5] == 'selected':
            await conn.send(b's2 SELECT INBOX\r\n')
        out = await conn.send(st)
        await conn.send_eof()
        return out
    if b'+}\r\n' not in st:
        return
    try:
        out = run(go(), timeout=30)
    except Exception as exc:
        out = b'<no answer: %s>' % type(exc).__name__.encode()
    lines = [ln for ln in out.split(b'\r\n') if ln and not ln.startswith(b'* ') or ln.startswith(b'* BAD')]
    if not (len(lines) == 2 and lines[0].startswith(b'T1 ') and lines[1].startswith(b'N1 OK')):
        ctx.failure('literal_limit_spelling',
                    f'limit/{tname} (max_append_len={mal}): the stream {st[:80]!r}... ({len(st)} bytes, '
                    f'one command with non-synchronizing literals, then N1 NOOP) is answered {out[:300]!r}',
                    {'section': 'limit_stream', 'template': tname, 'max_append_len': mal,
                     'stream': st.hex()}, {'kind': 'limit_stream', 'template': tname})


def replay(ctx, obj) -> bool:
    from ..pymap_env import run
    if obj.get('section') == 'limit_stream':
        _pre(ctx, (obj['max_append_len'], obj['template'], bytes.fromhex(obj['stream'])))
        return True
    if obj.get('section') != 'limit':
        return False
    mal = obj['max_append_len']
    kw = {} if mal == DEFAULT else {'max_append_len': mal}
    res = []
    for key in ('line_a', 'line_b'):
        line = bytes.fromhex(obj[key])
        obs = run(live(kw, obj['setup'], line), timeout=60)
        print(key, line[:80], '->', obs['answer'], 'then', obs['next'][:200], 'unread', obs['unread'])
        res.append(obs)
    a, b = res
    if (a['answer'], a['state']) != (b['answer'], b['state']) or \
            not all(o['next'].startswith(b'N1 OK') and o['next'].count(b'\r\n') == 1 for o in res):
        ctx.failure('literal_limit_spelling', 'limit siblings still differ / literal still not consumed',
                    obj, obj.get('observation', {}))
    return True
