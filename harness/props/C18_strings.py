"""C18, section `strings`: Atom / Nil / Number / QuotedString / LiteralString /
String / AString — model Wire/Strings.v, theorems C18_astring_spelling,
C18_quoted_roundtrip, C18_parsed_quoted_reserialise, ... (Props/C18.v).

Correspondence: every model function against the real class
(`X.parse(memoryview(buf), Params(...))`, `bytes(X(value))`).
Monitors (written against the property statement, not the model):
  * reserialise: bytes(parsed object) is exactly the bytes that were consumed
    and parses again to the same value, leaving exactly what follows;
  * spelling: the atom / quoted / {n} / {n+} spellings of one value, after any
    number of spaces, parse to the same value and leave the same rest.
"""
from __future__ import annotations

from .. import coqterm as T

CHECKERS = ['Wire/StringsCheck']
HEADER = ('From PV Require Import Base.Prelude Wire.Lex Wire.Strings Wire.StringsCheck.\n')

PTYPE = '(bool * option N * bool)'


def B(b) -> str:
    """bytes -> Gallina term (Wire/Lex.v Bx): much cheaper for coqc to read
    than a list literal"""
    b = bytes(b)
    if not b:
        return '(@nil N)'
    if len(b) > 256:    # very long number literals overflow coqc's stack
        return '(' + ' ++ '.join(B(b[i:i + 256]) for i in range(0, len(b), 256)) + ')'
    return f'(Bx {len(b)} 0x{b.hex()})'


def thin(ctx, stream, cap_quick: int, keep: int = 150):
    """a seeded sample of a large de-duplicated stream (the first `keep`
    hand-picked inputs always stay): at most cap_quick inputs in the quick
    tier, twelve times as many (in practice: nearly everything) in the thorough tier"""
    stream = list(dict.fromkeys(stream))
    cap = cap_quick if ctx.quick else 12 * cap_quick
    if len(stream) <= cap:
        return stream
    head, tail = stream[:keep], stream[keep:]
    return head + ctx.rng.sample(tail, cap - keep)


def queue(ctx, name, header, typ, cases, checker, report, pre=None, shard=2500):
    """queue one correspondence (model vs implementation on `cases`); all queued
    correspondences are evaluated together by flush(), several coqc at a time.
    report(i) -> details of disagreeing case i; pre(i) = failing-input search
    run on a disagreeing case before it is reported"""
    if cases:
        ctx.__dict__.setdefault('_c18_jobs', []).append(
            (name, header, typ, list(cases), checker, report, pre, shard))


def flush(ctx, workers: int = 6) -> None:
    from concurrent.futures import ThreadPoolExecutor
    from .. import coqrun
    jobs = ctx.__dict__.pop('_c18_jobs', [])
    if not jobs:
        return

    def one(job):
        name, header, typ, cases, checker, _r, _p, shard = job
        # thorough: smaller shards and a generous per-shard limit (a loaded machine
        # must not turn a slow coqc into a spurious "did not evaluate")
        return coqrun.run_cases(ctx.prop, name, header, typ, cases, checker,
                                shard=shard if ctx.quick else 1000, jobs=4, timeout=1800)
    with ThreadPoolExecutor(max_workers=workers) as ex:
        results = list(ex.map(one, jobs))
    for job, res in zip(jobs, results):
        name, _h, _t, _c, _k, report, pre, _s = job
        # the bookkeeping of Ctx.run_cases
        ctx.traces_validated += res['n'] - len(res['bad'])
        entry = {'name': name, 'cases': res['n'], 'disagreements': len(res['bad']),
                 'wall_s': res['wall_s']}
        ctx.corr.append(entry)
        if res['errors']:
            entry['errors'] = res['errors'][:3]
            ctx.broken.append(f'correspondence {name}: case file did not evaluate: '
                              + res['errors'][0][-800:])
        if pre is not None:
            for i in res['bad'][:40]:
                pre(i)
        for i in res['bad'][:5]:
            ctx.disagreement(name, report(i))


# ------------------------------------------------------------------ impl side
def impl_parse(cls, buf: bytes, conts=(), append=False, maxapp=None, allow=True):
    from pymap.parsing import Params
    from pymap.parsing.exceptions import NotParseable
    from pymap.parsing.state import ParsingState, ParsingInterrupt
    st = ParsingState(continuations=[memoryview(c) for c in conts])
    params = Params(st, command_name=b'APPEND' if append else None,
                    max_append_len=maxapp, allow_continuations=allow)
    try:
        obj, rest = cls.parse(memoryview(buf), params)
    except NotParseable:
        return ('fail',)
    except ParsingInterrupt as exc:
        return ('need', exc.expected.literal_length)
    left = [bytes(c) for c in st.continuations]
    return ('ok', obj, bytes(rest), left)


def enc_params(append, maxapp, allow) -> str:
    return T.pair(T.boolean(append), T.option(None if maxapp is None else T.N(maxapp)),
                  T.boolean(allow))


def enc_xres(res, enc_val) -> str:
    if res[0] == 'fail':
        return 'XFail'
    if res[0] == 'need':
        return f'(XNeed {T.N(res[1])})'
    return f'(XOk {enc_val(res[1])} {B(res[2])} {T.lst(B(c) for c in res[3])})'


# ----------------------------------------------------------------- generators
def small_strings(alphabet: bytes, maxlen: int):
    out = [b'']
    frontier = [b'']
    for _ in range(maxlen):
        frontier = [s + bytes([c]) for s in frontier for c in alphabet]
        out.extend(frontier)
    return out


INTERESTING = sorted(set(b'"\\{}+~ \r\n\t\x00()%*][09azAZ&-,/:.=\x7f\x80\xe9\xff\x1f!|^_`\'#$'))


def sweep(bases, values=None, substitute=True):
    """every byte value (all 256, or the INTERESTING ones) inserted at /
    substituted for every position"""
    values = range(256) if values is None else values
    out = []
    for base in bases:
        for k in range(len(base) + 1):
            for c in values:
                out.append(base[:k] + bytes([c]) + base[k:])
                if substitute and k < len(base):
                    out.append(base[:k] + bytes([c]) + base[k + 1:])
    return out


def mutate(rng, s: bytes, pool: bytes) -> bytes:
    s = bytearray(s)
    for _ in range(rng.randint(1, 3)):
        k = rng.randrange(len(s) + 1)
        c = rng.choice(pool) if rng.random() < 0.7 else rng.randrange(256)
        op = rng.random()
        if op < 0.4:
            s.insert(k, c)
        elif op < 0.7 and s:
            del s[min(k, len(s) - 1)]
        elif s:
            s[min(k, len(s) - 1)] = c
    return bytes(s)


def gen_value(rng) -> bytes:
    r = rng.random()
    if r < 0.3:
        return bytes(rng.choice(b'abcXYZ019.-_]') for _ in range(rng.randint(1, 8)))
    if r < 0.6:
        return bytes(rng.choice(b'ab "\\{}()%*+~]\t\x7f\xe9\x00') for _ in range(rng.randint(0, 8)))
    if r < 0.8:
        return bytes(rng.choice(b'a\r\n"\\ {3+}') for _ in range(rng.randint(0, 8)))
    if r < 0.9:
        return bytes(rng.randrange(256) for _ in range(rng.randint(0, 12)))
    return rng.choice([b'', b'INBOX', b'NIL', b'nil', b'123', b'{3}', b'{3+}', b'ab{2+}',
                       b'a' * 63, b'a' * 64, b'a' * 200, b'\\', b'"', b'\r', b'\n', b'\x00'])


def spellings(v: bytes, p=None):
    """(kind, line bytes, continuation payload or None) for every spelling the
    grammar allows for v (independent of the implementation)"""
    out = []
    if v and all(_is_astring_char(c) for c in v):
        out.append(('atom', v, None))
    if b'\r' not in v and b'\n' not in v:
        out.append(('quoted', b'"' + v.replace(b'\\', b'\\\\').replace(b'"', b'\\"') + b'"', None))
    if len(v) <= 4096:
        out.append(('lit', b'{%d}\r\n' % len(v), v))
        out.append(('litplus', b'{%d+}\r\n' % len(v) + v, None))
    return out


def _is_astring_char(c: int) -> bool:
    # RFC 3501 ASTRING-CHAR = ATOM-CHAR / resp-specials("]"); written from the RFC
    if c <= 0x20 or c >= 0x7f:
        return False
    return chr(c) not in '(){%*"\\'


# -------------------------------------------------------------------- monitors
def monitor_reserialise(ctx, cls, buf: bytes, res, conts) -> None:
    """bytes(parsed object) = the bytes consumed; parsing them again in another
    context gives the same value and leaves exactly the new tail."""
    from pymap.parsing.primitives import LiteralString
    obj, rest = res[1], res[2]
    raw = bytes(obj)
    value = obj.value
    name = cls.__name__
    first = buf.lstrip(b' ')[:1]
    if name == 'AString':
        is_literal = first == b'{'
    else:
        is_literal = isinstance(obj, LiteralString)
    if not is_literal:
        start = len(buf) - len(buf.lstrip(b' '))
        consumed = buf[start:len(buf) - len(rest)] if not conts or res[3] == list(conts) else None
        if consumed is not None and raw != consumed:
            ctx.failure('string_reserialise',
                        f'{name}: bytes(parsed) = {raw!r} but the bytes consumed were {consumed!r}',
                        {'class': name, 'input': buf.hex()},
                        {'kind': 'raw_not_consumed_bytes', 'class': name})
            return
        for tail in (b'', b' x', b')', b'\r\n'):
            if name == 'AString' and raw == value and tail[:1] not in (b'', b' ', b')', b'\r'):
                continue
            again = impl_parse(cls, raw + tail)
            if again[0] != 'ok' or again[1].value != value or again[2] != tail:
                ctx.failure('string_reserialise',
                            f'{name}: bytes(parsed) = {raw!r} does not parse back before {tail!r}',
                            {'class': name, 'input': buf.hex(), 'tail': tail.hex()},
                            {'kind': 'raw_reparse', 'class': name})
                return
    else:
        # a literal is serialised as a synchronizing literal: prefix, CRLF, payload
        k = raw.index(b'}\r\n') + 3
        prefix, payload = raw[:k], raw[k:]
        for tail in (b'', b' x\r\n'):
            again = impl_parse(cls, prefix, conts=[payload + tail])
            if again[0] != 'ok' or again[1].value != value or again[2] != tail or again[3]:
                ctx.failure('string_reserialise',
                            f'{name}: literal {raw[:40]!r} does not parse back before {tail!r}',
                            {'class': name, 'input': buf.hex(), 'tail': tail.hex()},
                            {'kind': 'literal_reparse', 'class': name})
                return


def monitor_print_parse(ctx, v: bytes) -> None:
    """a value serialised by QuotedString / AString / String.build parses back"""
    from pymap.parsing.primitives import QuotedString, LiteralString, String
    from pymap.parsing.specials import AString
    plain = b'\r' not in v and b'\n' not in v
    for cls, obj in ((QuotedString, QuotedString(v)), (AString, AString(v)), (String, String.build(v))):
        printed = bytes(obj)
        if isinstance(obj, LiteralString):
            k = printed.index(b'}\r\n') + 3
            res = impl_parse(cls, printed[:k], conts=[printed[k:] + b' x'])
        elif not plain:
            continue      # a quoted string cannot carry CR / LF
        else:
            res = impl_parse(cls, printed + b' x')
        if res[0] != 'ok' or res[1].value != v or res[2] != b' x':
            ctx.failure('string_roundtrip',
                        f'{type(obj).__name__}({v[:30]!r}) prints {printed[:60]!r}, which parses back '
                        f'to {res[1].value[:30] if res[0] == "ok" else res!r}',
                        {'class': cls.__name__, 'value': v.hex()}, {'kind': 'print_parse'})


def monitor_spelling(ctx, v: bytes) -> int:
    from pymap.parsing.specials import AString
    n = 0
    for lead in (b'', b'  '):
        for tail in (b' next\r\n', b'\r\n', b')'):
            for kind, line, payload in spellings(v):
                if payload is None:
                    res = impl_parse(AString, lead + line + tail)
                else:
                    first = impl_parse(AString, lead + line)
                    if first != ('need', len(v)):
                        ctx.failure('astring_spelling',
                                    f'{kind} spelling of {v[:30]!r}: no continuation request',
                                    {'value': v.hex(), 'kind': kind}, {'kind': 'no_cont_request'})
                        continue
                    res = impl_parse(AString, lead + line, conts=[payload + tail])
                n += 1
                if res[0] != 'ok' or res[1].value != v or res[2] != tail or res[3]:
                    got = res[1].value if res[0] == 'ok' else res
                    obs = {'kind': 'spelling_value', 'spelling': kind}
                    if kind == 'atom' and b'}' in v:
                        obs = {'kind': 'atom_rbrace'}     # known finding C18-F3
                    ctx.failure('astring_spelling',
                                f'{kind} spelling of {v[:30]!r} before {tail!r} parsed to {got!r}',
                                {'value': v.hex(), 'kind': kind, 'lead': lead.hex(), 'tail': tail.hex()},
                                obs)
    return n


# --------------------------------------------------------------------- section
def section(ctx) -> None:
    from pymap.parsing import Parseable
    from pymap.parsing.primitives import Atom, Nil, Number, QuotedString, LiteralString, String
    from pymap.parsing.specials import AString, Tag
    rng = ctx.rng
    quick = ctx.quick
    vals_ = INTERESTING if quick else None
    SH = dict(shard=1500)

    # --- character classes: all 256 bytes
    cases = []
    for c in range(256):
        b = bytes([c])
        cases.append(T.pair(T.N(c), T.boolean(bool(Parseable._atom_pattern.fullmatch(b))),
                            T.boolean(bool(AString._pattern.fullmatch(b))),
                            T.boolean(bool(Tag._pattern.fullmatch(b)))))
        ctx.count(('class', c))
    queue(ctx, 'char_classes', HEADER, 'N * bool * bool * bool', cases, 'chk_class',
          lambda i: {'byte': i})

    # --- Atom / Nil / Number
    stream = small_strings(b'a1 N]', 4 if quick else 5) \
        + sweep([b'ab1 x', b' NIL)', b'12 3', b'nIl', b'007'], vals_, not quick) \
        + [mutate(rng, rng.choice([b' atom rest', b'NIL ', b'123 ', b'  ab]c']), b'aN1 ]"{\\')
           for _ in range(ctx.scale(300, 5000))]
    stream = thin(ctx, stream, 800)
    ca, cn, cm = [], [], []
    for buf in stream:
        ra = impl_parse(Atom, buf)
        ca.append(T.pair(B(buf), 'None' if ra[0] != 'ok' else
                         T.option(T.pair(B(ra[1].value), B(ra[2])))))
        rn = impl_parse(Nil, buf)
        cn.append(T.pair(B(buf), 'None' if rn[0] != 'ok' else T.option(B(rn[2]))))
        rm = impl_parse(Number, buf)
        cm.append(T.pair(B(buf), 'None' if rm[0] != 'ok' else
                         T.option(T.pair(T.N(rm[1].value), B(rm[2])))))
        ctx.count(('atom', buf), nontrivial=ra[0] == 'ok')
    for nm, typ, cs, chk in (('atom', 'bytes * option (bytes * bytes)', ca, 'chk_atom'),
                             ('nil', 'bytes * option bytes', cn, 'chk_nil'),
                             ('number', 'bytes * option (N * bytes)', cm, 'chk_number')):
        queue(ctx, nm, HEADER, typ, cs, chk, lambda i, stream=stream: {'input': stream[i].hex()})

    # --- QuotedString
    qbases = [b'"abc" x', b'  "a\\"b\\\\c"rest', b'""', b'"a b"\r\n', b'"\xe9\x00"']
    stream = small_strings(b'"\\a \r\n', 4 if quick else 6) + sweep(qbases, vals_, not quick) \
        + [mutate(rng, rng.choice(qbases), b'"\\a \r\n\x00') for _ in range(ctx.scale(400, 8000))] \
        + [lead + b'"' + gen_value(rng).replace(b'\\', b'\\\\').replace(b'"', b'\\"') + b'"' + tail
           for _ in range(ctx.scale(300, 6000))
           for lead in (rng.choice([b'', b' ', b'   ']),)
           for tail in (rng.choice([b'', b' ', b' x', b')', b'\r\n', b'"', b'"x"']),)]
    stream = thin(ctx, stream, 1600)
    cq = []
    for buf in stream:
        r = impl_parse(QuotedString, buf)
        ctx.count(('quoted', buf), nontrivial=r[0] == 'ok')
        if r[0] == 'ok':
            cq.append(T.pair(B(buf), T.option(T.pair(
                B(r[1].value), B(bytes(r[1])), B(r[2])))))
            monitor_reserialise(ctx, QuotedString, buf, r, ())
        else:
            cq.append(T.pair(B(buf), 'None'))
    ctx.sample({'quoted_input': stream[-1].decode('latin-1')})
    queue(ctx, 'quoted_parse', HEADER, 'bytes * option (bytes * bytes * bytes)', cq, 'chk_quoted',
          lambda i, stream=stream: {'input': stream[i].hex()})

    # --- LiteralString / String / AString with continuations and params
    lbases = [b'{3}\r\n', b'{3+}\r\nabcdef', b' ~{2}\n', b'{0}\r\n', b'{0+}\r\n x',
              b'{10+}\r\nshort', b'{4096}\r\n', b'{4097}\r\n', b'{4097+}\r\nx', b'{03}\r\n']
    sbases = lbases + qbases + [b'atom rest', b' in]box ', b'~{3}\r\n', b'a{3}\r\n', b'NIL']
    contsets = [(), (b'abc rest',), (b'ab',), (b'abcdef', b'second'), (b'', b'x')]
    paramsets = [(False, None, True), (False, None, False), (True, None, True),
                 (True, 2, True), (True, 5000, True), (False, 2, True)]
    stream = []
    for buf in sbases + sweep([b'{3}\r\n', b'~{12+}\n', b' {2+}\r\nab c'], vals_, not quick):
        for conts in (contsets if buf in sbases else contsets[:2]):
            for ps in (paramsets if buf in sbases else paramsets[:1]):
                stream.append((buf, conts, ps))
    for _ in range(ctx.scale(500, 10000)):
        v = gen_value(rng)
        sp = rng.choice(spellings(v) or [('quoted', b'""', None)])
        lead = rng.choice([b'', b' ', b'  '])
        tail = rng.choice([b'', b' x', b' {2}\r\n', b'\r\n', b')', b']'])
        ps = rng.choice(paramsets)
        if sp[2] is None:
            buf, conts = lead + sp[1] + tail, rng.choice(contsets[:2])
        else:
            buf, conts = lead + sp[1], rng.choice([(sp[2] + tail,), (sp[2] + tail, b'more'), (),
                                                   (sp[2][:-1],) if sp[2] else ()])
        if rng.random() < 0.3:
            buf = mutate(rng, buf, b'{}+~0123456789\r\n "\\')
        stream.append((buf, tuple(conts), ps))
    big = b'x' * 4096
    stream += [(b'{4096+}\r\n' + big + b' y', (), paramsets[0]), (b'{4096}\r\n', (big + b'z',), paramsets[0])]
    stream = thin(ctx, stream, 1200, keep=450)
    seen = set()
    cl, cs_, cas, keep = [], [], [], []
    for buf, conts, ps in stream:
        key = (buf, conts, ps)
        if key in seen:
            continue
        seen.add(key)
        keep.append(key)
        pre = T.pair(enc_params(*ps), T.lst(B(c) for c in conts), B(buf))
        rl = impl_parse(LiteralString, buf, conts, *ps)
        cl.append(T.pair(pre, enc_xres(rl, lambda o: T.pair(B(o.value), T.boolean(o.binary)))))
        rs = impl_parse(String, buf, conts, *ps)
        cs_.append(T.pair(pre, enc_xres(rs, lambda o: T.pair(B(o.value), B(bytes(o))))))
        ra = impl_parse(AString, buf, conts, *ps)
        cas.append(T.pair(pre, enc_xres(ra, lambda o: T.pair(B(o.value), B(bytes(o))))))
        ctx.count(('astring', key), nontrivial=ra[0] != 'fail')
        if len(buf) < 200:
            if rs[0] == 'ok' and ps[2]:
                monitor_reserialise(ctx, String, buf, rs, conts)
            if ra[0] == 'ok' and ps[2]:
                monitor_reserialise(ctx, AString, buf, ra, conts)
    ctx.sample({'astring_case': repr(keep[len(keep) // 2])})
    typ_l = f'{PTYPE} * list bytes * bytes * xres (bytes * bool)'
    typ_s = f'{PTYPE} * list bytes * bytes * xres (bytes * bytes)'
    for nm, typ, cs, chk in (('literal_parse', typ_l, cl, 'chk_literal'),
                             ('string_parse', typ_s, cs_, 'chk_string'),
                             ('astring_parse', typ_s, cas, 'chk_astring')):
        queue(ctx, nm, HEADER, typ, cs, chk,
              lambda i, keep=keep: {'input': keep[i][0].hex(), 'conts': [c.hex() for c in keep[i][1]],
                                    'params': keep[i][2]})

    # --- printers
    vals = list(dict.fromkeys(
        small_strings(b'a"\\ ]', 3) + [bytes([c]) for c in range(256)]
        + [b'a' * 63, b'a' * 64, b'a\nb', b'a\rb', b'a\x00b', b'x' * 300]
        + [gen_value(rng) for _ in range(ctx.scale(300, 2500))]))
    cp, cpl = [], []
    for v in vals:
        cp.append(T.pair(B(v), B(bytes(QuotedString(v))), B(bytes(AString(v)))))
        for binary in (False, True):
            built = String.build(v, binary)
            cpl.append(T.pair(T.boolean(binary), B(v), B(bytes(LiteralString(v, binary))),
                              T.boolean(isinstance(built, QuotedString)), B(bytes(built))))
        ctx.count(('print', v))
        monitor_print_parse(ctx, v)
    queue(ctx, 'string_print', HEADER, 'bytes * bytes * bytes', cp, 'chk_print_q',
          lambda i, vals=vals: {'value': vals[i].hex()})
    queue(ctx, 'literal_print', HEADER, 'bool * bytes * bytes * bool * bytes', cpl, 'chk_print_l',
          lambda i, vals=vals: {'value': vals[i // 2].hex(), 'binary': bool(i % 2)})

    # --- spelling monitor on the parser: all applicable spellings agree
    n = 0
    for v in vals[:ctx.scale(400, 2500)] + [b'y' * 4096, b'"' * 2048]:
        n += monitor_spelling(ctx, v)
    ctx.extra['strings'] = {'spelling_monitor_parses': n}


def replay(ctx, obj) -> bool:
    from pymap.parsing.primitives import QuotedString, String
    from pymap.parsing.specials import AString
    clause = obj.get('clause')
    if clause == 'string_reserialise':
        cls = {'QuotedString': QuotedString, 'String': String, 'AString': AString}[obj['class']]
        buf = bytes.fromhex(obj['input'])
        res = impl_parse(cls, buf)
        print('input', buf, '->', res[:1], getattr(res[1], 'value', None) if len(res) > 1 else None)
        if res[0] == 'ok':
            print('bytes(parsed) =', bytes(res[1]))
            monitor_reserialise(ctx, cls, buf, res, ())
        return True
    if clause == 'astring_spelling':
        monitor_spelling(ctx, bytes.fromhex(obj['value']))
        return True
    return False
