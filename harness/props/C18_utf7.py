"""C18, section `utf7`: modified UTF-7 and Mailbox — model Wire/ModUtf7.v,
theorems C18_modutf7_roundtrip, C18_mailbox_report_roundtrip (Props/C18.v).

Correspondence: py_utf7_decode against bytes.decode('utf-7'), modutf7_decode /
modutf7_encode / print_mailbox / parse_mailbox against the real functions and
`Mailbox`.  Monitor: decode(encode(s)) == s and the printed Mailbox parses back
to the (normalised) name, for all small strings over an alphabet with
'&', '-', '+', ',', controls, 8-bit, BMP and astral characters.
"""
from __future__ import annotations

import signal

from .. import coqterm as T
from .C18_strings import B, queue

CHECKERS = ['Wire/ModUtf7Check']
HEADER = ('From PV Require Import Base.Prelude Wire.Lex Wire.Strings Wire.StringsCheck '
          'Wire.ModUtf7 Wire.ModUtf7Check.\n')


class _Timeout(Exception):
    pass


def _alarm(*_a):
    raise _Timeout()


def guarded(fn, *args, seconds: float = 0.25):
    """run fn under a watchdog (modutf7_decode used to spin on some inputs)"""
    old = signal.signal(signal.SIGALRM, _alarm)
    signal.setitimer(signal.ITIMER_REAL, seconds)
    try:
        return ('ok', fn(*args))
    except _Timeout:
        return ('hang',)
    except UnicodeError:
        return ('unicode',)
    finally:
        signal.setitimer(signal.ITIMER_REAL, 0)
        signal.signal(signal.SIGALRM, old)


def enc_xstr(res) -> str:
    if res[0] == 'ok':
        return f'(XS {T.codepoints(res[1])})'
    return '(XE 1%N)' if res[0] == 'unicode' else '(XE 99%N)'


def small_unicode(alphabet: str, maxlen: int):
    out = ['']
    frontier = ['']
    for _ in range(maxlen):
        frontier = [s + c for s in frontier for c in alphabet]
        out.extend(frontier)
    return out


def gen_name(rng) -> str:
    pools = ['abcXYZ/._ ', '&-+,', '\t\n\r\x00\x01\x1f\x7f', '\x80\xe9\xff', '台北日本語ı€퟿￿',
             '\U00010000\U0001F600\U0010FFFF', 'inboxINBOXı']
    n = rng.randint(0, 8)
    w = [rng.random() for _ in pools]
    return ''.join(rng.choice(rng.choices(pools, w)[0]) for _ in range(n))


def is_scalar_str(s: str) -> bool:
    return not any(0xD800 <= ord(c) <= 0xDFFF for c in s)


def monitor_roundtrip(ctx, s: str) -> None:
    """the statement: the mUTF-7 spelling reported for a name decodes to it"""
    from pymap.parsing.modutf7 import modutf7_encode, modutf7_decode
    from pymap.parsing.specials import Mailbox
    from .C18_strings import impl_parse
    enc = modutf7_encode(s)
    back = guarded(modutf7_decode, enc)
    obs = {'kind': 'encode_decode'}
    if any(c in '\t\n\r' for c in s):
        obs['class'] = 'tab_cr_lf'
    elif '&' in s and any(not (0x20 <= ord(c) <= 0x7e) for c in s):
        obs['class'] = 'amp_after_shift'
    if back != ('ok', s):
        ctx.failure('modutf7_roundtrip',
                    f'modutf7_decode(modutf7_encode({s!r})) = {back!r} (encoded {enc!r})',
                    {'name': [ord(c) for c in s], 'encoded': enc.hex()}, obs)
        return
    if any(not (0x20 <= b <= 0x7e) for b in enc):
        ctx.failure('modutf7_roundtrip', f'modutf7_encode({s!r}) = {enc!r} is not printable ASCII',
                    {'name': [ord(c) for c in s], 'encoded': enc.hex()},
                    {'kind': 'encoded_not_printable'})
        return
    want = 'INBOX' if s.isascii() and s.upper() == 'INBOX' else s
    printed = bytes(Mailbox(s))
    for tail in (b'', b' (MESSAGES 1)\r\n', b'\r\n'):
        res = guarded(impl_parse, Mailbox, b' ' + printed + tail)
        if res[0] != 'ok' or res[1][0] != 'ok' or res[1][1].value != want or res[1][2] != tail:
            ctx.failure('mailbox_report_roundtrip',
                        f'Mailbox({s!r}) prints {printed!r}, which parses back to '
                        f'{res[1][1].value if res[0] == "ok" and res[1][0] == "ok" else res!r}',
                        {'name': [ord(c) for c in s], 'printed': printed.hex(), 'tail': tail.hex()},
                        {'kind': 'printed_name'})
            return


def section(ctx) -> None:
    from pymap.parsing.modutf7 import modutf7_encode, modutf7_decode
    from pymap.parsing.specials import Mailbox
    from .C18_strings import B, thin, impl_parse, sweep, small_strings, mutate, enc_xres, INTERESTING
    rng = ctx.rng
    quick = ctx.quick
    SH = dict(shard=1500)
    vals_ = INTERESTING if quick else None

    # --- bytes.decode('utf-7') against the state machine of the model
    bases = [b'+AOk-', b'+2D3eAA-x', b'a+-b', b'+AOkA6Q-', b'+AAA', b'+2D0-', b'+3gA-', b'x+AOk y']
    stream = small_strings(b'+-A/,x\xe9', 4 if quick else 5) + sweep(bases, vals_, not quick) \
        + [mutate(rng, rng.choice(bases), b'+-/,AOk26Qg=\x80 ') for _ in range(ctx.scale(300, 8000))]
    stream = thin(ctx, stream, 1600)
    cases = []
    for buf in stream:
        try:
            r = ('ok', buf.decode('utf-7'))
        except UnicodeDecodeError:
            r = ('unicode',)
        ctx.count(('utf7', buf), nontrivial=r[0] == 'ok')
        cases.append(T.pair(B(buf), enc_xstr(r)))
    queue(ctx, 'py_utf7_decode', HEADER, 'bytes * xstr', cases, 'chk_utf7',
          lambda i, stream=stream: {'input': stream[i].hex()})

    # --- modutf7_decode
    bases = [b'a&-b', b'&AOk-', b'x&2D3eAA-y', b'&U,BTFw-/&ZeVnLIqe-', b'&AOk', b'a&', b'&AOk-&-',
             b'&AAoA6Q-']
    stream = small_strings(b'&-A,x', 4 if quick else 6) + sweep(bases, vals_, not quick) \
        + [mutate(rng, rng.choice(bases), b'&-,/+AOk26Qg\x80 ') for _ in range(ctx.scale(500, 8000))] \
        + [modutf7_encode(gen_name(rng)) for _ in range(ctx.scale(200, 3000))]
    stream = thin(ctx, stream, 1300)
    cases, cm = [], []
    hangs = 0
    for buf in stream:
        r = guarded(modutf7_decode, buf)
        if r[0] == 'hang':
            hangs += 1
            ctx.failure('modutf7_decode_terminates', f'modutf7_decode({buf!r}) does not terminate',
                        {'input': buf.hex()}, {'kind': 'decode_hang'})
        ctx.count(('decode', buf), nontrivial=r[0] == 'ok')
        cases.append(T.pair(B(buf), enc_xstr(r)))
        for tail in ((b'', b' x') if len(cm) < 1000 or not quick else (b'',)):
            m = guarded(impl_parse, Mailbox, buf + tail)
            if m[0] == 'ok':
                cm.append(T.pair(B(buf + tail),
                                 enc_xres(m[1], lambda o: T.codepoints(o.value))))
            else:   # an exception other than NotParseable escaped Mailbox.parse
                cm.append(T.pair(B(buf + tail), '(XNeed 4294967295%N)'))
    queue(ctx, 'modutf7_decode', HEADER, 'bytes * xstr', cases, 'chk_decode',
          lambda i, stream=stream: {'input': stream[i].hex(),
                                    'impl': repr(guarded(modutf7_decode, stream[i]))})
    queue(ctx, 'mailbox_parse', HEADER, 'bytes * xres (list N)', cm, 'chk_mailbox',
          lambda i, cm=cm: {'case': cm[i][:300]})

    # --- modutf7_encode / bytes(Mailbox(s)) and the round-trip monitor
    alphabet = 'a&-\né\U0001F600' if quick else 'a&-+\n\t\x00é\U0001F600'
    names = small_unicode(alphabet, 4) \
        + small_unicode('inboxINBOXı', 0) \
        + ['inbox', 'InBoX', 'ınbox', 'INBOX', 'inbox ', 'Inbox/x', 'İnbox'] \
        + [chr(c) for c in list(range(0, 0x100)) + [0x131, 0x7ff, 0x800, 0xd7ff, 0xe000, 0xfffd,
                                                      0xffff, 0x10000, 0x10ffff]] \
        + [a + chr(c) + b for c in (0x9, 0xa, 0xd, 0x26, 0x2d, 0xe9, 0x1F600) for a in ('', 'x', 'é')
           for b in ('', 'y', '&', 'é')] \
        + [gen_name(rng) for _ in range(ctx.scale(400, 12000))]
    names = thin(ctx, names, 1000)
    cases, keep = [], []
    for s in names:
        ctx.count(('encode', s))
        if not is_scalar_str(s):
            continue
        monitor_roundtrip(ctx, s)
        keep.append(s)
        mb = Mailbox(s)
        cases.append(T.pair(T.codepoints(s), B(modutf7_encode(s)), B(bytes(mb)),
                            T.codepoints(mb.value)))
    ctx.sample({'name': keep[-1], 'encoded': modutf7_encode(keep[-1]).decode('ascii', 'replace')})
    queue(ctx, 'modutf7_encode', HEADER, 'list N * bytes * bytes * list N', cases, 'chk_encode',
          lambda i, keep=keep: {'name': [ord(c) for c in keep[i]],
                                'impl': modutf7_encode(keep[i]).hex()})
    ctx.extra['utf7'] = {'names': len(keep), 'decode_inputs': len(stream), 'decode_hangs': hangs}


def replay(ctx, obj) -> bool:
    if obj.get('clause') in ('modutf7_roundtrip', 'mailbox_report_roundtrip') and 'template' not in obj:
        s = ''.join(chr(c) for c in obj['name'])
        from pymap.parsing.modutf7 import modutf7_encode
        print('name', repr(s), 'encodes to', modutf7_encode(s))
        monitor_roundtrip(ctx, s)
        return True
    return False
