"""C18, section `flagdate`: Flag and DateTime — models Wire/Flag.v,
Wire/DateTime.v, theorems C18_flag_roundtrip, C18_datetime_roundtrip, ...

Correspondence: parse_flag / print_flag / parse_datetime / print_datetime
against Flag.parse, bytes(Flag(v)), DateTime.parse, bytes(DateTime(dt)).
Monitors: every flag / date-time the implementation parsed is serialised and
parsed again (same value, exact consumption); constructed date-times over the
whole range of years, months, leap days and zones round-trip.
"""
from __future__ import annotations

from datetime import datetime, timedelta, timezone

from .. import coqterm as T
from .C18_strings import B, queue

CHECKERS = ['Wire/FlagCheck', 'Wire/DateTimeCheck']
HEADER = ('From PV Require Import Base.Prelude Wire.Lex Wire.Strings Wire.StringsCheck '
          'Wire.Flag Wire.FlagCheck Wire.DateTime Wire.DateTimeCheck.\n')

MONTHS = ['Jan', 'Feb', 'Mar', 'Apr', 'May', 'Jun', 'Jul', 'Aug', 'Sep', 'Oct', 'Nov', 'Dec']


def off_us(d: datetime) -> int:
    o = d.utcoffset()
    return (o.days * 86400 + o.seconds) * 1000000 + o.microseconds


def fields(d: datetime):
    return (d.year, d.month, d.day, d.hour, d.minute, d.second, off_us(d), d.microsecond)


def enc_dt(d: datetime) -> str:
    return T.pair(T.N(d.year), T.N(d.month), T.N(d.day), T.N(d.hour), T.N(d.minute),
                  T.N(d.second), T.Z(off_us(d)))


def gen_datetime(rng) -> datetime:
    y = rng.choice([1, 9, 99, 999, 1000, 1900, 2000, 2024, 9999]) if rng.random() < 0.5 \
        else rng.randint(1, 9999)
    m = rng.randint(1, 12)
    last = 29 if m == 2 and (y % 4 == 0 and (y % 100 != 0 or y % 400 == 0)) else \
        (28 if m == 2 else (30 if m in (4, 6, 9, 11) else 31))
    d = rng.choice([1, 9, 10, last, rng.randint(1, last)])
    r = rng.random()
    if r < 0.6:
        off = timedelta(minutes=rng.choice([0, 1, -1, 59, 60, -330, 330, 1439, -1439,
                                            rng.randint(-1439, 1439)]))
    elif r < 0.8:
        off = timedelta(seconds=rng.randint(-86399, 86399))
    else:
        off = timedelta(microseconds=rng.randint(-86399999999, 86399999999))
    return datetime(y, m, d, rng.choice([0, 9, 10, 23, rng.randint(0, 23)]),
                    rng.choice([0, 9, 59, rng.randint(0, 59)]),
                    rng.choice([0, 9, 59, rng.randint(0, 59)]), tzinfo=timezone(off))


def gen_dt_text(rng) -> bytes:
    """a date-time string in one of the forms strptime accepts, or nearly"""
    y = rng.choice([0, 1, 999, 2000, 2023, 2024, 9999])
    m = rng.randint(1, 12)
    d = rng.choice([0, 1, 5, 9, 10, 28, 29, 30, 31, 32])
    day = rng.choice(['%02d' % d, '%d' % d, '%2d' % d])
    mon = MONTHS[m - 1]
    mon = rng.choice([mon, mon.lower(), mon.upper(), mon[:2] + 'x'])
    hh, mi, ss = rng.choice([0, 7, 19, 23, 24]), rng.choice([0, 5, 59, 60]), rng.choice([0, 9, 59, 60, 61, 62])
    t = rng.choice(['%02d:%02d:%02d', '%d:%d:%d']) % (hh, mi, ss)
    zh, zm = rng.choice([0, 5, 12, 23, 24, 99]), rng.choice([0, 30, 59, 60])
    z = rng.choice(['+%02d%02d', '-%02d%02d', '+%02d:%02d', '+%02d%02d30', '-%02d:%02d:15',
                    '+%02d%02d:15', '+%02d:%02d15', '+%02d%02d15.5', '-%02d%02d15.123456',
                    '+%02d%02d15.1234567', '+%02d%02d15.', 'Z%s%s', 'z%s%s']) % (zh, zm) \
        if rng.random() < 0.9 else rng.choice(['Z', 'z', '+0000', 'UTC', ''])
    z = z.replace('Z0', 'Z').replace('z0', 'z') if z[:1] in 'Zz' else z
    if z[:1] in 'Zz':
        z = z[:1]
    sep1 = rng.choice([' ', ' ', '  ', '\t', '\x1f', '\x0b ', ''])
    sep2 = rng.choice([' ', ' ', '  ', '\t', ''])
    return ('%s-%s-%04d%s%s%s%s' % (day, mon, y, sep1, t, sep2, z)).encode('latin-1')


def impl_dt_parse(buf: bytes):
    from pymap.parsing import Params
    from pymap.parsing.exceptions import NotParseable
    from pymap.parsing.specials import DateTime
    try:
        obj, rest = DateTime.parse(memoryview(buf), Params())
    except NotParseable:
        return None
    return obj, bytes(rest)


def monitor_dt_value(ctx, d: datetime, origin: str) -> None:
    """bytes(DateTime(value)) parses back to the value, whatever follows"""
    from pymap.parsing.specials import DateTime
    printed = bytes(DateTime(d))
    whole_minutes = off_us(d) % 60000000 == 0
    for tail in (b'', b' x', b')'):
        again = impl_dt_parse(printed + tail)
        ok = again is not None and again[1] == tail and \
            fields(again[0].value)[:6] == fields(d)[:6] and \
            (off_us(again[0].value) == off_us(d) if whole_minutes else
             abs(off_us(again[0].value) - off_us(d)) < 60000000)
        if not ok:
            ctx.failure('datetime_roundtrip',
                        f'{origin} {d.isoformat()} prints {printed!r}, which parses back to '
                        f'{again[0].value.isoformat() if again else None!r}',
                        {'fields': list(fields(d)), 'printed': printed.hex(), 'tail': tail.hex()},
                        {'kind': 'datetime_value', 'origin': origin})
            return


def section(ctx) -> None:
    from pymap.parsing.specials import Flag, DateTime
    from .C18_strings import B, thin, impl_parse, sweep, small_strings, mutate, INTERESTING
    rng = ctx.rng
    quick = ctx.quick
    SH = dict(shard=1500)
    vals_ = INTERESTING if quick else None

    # ------------------------------------------------------------------ Flag
    bases = [b'\\Seen x', b' \\seen)', b'$Forwarded ', b'\\ANSWERED', b'keyword]', b'  \\ Seen',
             b'\\*', b'\\\\x', b'NIL']
    stream = small_strings(b'\\aB ]', 4 if quick else 5) + sweep(bases[:4], vals_, not quick) + bases \
        + [mutate(rng, rng.choice(bases), b'\\ aZz$)]') for _ in range(ctx.scale(400, 6000))]
    stream = thin(ctx, stream, 1000)
    cases, values = [], {}
    for buf in stream:
        r = impl_parse(Flag, buf)
        ctx.count(('flag', buf), nontrivial=r[0] == 'ok')
        if r[0] != 'ok':
            cases.append(T.pair(B(buf), 'None'))
            continue
        v = r[1].value
        cases.append(T.pair(B(buf), T.option(T.pair(B(v), B(r[2])))))
        values.setdefault(v, buf)
        # monitor: serialise the parsed flag, parse it again
        printed = bytes(r[1])
        for lead in (b'', b' '):
            for tail in (b'', b' x', b')', b']'):
                again = impl_parse(Flag, lead + printed + tail)
                if again[0] != 'ok' or again[1].value != v or again[2] != tail or again[1] != r[1]:
                    ctx.failure('flag_roundtrip',
                                f'flag {printed!r} (parsed from {buf!r}) does not parse back '
                                f'before {tail!r}: {again!r}',
                                {'input': buf.hex(), 'printed': printed.hex(), 'tail': tail.hex()},
                                {'kind': 'flag_reparse'})
        # monitor: letter case of a system flag does not matter
        if v.startswith(b'\\'):
            for alt in (printed.upper(), printed.lower(), printed.swapcase()):
                again = impl_parse(Flag, alt + b' ')
                if again[0] != 'ok' or again[1].value != v:
                    ctx.failure('flag_roundtrip', f'system flag {alt!r} is not read as {v!r}',
                                {'input': alt.hex()}, {'kind': 'flag_case'})
    queue(ctx, 'flag_parse', HEADER, 'bytes * option (bytes * bytes)', cases, 'chk_flag_parse',
          lambda i, stream=stream: {'input': stream[i].hex()})
    fvals = list(values) + [b'\\seen', b'\\SEEN', b'\\*', b'\\', b'', b'$x', b'\\a-B', b'\xe9']
    cases = [T.pair(B(v), B(bytes(Flag(v)))) for v in fvals]
    queue(ctx, 'flag_print', HEADER, 'bytes * bytes', cases, 'chk_flag_print',
          lambda i, fvals=fvals: {'value': fvals[i].hex()})

    # -------------------------------------------------------------- DateTime
    bases = [b'"01-Jan-2000 01:02:03 +0000" x', b'" 5-feb-2024 1:2:3 -0530"', b'"29-Feb-2024 23:59:59 Z"',
             b'"31-Dec-9999 00:00:00 +23:59:59.999999"', b'"1-Mar-0001 10:20:30 +0100"']
    stream = sweep(bases[:2] if quick else bases, vals_, not quick) \
        + [b'"' + gen_dt_text(rng) + b'"' + rng.choice([b'', b' x', b')']) for _ in range(ctx.scale(800, 30000))] \
        + [mutate(rng, b'"' + gen_dt_text(rng) + b'"', b'0123456789:+-. ZJanFebMar"\\\t') for _ in range(ctx.scale(300, 10000))] \
        + [bytes(DateTime(gen_datetime(rng))) + rng.choice([b'', b' x']) for _ in range(ctx.scale(300, 5000))]
    stream = thin(ctx, stream, 1600)
    cases = []
    nparsed = 0
    for buf in stream:
        r = impl_dt_parse(buf)
        ctx.count(('datetime', buf), nontrivial=r is not None)
        if r is None:
            cases.append(T.pair(B(buf), 'None'))
            continue
        nparsed += 1
        obj, rest = r
        if obj.value.microsecond != 0:
            ctx.failure('datetime_roundtrip', f'parsed date-time {buf!r} has microseconds',
                        {'input': buf.hex()}, {'kind': 'microseconds'})
        cases.append(T.pair(B(buf), T.option(T.pair(enc_dt(obj.value), B(bytes(obj)),
                                                           B(rest)))))
        # monitor: the parsed object serialised and parsed again
        printed = bytes(obj)
        for tail in (b'', b' y'):
            again = impl_dt_parse(printed + tail)
            if again is None or again[1] != tail or fields(again[0].value) != fields(obj.value):
                ctx.failure('datetime_roundtrip',
                            f'parsed date-time {buf!r} serialises to {printed!r}, which parses to '
                            f'{again[0].value.isoformat() if again else None!r}',
                            {'input': buf.hex(), 'printed': printed.hex(), 'tail': tail.hex()},
                            {'kind': 'datetime_reparse'})
        # monitor: the value stored and printed later (INTERNALDATE): constructed form
        monitor_dt_value(ctx, obj.value, 'parsed value')
    ctx.sample({'datetime_input': stream[-1].decode('latin-1')})
    queue(ctx, 'datetime_parse', HEADER, 'bytes * option (dtup * bytes * bytes)', cases, 'chk_dt_parse',
          lambda i, stream=stream: {'input': stream[i].hex(), 'impl': repr(impl_dt_parse(stream[i]))})
    # constructed values: all months, first/last days, leap days, years 1..9999
    dts = []
    for y in (1, 4, 99, 100, 400, 999, 1000, 1900, 2000, 2023, 2024, 9999):
        for m in range(1, 13):
            for d in (1, 28, 29, 30, 31):
                try:
                    dts.append(datetime(y, m, d, 23, 59, 59, tzinfo=timezone(timedelta(minutes=-(y % 1440)))))
                except ValueError:
                    pass
    dts += [gen_datetime(rng) for _ in range(ctx.scale(500, 4000))]
    cases = []
    for d in dts:
        ctx.count(('dtprint', fields(d)))
        cases.append(T.pair(enc_dt(d), B(bytes(DateTime(d)))))
        monitor_dt_value(ctx, d, 'constructed value')
    queue(ctx, 'datetime_print', HEADER, 'dtup * bytes', cases, 'chk_dt_print',
          lambda i, dts=dts: {'fields': list(fields(dts[i]))})
    ctx.extra['flagdate'] = {'flag_values': len(values), 'datetime_inputs': len(stream),
                             'datetime_parsed': nparsed, 'datetime_values': len(dts)}


def replay(ctx, obj) -> bool:
    from pymap.parsing.specials import Flag
    from .C18_strings import impl_parse
    clause = obj.get('clause')
    if clause == 'flag_roundtrip':
        buf = bytes.fromhex(obj['input'])
        r = impl_parse(Flag, buf)
        print('input', buf, '->', r[0], r[1].value if r[0] == 'ok' else None)
        if r[0] == 'ok':
            again = impl_parse(Flag, bytes(r[1]) + bytes.fromhex(obj.get('tail', '')))
            if again[0] != 'ok' or again[1].value != r[1].value:
                ctx.failure(clause, f'still fails: {again!r}', obj, obj.get('observation', {}))
        return True
    if clause == 'datetime_roundtrip':
        if 'fields' in obj:
            y, mo, d, h, mi, s, off, us = obj['fields']
            val = datetime(y, mo, d, h, mi, s, us, tzinfo=timezone(timedelta(microseconds=off)))
            monitor_dt_value(ctx, val, obj.get('observation', {}).get('origin', 'constructed value'))
        else:
            buf = bytes.fromhex(obj['input'])
            r = impl_dt_parse(buf)
            print('input', buf, '->', r and r[0].value)
            if r:
                monitor_dt_value(ctx, r[0].value, 'parsed value')
        return True
    return False
