"""C11 — mailbox namespace commands behave as the reference model says.

Model: coq/theories/Namespace/{Glob,NsBase,ListTree,NsModel,MdModel}.v,
theorems in Props/C11.v.  Correspondence: the regex of ListTree._get_pattern
against Glob.model_match; ListTree.list/get/get_renames against the path-list
model; programs of namespace commands on the dict backend and the maildir
backend (both layouts) against NsModel.dstep / MdModel.mstep.  Monitor: an
independent RFC 3501 name-set model + glob matcher written here in Python.
"""
from __future__ import annotations

import asyncio
import itertools
import shutil
import tempfile

from .. import coqterm as T
from .. import nsutil as U
from .. import c11_subsfile as SF

HEADER = ('From PV Require Import Base.Prelude Namespace.Glob Namespace.NsBase '
          'Namespace.ListTree Namespace.NsModel Namespace.MdModel Namespace.NsCheck.\n')

MSG = b'From: a@b\r\nSubject: x\r\n\r\nhi\r\n'


# =====================================================================
# independent reference (monitor side): RFC 3501 6.3.8 glob, name set
# =====================================================================
def ref_glob(pat: str, name: str, delim: str = '/') -> bool:
    """'*' any characters, '%' any characters except the delimiter."""
    cur = {0}

    def close(s):
        s = set(s)
        todo = list(s)
        while todo:
            j = todo.pop()
            if j < len(pat) and pat[j] in '*%' and j + 1 not in s:
                s.add(j + 1)
                todo.append(j + 1)
        return s
    cur = close(cur)
    for ch in name:
        nxt = set()
        for j in cur:
            if j >= len(pat):
                continue
            p = pat[j]
            if p == '*' or (p == '%' and ch != delim):
                nxt.add(j)
            elif p not in '*%' and p == ch:
                nxt.add(j + 1)
        cur = close(nxt)
        if not cur:
            return False
    return len(pat) in cur


def ascii_lower(s: str) -> str:
    return ''.join(chr(ord(c) + 32) if 'A' <= c <= 'Z' else c for c in s)


def ref_match_entry(query: str, name: str) -> bool:
    if name == 'INBOX':
        return ref_glob(ascii_lower(query), 'inbox')
    return ref_glob(query, name)


def closure(names) -> set:
    out = set()
    for n in names:
        parts = n.split('/')
        for k in range(1, len(parts) + 1):
            out.add('/'.join(parts[:k]))
    return out


def ref_entries(names) -> dict:
    """name -> sorted attribute numbers (1 Noselect, 2 HasChildren, 3 HasNoChildren)"""
    names = set(names)
    cl = closure(names)
    res = {}
    for n in cl:
        kids = any(m != n and m.startswith(n + '/') for m in cl)
        res[n] = ([] if n in names else [1]) + [2 if kids else 3]
    return res


FS_RESERVED = ('new', 'cur', 'tmp', 'maildirfolder', 'dovecot-uidlist', 'dovecot-uidlist.lock',
               'dovecot-keywords', 'dovecot.sieve', 'subscriptions', 'subscriptions.lock')


def md_valid_name(layout: str, n: str) -> bool:
    """what a maildir store can represent (independent statement of the guard)"""
    if n == 'INBOX':
        return True
    for p in n.split('/'):
        if p in ('', '.', '..') or '/' in p:
            return False
        if any(ord(c) < 32 or ord(c) == 127 or 0xd800 <= ord(c) <= 0xdfff for c in p):
            return False
        if layout == '++' and '.' in p:
            return False
        if layout == 'fs' and p in FS_RESERVED:
            return False
    return True


class RefNs:
    """RFC 3501 name set: CREATE/DELETE/RENAME/SUBSCRIBE/UNSUBSCRIBE on a set
    of names; contents are tokens.  `backend` only decides which refusals a
    server of that kind is permitted (answer NO, change nothing)."""

    def __init__(self, backend: str, boxes: dict, ro=()):
        self.backend = backend
        self.layout = {'md++': '++', 'mdfs': 'fs'}.get(backend)
        self.boxes = dict(boxes)          # name -> token, without INBOX
        self.inbox = 'tok-inbox'
        self.subs: set = set()
        self.ro = set(ro)                 # tokens of read-only mailboxes
        self.msgs = {}                    # token -> appended count
        self.n = 0

    def norm(self, n: str) -> str:
        return 'INBOX' if ascii_lower(n) == 'inbox' else n

    def cname(self, n: str) -> str:
        """the name CREATE makes: a trailing hierarchy delimiter is only a
        declaration (RFC 3501 6.3.3)"""
        n = self.norm(n)
        if n.endswith('/') and n != '/':
            n = n[:-1]
        return self.norm(n)

    @staticmethod
    def inbox_variant_first(n: str) -> bool:
        first = n.split('/', 1)[0]
        return first != 'INBOX' and ascii_lower(first) == 'inbox'

    def fresh(self) -> str:
        self.n += 1
        return f'tok-{self.n}'

    def names(self) -> set:
        return set(self.boxes) | {'INBOX'}

    def get(self, n):
        return self.inbox if n == 'INBOX' else self.boxes.get(n)

    def permitted_refusal(self, op, cc) -> bool:
        k = op[0]
        md = self.layout is not None
        if cc == 104 and k == 'create' and self.inbox_variant_first(self.cname(op[1])):
            return True      # 'InBox/x': the inferiors of INBOX are spelled INBOX/...
        if cc == 104 and k == 'rename' and self.inbox_variant_first(self.norm(op[2])):
            return True
        if cc == 104 and k == 'subscribe' and self.inbox_variant_first(self.norm(op[1])):
            return True
        if cc == 104 and md:
            args = [self.norm(x) for x in op[1:]] if k not in ('list', 'lsub') else []
            if k == 'create':
                args = [self.cname(op[1])]
            if any(not md_valid_name(self.layout, a) for a in args):
                return True
            if k == 'rename' and args[1].startswith(args[0] + '/'):
                return True
            return False
        if cc == 106 and self.backend == 'mdfs' and k == 'delete':
            n = self.norm(op[1])
            return any(m.startswith(n + '/') for m in self.boxes)
        if cc == 102 and md and k == 'create':
            parts = self.cname(op[1]).split('/')
            upto = len(parts) if self.layout == 'fs' else len(parts) - 1
            return any('/'.join(parts[:i]) not in self.boxes for i in range(1, upto))
        if cc == 105 and k == 'append':
            return self.get(self.norm(op[1])) in self.ro
        return False

    def expect(self, op):
        """('ok', apply) or ('no', None): what RFC 3501 says"""
        k = op[0]
        if k == 'create':
            n = self.cname(op[1])
            if n in self.names():
                return 'no', None

            def ap():
                self.boxes[n] = self.fresh()
            return 'ok', ap
        if k == 'delete':
            n = self.norm(op[1])
            if n == 'INBOX' or n not in self.boxes:
                return 'no', None
            return 'ok', lambda: self.boxes.pop(n)
        if k == 'rename':
            a, b = self.norm(op[1]), self.norm(op[2])
            cl = closure(self.names())
            if b == 'INBOX' or a not in cl or b in cl:
                return 'no', None

            def ap():
                if a == 'INBOX':
                    self.boxes[b] = self.inbox
                    self.inbox = self.fresh()
                    return
                if self.layout is not None:
                    # RFC 3501 6.3.5/6.3.3: the server SHOULD create the superiors it needs
                    parts = b.split('/')
                    for i in range(1, len(parts)):
                        self.boxes.setdefault('/'.join(parts[:i]), self.fresh())
                moved = {}
                for m in list(self.boxes):
                    if m == a or m.startswith(a + '/'):
                        moved[b + m[len(a):]] = self.boxes.pop(m)
                self.boxes.update(moved)
            return 'ok', ap
        if k == 'subscribe':
            return 'ok', lambda: self.subs.add(self.norm(op[1]))
        if k == 'unsubscribe':
            return 'ok', lambda: self.subs.discard(self.norm(op[1]))
        if k in ('status', 'select'):
            return ('ok', lambda: None) if self.get(self.norm(op[1])) else ('no', None)
        if k == 'append':
            t = self.get(self.norm(op[1]))
            if t is None or t in self.ro:
                return 'no', None

            def ap():
                self.msgs[t] = self.msgs.get(t, 0) + 1
            return 'ok', ap
        return 'ok', lambda: None


# =====================================================================
# generators
# =====================================================================
PARTS = ['a', 'b', 'c', 'ab', 'A', 'x y', 'Sent', 'Trash', 'INBOX', 'inbox', 'InBox',
         'é', '日本', '*', '%', 'a*', 'a%b', '"q"', '\\', 'a\nb', '\n', 'b\n', '',
         '.', '..', 'a.b', '.a', '&', '&-', 'a&b', 'cur', 'new', 'tmp', '\x7f', 'a\tb', '~',
         '\U0001f600', '#x', '{3}', 'a b ', ' ']


TAME = ['a', 'b', 'c', 'ab', 'A', 'x y', 'é', '日本', 'Sent', 'q', 'InBox', 'a*', '&']


def gen_name(rng, pool=None, tame: float = 0.0) -> str:
    if rng.random() < tame:
        if pool and rng.random() < 0.5:
            base = rng.choice(pool)
            return base if rng.random() < 0.6 else base + '/' + rng.choice(TAME)
        return '/'.join(rng.choices(TAME, k=rng.choice([1, 1, 2, 2, 3])))
    r = rng.random()
    if pool and r < 0.45:
        return rng.choice(pool)
    if pool and r < 0.55:
        base = rng.choice(pool)
        return base + '/' + rng.choice(PARTS)
    depth = rng.choice([1, 1, 1, 2, 2, 3])
    weights = [6 if len(p) <= 2 and p.isalnum() else 1 for p in PARTS]
    parts = rng.choices(PARTS, weights=weights, k=depth)
    n = '/'.join(parts)
    if rng.random() < 0.06:
        n = rng.choice(['/' + n, n + '/', n.replace('/', '//', 1), '/', '//', ''])
    return n


def gen_query(rng, pool) -> tuple[str, str]:
    def pat_from(n: str) -> str:
        out = []
        for ch in n:
            r = rng.random()
            if r < 0.15:
                out.append('*')
            elif r < 0.3:
                out.append('%')
            elif r < 0.34:
                pass
            else:
                out.append(ch)
        if rng.random() < 0.3:
            out.append(rng.choice('*%'))
        return ''.join(out)
    r = rng.random()
    if r < 0.25:
        return '', rng.choice(['*', '%', '%/%', '*/*', '%*', 'a*', '*b', 'INBOX', 'inbox', 'In*', 'i%',
                               '*\n*', '%\n', 'a%', '*/%', ''])
    base = rng.choice(pool) if pool else gen_name(rng)
    if r < 0.6:
        return '', pat_from(base)
    # reference + pattern
    k = rng.randrange(len(base) + 1)
    ref = base[:k]
    if rng.random() < 0.3:
        ref = rng.choice(['inbox', 'INBOX', 'Inbox/', 'a/', 'a', '/', ''])
    return ref, pat_from(base[k:]) or rng.choice(['*', '%'])


# INBOX in another case and/or with stray trailing delimiters: after CREATE has
# dropped a delimiter these must still be recognised as the INBOX
INBOX_EDGE = ['inbox/', 'Inbox/', 'iNbOx/', 'INBOX/', 'Inbox//', 'inbox//', 'INBOX//', 'InBox/x/',
              'inbox/a', 'iNBOX/a/', 'INBOX/a/', 'Inbox']


def fixed_programs(backend: str) -> list:
    """run on every tier: every edge spelling of INBOX as CREATE / RENAME
    destination / SUBSCRIBE argument, the namespace listed after each"""
    progs = []
    for chunk in (INBOX_EDGE[:4], INBOX_EDGE[4:8], INBOX_EDGE[8:]):
        prog = [('create', 'zz')]
        for e in chunk:
            for op in (('create', e), ('subscribe', e), ('rename', 'zz', e), ('rename', e, 'yy')):
                prog += [op, ('list', '', '*'), ('lsub', '', '*')]
            prog += [('status', 'inbox'), ('select', e.rstrip('/')), ('delete', e.rstrip('/')),
                     ('list', '', '*'), ('status', 'zz')]
        progs.append(prog)
    # a source name that is a string prefix of a sibling that is not an inferior
    # (Work / Workshop, a / ab) under RENAME and DELETE
    L = [('list', '', '*')]
    names = ['a', 'ab', 'a/b', 'ab/c', 'Work', 'Workshop', 'Workshop/x', 'Work/y']
    prog = [('create', n) for n in names] + [('append', 'Workshop/x'), ('append', 'ab'), ('append', 'ab')] + L
    prog += [('rename', 'Work', 'Job')] + L + [('status', n) for n in ('Workshop', 'Workshop/x', 'Job', 'Job/y', 'Work')]
    prog += [('rename', 'a', 'q')] + L + [('status', n) for n in ('ab', 'ab/c', 'q', 'q/b', 'a')]
    prog += [('delete', 'q/b'), ('delete', 'q')] + L + [('status', n) for n in ('ab', 'ab/c')]
    prog += [('rename', 'ab', 'a')] + L + [('status', n) for n in ('a', 'a/c', 'ab')]
    prog += [('delete', 'Job/y'), ('delete', 'Job')] + L + [('status', 'Workshop/x')]
    progs.append(prog)
    # the empty-set boundary of the subscription list, seen from this session and
    # from a second one ('lsub2')
    S = [('lsub', '', '*'), ('lsub2', '', '*')]
    prog = [('create', 'a'), ('create', 'b')] + S
    prog += [('subscribe', 'a')] + S + [('unsubscribe', 'a')] + S
    prog += [('subscribe', 'b')] + S + [('subscribe', 'a')] + S
    prog += [('unsubscribe', 'b')] + S + [('unsubscribe', 'a')] + S
    prog += [('subscribe', 'INBOX')] + S + [('unsubscribe', 'INBOX')] + S + [('unsubscribe', 'zz')] + S
    progs.append(prog)
    # RENAME onto a name that is only a \\Noselect placeholder (it exists in the hierarchy because
    # it has inferiors: CREATE D/x without D, or DELETE D while D/x stays): the destination is
    # taken whether or not an inferior of the source collides with one of the placeholder
    L = [('list', '', '*')]
    prog = [('create', 'Archive/2023'), ('create', 'Old'), ('create', 'Old/2023'), ('append', 'Archive/2023'),
            ('append', 'Archive/2023'), ('append', 'Old/2023')] + L
    prog += [('rename', 'Old', 'Archive')] + L + [('status', n) for n in ('Archive/2023', 'Old/2023', 'Old')]
    prog += [('create', 'P/x'), ('create', 'S'), ('create', 'S/y'), ('rename', 'S', 'P')] + L
    prog += [('status', n) for n in ('P/x', 'S/y', 'P/y')]
    prog += [('create', 'D'), ('create', 'D/x'), ('append', 'D/x'), ('delete', 'D')] + L
    prog += [('create', 'E'), ('create', 'E/x'), ('rename', 'E', 'D')] + L
    prog += [('status', n) for n in ('D/x', 'E/x', 'E')]
    progs.append(prog)
    return progs


def gen_program(rng, backend: str, initial) -> list:
    pool = list(initial)
    prog = []
    n_ops = rng.randint(4, 9)
    tame = 0.0 if backend == 'dict' else 0.65
    sim = RefNs(backend, {n: n for n in initial})

    def advance(op):
        # keep an approximate picture of what exists, to aim later commands
        try:
            want, ap = sim.expect(op)
            if want == 'ok' and (sim.layout is None or all(
                    md_valid_name(sim.layout, sim.norm(x)) for x in op[1:])):
                ap()
        except Exception:
            pass

    def existing():
        return sorted(sim.boxes) or pool

    for _ in range(n_ops):
        r = rng.random()
        if rng.random() < 0.10:
            # delete-and-recreate / rename-and-recreate under the same name, looked at
            # before and after (a per-session cache must not serve the old mailbox)
            n = rng.choice(existing()) if existing() and rng.random() < 0.6 else gen_name(rng, None, 1.0)
            seq = [('create', n), ('append', n), ('status', n)]
            if rng.random() < 0.5:
                seq.append(('delete', n))
            else:
                q = gen_name(rng, None, 1.0)
                seq.append(('rename', n, q))
                pool.append(q)
            seq += [('create', n), ('status', n)]
            for o in seq:
                prog.append(o)
                advance(o)
            prog.append(('list', '', '*'))
            pool.append(n)
            continue
        if rng.random() < 0.05:
            e = rng.choice(INBOX_EDGE)
            src = rng.choice(existing()) if existing() else 'a'
            op = rng.choice([('create', e), ('create', e), ('subscribe', e), ('rename', src, e)])
            prog += [op, ('list', '', '*'), ('lsub', '', '*'), ('status', 'INBOX')]
            advance(op)
            continue
        if rng.random() < 0.07:
            # names with code points that some Python string function treats specially
            # (line boundaries of splitlines, Unicode white space, case / NFKC oddities, ...)
            for o in SF.exotic_ops(rng, backend, existing()):
                prog.append(o)
                advance(o)
            continue
        if backend != 'dict' and rng.random() < 0.04:
            # lone surrogates: no file name can hold them, maildir refuses them
            n = rng.choice(['\ud83d', 'a\udc00', '\udfff/b', 'a/\ud800b'])
            op = rng.choice([('create', n), ('subscribe', n), ('status', n), ('rename', 'a', n),
                             ('delete', n), ('append', n), ('unsubscribe', n)])
            prog.append(op)
            prog.append(('list', '', '*'))
            continue
        if r < 0.30:
            n = gen_name(rng, pool if rng.random() < 0.3 else None, tame)
            if backend == 'mdfs' and '/' in n and rng.random() < 0.6:
                # fs needs the parents first
                parts = n.split('/')
                for i in range(1, len(parts)):
                    prog.append(('create', '/'.join(parts[:i])))
                    advance(prog[-1])
            op = ('create', n)
            pool.append(n)
        elif r < 0.42:
            op = ('delete', rng.choice(existing()) if rng.random() < 0.6 and existing()
                  else gen_name(rng, pool))
        elif r < 0.62:
            a = gen_name(rng, pool + (['INBOX'] if rng.random() < 0.15 else []))
            if existing() and rng.random() < 0.6:
                a = rng.choice(existing())
                if rng.random() < 0.2 and '/' in a:
                    a = a.rsplit('/', 1)[0]
            b = gen_name(rng, pool if rng.random() < 0.25 else None, tame)
            if rng.random() < 0.1:
                b = a + '/' + rng.choice(['b', 'c/d'])
            elif rng.random() < 0.08:
                b = 'INBOX/' + rng.choice(TAME)
            op = ('rename', a, b)
            pool.append(b)
        elif r < 0.72:
            op = ('subscribe', gen_name(rng, pool))
        elif r < 0.77:
            op = ('unsubscribe', gen_name(rng, pool))
        elif r < 0.84:
            op = ('append', gen_name(rng, pool + ['INBOX']))
        elif r < 0.90:
            op = ('status', gen_name(rng, pool + ['INBOX', 'inbox']))
        elif r < 0.94:
            op = ('select', gen_name(rng, pool + ['INBOX']))
        else:
            q = gen_query(rng, pool)
            op = (rng.choice(['list', 'lsub']), q[0], q[1])
        prog.append(op)
        advance(op)
        # observe the whole namespace after every step
        prog.append(('list', '', '*'))
        prog.append(('lsub', '', '*'))
        if rng.random() < 0.5:
            q = gen_query(rng, pool)
            prog.append((rng.choice(['list', 'list', 'lsub']), q[0], q[1]))
        if rng.random() < 0.4 and pool:
            prog.append(('status', rng.choice(pool)))
    return prog


# =====================================================================
# driving the implementation
# =====================================================================
def wire_cmd(tag: bytes, op, w=None) -> bytes:
    k = op[0]
    w = w or U.wire_name
    if k == 'create':
        return tag + b' CREATE ' + w(op[1]) + b'\r\n'
    if k == 'delete':
        return tag + b' DELETE ' + w(op[1]) + b'\r\n'
    if k == 'rename':
        return tag + b' RENAME ' + w(op[1]) + b' ' + w(op[2]) + b'\r\n'
    if k == 'subscribe':
        return tag + b' SUBSCRIBE ' + w(op[1]) + b'\r\n'
    if k == 'unsubscribe':
        return tag + b' UNSUBSCRIBE ' + w(op[1]) + b'\r\n'
    if k == 'list':
        return tag + b' LIST ' + w(op[1]) + b' ' + w(op[2]) + b'\r\n'
    if k == 'lsub':
        return tag + b' LSUB ' + w(op[1]) + b' ' + w(op[2]) + b'\r\n'
    if k == 'status':
        return tag + b' STATUS ' + w(op[1]) + b' (MESSAGES UIDNEXT UIDVALIDITY MAILBOXID)\r\n'
    if k == 'select':
        return tag + b' EXAMINE ' + w(op[1]) + b'\r\n'
    if k == 'append':
        return tag + b' APPEND ' + w(op[1]) + b' {%d}\r\n' % len(MSG) + MSG + b'\r\n'
    raise ValueError(k)


class Runner:
    """One user session on one backend; runs ops, returns observations."""

    def __init__(self, env, hook, login_args=()):
        self.env = env
        self.hook = hook
        self.login_args = login_args
        self.conn = None
        self.aux = None
        self.k = 0
        self.idx_id: dict = {}
        self.idx_uv: dict = {}
        self.wire_log = []

    async def _conn(self, aux=False):
        c = self.aux if aux else self.conn
        if c is None or c.closed:
            c = await self.env.login(*self.login_args)
            if aux:
                self.aux = c
            else:
                self.conn = c
        return c

    def _index(self, table: dict, v):
        if v not in table:
            table[v] = len(table)
        return table[v]

    async def do(self, op):
        """-> (expect tuple for Coq, raw response, exception)"""
        self.k += 1
        tag = b't%d' % self.k
        conn = await self._conn(aux=(op[0] in ('select', 'lsub2')))
        if op[0] == 'lsub2':          # LSUB asked by a second session of the same user
            op = ('lsub',) + tuple(op[1:])
        self.hook.last = None
        resp = await conn.cmd(wire_cmd(tag, op))
        cc = U.classify(resp, tag)
        exc = conn.exc
        lines, st, nid = [], None, None
        wire = None
        if cc == 0 and op[0] in ('list', 'lsub'):
            lines = sorted(self.hook.last or [])
            wire = U.parse_list_wire(resp, op[0].upper().encode())
        if cc == 0 and op[0] == 'status':
            s = U.parse_status(resp)
            if s is None:
                cc = 997
            else:
                st = (self._index(self.idx_id, s['mailboxid']),
                      self._index(self.idx_uv, s['uidvalidity']), s['messages'], s['uidnext'])
        if cc == 0 and op[0] == 'create':
            mid = U.parse_mailboxid(resp)
            nid = self._index(self.idx_id, mid) if mid is not None else None
        return (cc, lines, st, nid), resp, exc, wire

    async def close(self):
        for c in (self.conn, self.aux):
            if c is not None and not c.closed:
                try:
                    await c.send(b'zz LOGOUT\r\n')
                except Exception:
                    pass


async def run_program(backend: str, prog, hook):
    """-> (initial description, [(op, expect, resp, exc, wire)])"""
    from ..pymap_env import DictEnv, MaildirEnv
    base = None
    if backend == 'dict':
        env = await DictEnv().start()
    else:
        import os
        from .C08 import TRACER
        base = os.path.realpath(tempfile.mkdtemp(prefix='pymapverif-c11-'))
        env = await MaildirEnv('++' if backend == 'md++' else 'fs', base_dir=base).start()
        # names like '..' must not be able to damage anything but this store,
        # whatever the tree under test does with them
        TRACER.install()
        TRACER.sandbox = base
    try:
        r = Runner(env, hook)
        init = []
        # initial state: LIST + STATUS of everything
        (cc, lines, _s, _n), _resp, _e, _w = await r.do(('list', '', '*'))
        assert cc == 0, (backend, _resp)
        for n, attrs in lines:
            if 1 in attrs:
                continue
            (cc, _l, st, _n2), _resp, _e, _w = await r.do(('status', n))
            assert cc == 0 and st is not None, (backend, n, _resp)
            ro = False
            if backend == 'dict':
                mset = env.config.set_cache['testuser'][0]
                mbx = mset._inbox if n == 'INBOX' else mset._set[n]
                ro = bool(mbx.readonly)
            init.append((n, st, ro))
        steps = []
        for op in prog:
            e, resp, exc, wire = await r.do(op)
            if op[0] == 'lsub2':
                op = ('lsub',) + tuple(op[1:])
            steps.append((op, e, resp, exc, wire))
        await r.close()
        return init, steps
    finally:
        env.close()
        if base:
            TRACER.sandbox = None
            shutil.rmtree(base, ignore_errors=True)


# =====================================================================
# monitor on one program run
# =====================================================================
def monitor_program(ctx, backend, prog_id, init, steps) -> None:
    boxes = {n: f'tok-init-{i}' for i, (n, _st, _ro) in enumerate(init) if n != 'INBOX'}
    ro = {boxes[n] for n, _st, r in init if r and n != 'INBOX'}
    ref = RefNs(backend, boxes, ro)
    tok_of_id: dict = {}
    id_of_tok: dict = {}
    uv_of_tok: dict = {}
    init_msgs: dict = {}
    for n, st, _r in init:
        t = ref.get(n)
        init_msgs[t] = st[2]
        tok_of_id[st[0]] = t
        id_of_tok[t] = st[0]
        uv_of_tok[t] = st[1]
    replay = {'backend': backend, 'program': [list(o) for o, *_ in steps]}

    def fail(clause, what, kind, **obs):
        ctx.failure(clause, f'[{backend}] {what}', dict(replay, step=obs.get('step')),
                    dict(kind=kind, backend=backend, **{k: v for k, v in obs.items() if k != 'step'}))

    desync = False
    for i, (op, e, resp, exc, wire) in enumerate(steps):
        cc, lines, st, nid = e
        k = op[0]
        if cc >= 997:
            fail('error_no_effect', f'{op!r} is answered without a tagged OK/NO: {resp[-120:]!r} {exc!r}',
                 'exception' if cc == 999 else 'bad', step=i, op=k)
            want, apply_ = ref.expect(op)
            continue
        if cc == 0 and k == 'list':
            # LIST never returns two entries the server resolves to the same mailbox:
            # whatever its case, a name spelled INBOX is the INBOX
            inboxes = [n for n, _a in lines if ascii_lower(n) == 'inbox']
            if len(inboxes) > 1 or (not inboxes and op[1] == '' and op[2] == '*'):
                fail('inbox_protected', f'LIST {op[1]!r} {op[2]!r} returns {len(inboxes)} entries that are '
                     f'the INBOX: {inboxes!r}', 'inbox_not_once', step=i)
        if desync:
            continue
        want, apply_ = ref.expect(op)
        if cc == 0:
            if want == 'no':
                fail('error_no_effect', f'{op!r} must be refused (tagged NO) but was accepted',
                     'accepted_' + k, step=i, op=k)
                # the reference is out of step from here on: only the clauses that do
                # not need it are still judged
                desync = True
                continue
            apply_()
        else:
            if want == 'ok' and not ref.permitted_refusal(op, cc):
                if k == 'rename' and ref.norm(op[1]) == 'INBOX' and cc == 104:
                    fail('rename_inbox', 'RENAME INBOX is refused (NO [CANNOT]) instead of moving the '
                         'messages and leaving an empty INBOX', 'rename_inbox_unsupported', step=i)
                else:
                    fail('error_no_effect', f'{op!r} was refused with code {cc} although RFC 3501 '
                         'lets it succeed', 'refused_' + k, step=i, op=k, code=cc)
        # observations
        if cc == 0 and k == 'list' and op[2] != '':
            want_e = {n: a for n, a in ref_entries(ref.names()).items()
                      if ref_match_entry(ref.norm(op[1]) + op[2], n)}
            got = {}
            dup = False
            for n, a in lines:
                if n in got:
                    dup = True
                got[n] = a
            if dup:
                fail('list_exact', f'LIST {op[1]!r} {op[2]!r} returns a name twice: {lines!r}',
                     'list_duplicate', step=i)
            for n in sorted(set(want_e) | set(got)):
                if want_e.get(n) != got.get(n):
                    fail('list_exact', f'LIST {op[1]!r} {op[2]!r}: name {n!r} expected '
                         f'{want_e.get(n)} got {got.get(n)} (existing: {sorted(ref.names())!r})',
                         'list_wrong', step=i)
                    break
        if cc == 0 and k == 'lsub' and op[2] != '':
            q = ref.norm(op[1]) + op[2]
            want_e = {n: a for n, a in ref_entries(ref.subs).items() if ref_match_entry(q, n)}
            got = dict(lines)
            if want_e != got or len(got) != len(lines):
                # the one known deviation: INBOX is always in the subscribed tree
                alt = {n: a for n, a in ref_entries(ref.subs | {'INBOX'}).items()
                       if ref_match_entry(q, n)}
                if alt == got and len(got) == len(lines):
                    fail('lsub_exact', 'LSUB lists INBOX although it is not subscribed',
                         'lsub_inbox_always', step=i)
                else:
                    fail('lsub_exact', f'LSUB {op[1]!r} {op[2]!r}: expected {sorted(want_e.items())!r} '
                         f'got {lines!r}; subscribed {sorted(ref.subs)!r}', 'lsub_wrong', step=i)
        if (k in ('list', 'lsub')) and cc == 0 and op[2] == '':
            if lines != [('', [1])]:
                fail('list_exact', f'LIST with an empty pattern must return the delimiter line: {lines!r}',
                     'list_empty_pattern', step=i)
        if cc == 0 and k == 'status':
            t = ref.get(ref.norm(op[1]))
            if True:
                if st[0] in tok_of_id and tok_of_id[st[0]] != t or \
                        t in id_of_tok and id_of_tok[t] != st[0]:
                    fail('rename_moves_subtree', f'STATUS {op[1]!r}: MAILBOXID does not follow the '
                         'mailbox the reference model has under this name', 'content_identity', step=i)
                tok_of_id.setdefault(st[0], t)
                id_of_tok.setdefault(t, st[0])
            if t in uv_of_tok and uv_of_tok[t] != st[1]:
                fail('rename_moves_subtree', f'STATUS {op[1]!r}: UIDVALIDITY changed for the same mailbox',
                     'uidvalidity_changed', step=i)
            uv_of_tok.setdefault(t, st[1])
            exp_msgs = init_msgs.get(t, 0) + ref.msgs.get(t, 0)
            if st[2] != exp_msgs:
                fail('rename_moves_subtree', f'STATUS {op[1]!r}: MESSAGES {st[2]} but the mailbox the '
                     f'reference model has there holds {exp_msgs}', 'messages_wrong', step=i)
        # wire-level cross-check of the hook (only when the printer is faithful)
        if wire is not None and cc == 0:
            try:
                wnames = sorted(U.mutf7_decode(raw) for raw, _a in wire)
            except Exception:
                wnames = None
            hnames = sorted(n for n, _a in lines)
            ok_print = all(_print_faithful(n) for n in hnames)
            if ok_print and wnames != hnames:
                if sorted(x.upper() if x.upper() == 'INBOX' else x for x in hnames) == wnames:
                    fail('list_exact', 'a superior name that is a case variant of INBOX is printed '
                         'as INBOX: the client sees INBOX twice', 'inbox_case_superior', step=i)
                else:
                    fail('list_exact', f'names on the wire {wnames!r} differ from the listed names '
                         f'{hnames!r}', 'wire_names', step=i)


def _print_faithful(n: str) -> bool:
    """does pymap's own printer encode this name so that a correct decoder
    gets it back?  (names with control characters are a C18 defect)"""
    from pymap.parsing.modutf7 import modutf7_encode
    try:
        return U.mutf7_decode(modutf7_encode(n)) == n
    except Exception:
        return False


# =====================================================================
# Coq evaluation jobs (run concurrently at the end of the Python work)
# =====================================================================
class Jobs:
    def __init__(self):
        self.jobs = []

    def add(self, name, header, typ, cases, chk, on_bad, **kw):
        self.jobs.append((name, header, typ, cases, chk, on_bad, kw))

    def run(self, ctx, workers=4):
        from concurrent.futures import ThreadPoolExecutor

        import os
        # case files are named after the job: a suffix keeps two checks that run
        # at the same time (same property, same .work/cases directory) apart
        sfx = f'_p{os.getpid()}'

        def one(j):
            name, header, typ, cases, chk, on_bad, kw = j
            return j, ctx.run_cases(name + sfx, header, typ, cases, chk, **kw)
        with ThreadPoolExecutor(max_workers=workers) as ex:
            for j, bad in ex.map(one, self.jobs):
                for i in bad[:5]:
                    j[5](i)
        for e in ctx.corr:
            if e['name'].endswith(sfx):
                e['name'] = e['name'][:-len(sfx)]
        ctx.broken[:] = [b.replace(sfx, '') for b in ctx.broken]
        self.jobs = []
        # leave no per-process case files behind
        d = os.path.join(os.path.dirname(os.path.dirname(os.path.dirname(os.path.abspath(__file__)))),
                         '.work', 'cases', ctx.prop)
        try:
            for f in os.listdir(d):
                if sfx + '_' in f:
                    os.unlink(os.path.join(d, f))
        except OSError:
            pass


JOBS = Jobs()


# =====================================================================
# sections
# =====================================================================
def sec_tables(ctx) -> None:
    """INBOX case folding of pymap.parsing.specials.Mailbox: exhaustive over
    every character whose upper() is a letter of INBOX, at every position"""
    from pymap.parsing.specials.mailbox import Mailbox
    cand = {u: [chr(c) for c in range(0x110000) if not 0xd800 <= c < 0xe000 and chr(c).upper() == u]
            for u in 'INBOX'}
    ctx.extra['inbox_fold_candidates'] = {u: [hex(ord(x)) for x in v] for u, v in cand.items()}
    names = [''.join(t) for t in itertools.product(*(cand[u] for u in 'INBOX'))]
    names += ['inbo', 'inboxx', 'İnbox', 'INBÖX', 'xINBOX', '', 'Inbox/a', 'inbox ', ' inbox',
              'INBOX\n', 'ｉnbox']
    for s in names:
        got = Mailbox(s).value
        ctx.count(('norm', s), nontrivial=got == 'INBOX')
        want = 'INBOX' if ascii_lower(s) == 'inbox' else s
        if got != want:
            ctx.failure('inbox_protected', f'the name {s!r} is read as {got!r}',
                        {'name': s}, {'kind': 'inbox_fold'})
    cases = [T.pair(U.enc_name(s), U.enc_name(Mailbox(s).value)) for s in names]
    JOBS.add('norm', HEADER + 'Definition chk_norm (c : name * name) : bool := '
             'name_eqb (norm (fst c)) (snd c).\n', 'name * name', cases, 'chk_norm',
             lambda i: ctx.disagreement('norm', {'name': names[i]}))


def impl_match(query: str, name: str) -> bool:
    from pymap.listtree import ListTree
    t = ListTree('/').update(name)
    return any(e.name == name for e in t.list_matching(query, ''))


def sec_glob(ctx) -> None:
    from pymap.listtree import ListTree
    rng = ctx.rng
    # (1) exhaustive: patterns over {a / * %} up to 5 (quick: 4) x names up to 4 over {a / b}
    pa = 'a/*%'
    na = 'a/b' if not ctx.quick else 'a/'
    maxp = ctx.scale(4, 5)
    names = [''.join(t) for k in range(0, 5) for t in itertools.product(na, repeat=k)]
    names = [n for n in names if n.upper() != 'INBOX']
    pats = [''.join(t) for k in range(0, maxp + 1) for t in itertools.product(pa, repeat=k)]
    cases = []
    keep = []
    for p in pats:
        cs, cre = ListTree('/')._get_pattern(p)
        got = [cs.match(n) is not None for n in names]
        for n, g in zip(names, got):
            if g != ref_glob(p, n):
                ctx.failure('list_exact', f'pattern {p!r} vs name {n!r}: listed={g}',
                            {'pattern': p, 'name': n}, {'kind': 'glob_wrong'})
        ctx.count(('glob_ex', p), nontrivial=any(got))
        cases.append(T.pair(U.enc_name(p), T.lst(T.boolean(g) for g in got)))
        keep.append(p)
    ex_keep = keep
    ns_def = ('Definition NS : list (list N) := ' + T.lst(U.enc_name(n) for n in names) + '.\n')
    JOBS.add('glob_exhaustive', HEADER + ns_def, 'list N * list bool', cases,
             'chk_glob_many NS', lambda i: ctx.disagreement('glob_exhaustive', {'pattern': ex_keep[i]}),
             shard=ctx.scale(120, 150))
    ctx.extra['glob_exhaustive'] = {'patterns': len(pats), 'names': len(names)}
    # (2) random patterns with odd characters, through list_matching (incl. INBOX rule)
    alphabet = ['a', 'b', '/', '*', '%', '\n', '.', '\\', '[', ']', '^', '$', '(', '|', '?', '+',
                'é', 'ı', 'I', 'i', 'N', 'n', 'B', 'O', 'X', 'x', ' ', '\r', '\x00', '-',
                '\U0001f600', '{', 'K', 'K']
    n = ctx.scale(800, 8000)
    cases, keep = [], []
    ci_cases, ci_keep = [], []
    for _ in range(n):
        q = ''.join(rng.choice(alphabet) for _ in range(rng.randint(0, 7)))
        r = rng.random()
        if r < 0.5:      # derive a name that probably matches
            nm = ''.join(rng.choice('ab/\n') * rng.randint(0, 2) if c in '*%' else c for c in q)
            if rng.random() < 0.3 and nm:
                k = rng.randrange(len(nm))
                nm = nm[:k] + rng.choice(alphabet) + nm[k + 1:]
        else:
            nm = ''.join(rng.choice(alphabet) for _ in range(rng.randint(0, 6)))
        nm = nm.replace('*', 'a').replace('%', 'b')
        if nm == 'INBOX':
            continue
        got = impl_match(q, nm)
        want = ref_glob(q, nm)
        ctx.count(('glob', q, nm), nontrivial=got)
        if got != want:
            ctx.failure('list_exact', f'pattern {q!r} vs name {nm!r}: listed={got}, RFC={want}',
                        {'pattern': q, 'name': nm}, {'kind': 'glob_wrong'})
        cases.append(T.pair(U.enc_name(q), U.enc_name(nm), T.boolean(got)))
        keep.append((q, nm))
        if rng.random() < 0.3:
            q2 = ''.join(rng.choice(['I', 'i', 'N', 'n', 'b', 'B', 'o', 'O', 'x', 'X', '*', '%',
                                     'ı', 'İ', '/', 'a', 'K'])
                         for _ in range(rng.randint(0, 6)))
            if rng.random() < 0.5:
                q2 = ''.join(c if rng.random() < 0.8 else rng.choice('*%') for c in
                             rng.choice(['INBOX', 'inbox', 'InBox', 'iNBOx']))
            g2 = impl_match(q2, 'INBOX')
            w2 = ref_glob(ascii_lower(q2), 'inbox')
            ctx.count(('glob_inbox', q2), nontrivial=g2)
            if g2 != w2:
                ctx.failure('list_exact', f'pattern {q2!r} vs INBOX: listed={g2}, RFC={w2}',
                            {'pattern': q2, 'name': 'INBOX'}, {'kind': 'glob_inbox_wrong'})
            ci_cases.append(T.pair(U.enc_name(q2), T.boolean(g2)))
            ci_keep.append(q2)
    # sweep: every interesting single character at every position of base queries/names
    for base_q, base_n in (('a*b', 'a\nb'), ('foo', 'foo\n'), ('a%', 'a\n'), ('%', '/'), ('*', '')):
        for c in ['\n', '\r', '/', 'a', '.', '*', '%', '\x00', ' ', '\x0b', '\x0c', '\x85']:
            for k in range(len(base_n) + 1):
                nm = (base_n[:k] + c + base_n[k:]).replace('*', 'a').replace('%', 'b')
                got = impl_match(base_q, nm)
                if got != ref_glob(base_q, nm):
                    ctx.failure('list_exact', f'pattern {base_q!r} vs name {nm!r}: listed={got}',
                                {'pattern': base_q, 'name': nm}, {'kind': 'glob_wrong'})
                ctx.count(('glob_sweep', base_q, nm), nontrivial=got)
                cases.append(T.pair(U.enc_name(base_q), U.enc_name(nm), T.boolean(got)))
                keep.append((base_q, nm))
    ctx.sample({'glob_case': repr(keep[-1])})
    JOBS.add('glob_random', HEADER, 'list N * list N * bool', cases, 'chk_glob',
             lambda i: ctx.disagreement('glob_random', {'query': keep[i][0], 'name': keep[i][1],
                                                        'impl': impl_match(*keep[i])}), shard=1000)
    JOBS.add('glob_inbox', HEADER, 'list N * bool', ci_cases, 'chk_glob_inbox',
             lambda i: ctx.disagreement('glob_inbox', {'query': ci_keep[i],
                                                       'impl': impl_match(ci_keep[i], 'INBOX')}),
             shard=600)


def sec_tree(ctx) -> None:
    """ListTree.update/list/get/get_renames against the path-list model"""
    from pymap.listtree import ListTree
    rng = ctx.rng
    n = ctx.scale(300, 3000)
    lc, gc, rc, keep = [], [], [], []
    small = ['', '/', '//', 'a', 'a/', '/a', 'a/b', 'a//b', 'a/b/c', 'b', 'INBOX', 'INBOX/a', 'b/a']
    for _ in range(n):
        k = rng.randint(0, 6)
        names = [rng.choice(small) if rng.random() < 0.6 else gen_name(rng) for _ in range(k)]
        t = ListTree('/').update(*names)
        lines = sorted((e.name, [U.ATTR[a] for a in e.attributes]) for e in t.list())
        lc.append(T.pair(T.lst(U.enc_name(x) for x in names) if names else '(@nil name)',
                         U.enc_lines(lines)))
        # monitor: no duplicate names, closure
        if sorted(x for x, _ in lines) != sorted(closure(names)):
            ctx.failure('list_exact', f'ListTree({names!r}).list() names {sorted(x for x, _ in lines)!r}',
                        {'names': names}, {'kind': 'tree_names'})
        a = rng.choice(names + small) if names else rng.choice(small)
        b = rng.choice(small + ['q', 'q/r', a + '/z'])
        e = t.get(a)
        gc.append(T.pair(T.lst(U.enc_name(x) for x in names) if names else '(@nil name)',
                         U.enc_name(a),
                         'None' if e is None else f'(Some {T.nlist([U.ATTR[x] for x in e.attributes])})'))
        try:
            ren = t.get_renames(a, b)
        except Exception as exc:
            ctx.failure('rename_moves_subtree', f'ListTree({names!r}).get_renames({a!r}, {b!r}) raises {exc!r}',
                        {'names': names, 'a': a, 'b': b}, {'kind': 'get_renames_exception'})
            ren = []
        rc.append(T.pair(T.lst(U.enc_name(x) for x in names) if names else '(@nil name)',
                         U.enc_name(a), U.enc_name(b),
                         T.lst(T.pair(U.enc_name(x), U.enc_name(y)) for x, y in ren)
                         if ren else '(@nil (name * name))'))
        keep.append((names, a, b))
        ctx.count(('tree', tuple(names), a, b), nontrivial=bool(names))
    for nm, typ, cs, chk in (
            ('tree_list', 'list name * list (name * list N)', lc, 'chk_tree_list'),
            ('tree_get', 'list name * name * option (list N)', gc, 'chk_tree_get'),
            ('tree_renames', 'list name * name * name * list (name * name)', rc, 'chk_tree_renames')):
        JOBS.add(nm, HEADER, typ, cs, chk,
                 (lambda nm: lambda i: ctx.disagreement(nm, {'case': repr(keep[i])}))(nm), shard=1000)


def enc_case(backend, init, steps) -> str:
    it = U.Interner()
    U.interning(it)
    try:
        return it.wrap(_enc_case(backend, init, steps))
    finally:
        U.interning(None)


def _enc_case(backend, init, steps) -> str:
    ops = T.lst(T.pair(U.enc_op(op), U.enc_expect(e)) for op, e, *_ in steps)
    by = {n: (st, ro) for n, st, ro in init}
    ist, iro = by['INBOX']
    inbox = U.enc_mbox(1000 + ist[0], ist[2], ist[3], iro)
    # model ids of initial mailboxes are 1000+observed index: they must be in the checker's
    # id relation from the start, which the initial STATUS steps provide
    if backend == 'dict':
        others = [(n, st, ro) for n, st, ro in init if n != 'INBOX']
        boxes = T.lst(T.pair(U.enc_name(n), U.enc_mbox(1000 + st[0], st[2], st[3], ro))
                      for n, st, ro in others) if others else '(@nil (name * mbox))'
        return T.pair('101%N', inbox, boxes, '0%N', ops)
    lay = 'LPlus' if backend == 'md++' else 'LFs'
    return T.pair(lay, inbox, '0%N', ops)


def sec_programs(ctx, backend: str, n_prog: int) -> None:
    from ..pymap_env import run
    hook = U.ListHook()
    hook.install()
    rng = ctx.rng
    progs = []
    initial_names = ['Sent', 'Trash'] if backend == 'dict' else []
    for _ in range(n_prog):
        progs.append(gen_program(rng, backend, initial_names))
    progs += fixed_programs(backend)
    progs += SF.exotic_programs(backend)

    async def all_():
        out = []
        for p in progs:
            out.append(await run_program(backend, p, hook))
        return out
    results = run(all_(), timeout=3000)
    cases = []
    hist = {}
    for pid, (init, steps) in enumerate(results):
        # initial STATUS observations become leading steps so that ids are related
        lead = [(('status', n), (0, [], st, None), b'', None, None) for n, st, _ro in init]
        cases.append(enc_case(backend, init, lead + steps))
        monitor_program(ctx, backend, pid, init, steps)
        for op, e, *_ in steps:
            key = f'{op[0]}:{e[0]}'
            hist[key] = hist.get(key, 0) + 1
            ctx.count((backend, pid, op, e[0], tuple(map(tuple, map(lambda x: (x[0], tuple(x[1])), e[1])))),
                      nontrivial=op[0] not in ('list', 'lsub') or bool(e[1]))
    ctx.extra.setdefault('op_outcome_histogram', {})[backend] = dict(sorted(hist.items()))
    if results:
        init, steps = results[-1]
        ctx.sample({'backend': backend, 'program': [repr(o) for o, *_ in steps][:12]})
    typ = ('N * mbox * list (name * mbox) * N * list (op * expect)' if backend == 'dict'
           else 'layout * mbox * N * list (op * expect)')
    chk = 'chk_dict' if backend == 'dict' else 'chk_md'
    def on_bad(i):
        init, steps = results[i]
        ctx.disagreement(f'programs_{backend}',
                         {'program': [list(o) for o, *_ in steps],
                          'observed': [(e[0], e[1], e[2]) for _o, e, *_ in steps][:60]})
    JOBS.add('programs_' + backend.replace('+', 'p'), HEADER, typ, cases, chk, on_bad,
             shard=ctx.scale(70, 100))


def run(ctx) -> None:
    ctx.rule = ('glob: all patterns over {a / * %} up to length 4 (thorough 5) x all names over a small '
                'alphabet up to length 4, plus random queries/names over an alphabet with regex-special, '
                'newline, NUL and non-ASCII characters (half of the names derived from the query), plus '
                'single-character sweeps; trees: random name lists; programs: 4-9 random namespace '
                'commands (names drawn from a pool of odd parts, biased towards existing names) each '
                'followed by LIST "" * and LSUB "" *; non-trivial = the pattern matched / the command '
                'had an effect or a non-empty answer; distinct = by input')
    ctx.assumptions += [
        "CPython's re/str are the semantics of the implementation side",
        'the wire decoding of mailbox names (modified UTF-7) is identity on what this harness sends '
        '(C18); LIST/LSUB names are observed at BaseSession.list_mailboxes, before the printer',
        'maildir: the filesystem is only changed by this server process',
    ]
    ctx.check_proofs(['Namespace/NsCheck', 'Namespace/SubsFileCheck'])
    sec_tables(ctx)
    SF.sec_subsfile(ctx, JOBS)
    sec_glob(ctx)
    sec_tree(ctx)
    sec_programs(ctx, 'dict', ctx.scale(120, 1200))
    sec_programs(ctx, 'md++', ctx.scale(80, 700))
    sec_programs(ctx, 'mdfs', ctx.scale(80, 700))
    JOBS.run(ctx)


def replay(ctx, obj) -> int:
    from ..pymap_env import run
    hook = U.ListHook()
    hook.install()
    if 'program' in obj:
        prog = [tuple(o) for o in obj['program']]
        init, steps = run(run_program(obj['backend'], prog, hook))
        for op, e, resp, exc, _w in steps:
            print(op, '->', e, exc or '')
        monitor_program(ctx, obj['backend'], 0, init, steps)
        for v in ctx.violations:
            print('FAIL', v['clause'], v['what'])
        for k, v in ctx.known_hits.items():
            print('KNOWN', k, v['first'])
        return 1 if ctx.violations else 0
    if 'subscriptions_names' in obj or 'subscriptions_file' in obj:
        return SF.replay(obj)
    if 'pattern' in obj:
        print(obj['pattern'], obj['name'], impl_match(obj['pattern'], obj['name']),
              ref_glob(obj['pattern'], obj['name']))
    return 0
