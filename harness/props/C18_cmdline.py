"""C18, section `cmdline`: how a command reaches the parser, and the end-to-end
metamorphic monitor.

Model Wire/CmdLine.v (IMAPConnection.readline / read_continuation /
read_command re-parse loop, Commands.parse for LOGIN, DELETE, SUBSCRIBE,
UNSUBSCRIBE and the no-argument commands); theorem C18_command_spelling.

Correspondence: parse_space / parse_endline / lit_plus_suffix / parse_command /
read_command against Space.parse, EndLine.parse, IMAPConnection._literal_plus,
Commands.parse, IMAPConnection.read_command (real object over a fake stream).

Monitor (end to end, real server, dict backend): the same command with each
string argument spelled as atom / quoted / {n} / {n+}, any letter case of the
command word and extra spaces gives the same responses and the same resulting
state; names reported by LIST / STATUS decode (reference decoder written from
RFC 3501 5.1.3) to the names that were created.
"""
from __future__ import annotations

import asyncio
import base64
import re

from .. import coqterm as T
from .C18_strings import B, queue

CHECKERS = ['Wire/CmdLineCheck']
HEADER = ('From PV Require Import Base.Prelude Wire.Lex Wire.Strings Wire.StringsCheck '
          'Wire.ModUtf7 Wire.ModUtf7Check Wire.CmdLine Wire.CmdLineCheck.\n')

# the command table of Wire/CmdLine.v: word -> argument kinds
#   s astring, m mailbox, p list-mailbox pattern, q sequence set, a status attribute list;
#   '+o' = the command has an ExtensionOptions slot (modelled when no option list is sent)
SHAPES = {b'LOGIN': 'ss', b'DELETE': 'm', b'SUBSCRIBE': 'm', b'UNSUBSCRIBE': 'm',
          b'CREATE': 'm+o', b'SELECT': 'm+o', b'EXAMINE': 'm+o', b'RENAME': 'mm+o',
          b'STATUS': 'ma', b'LIST': 'mp', b'LSUB': 'mp', b'COPY': 'qm', b'MOVE': 'qm',
          b'NOOP': '', b'CAPABILITY': '', b'LOGOUT': '', b'STARTTLS': '', b'CHECK': '', b'CLOSE': ''}
MODELLED = {w: len(k.replace('+o', '')) for w, k in SHAPES.items()}


# ------------------------------------------------------------ fake transport
class _Reader:
    def __init__(self, data: bytes) -> None:
        self.data = data
        self.pos = 0

    async def readline(self) -> bytes:
        i = self.data.find(b'\n', self.pos)
        end = len(self.data) if i < 0 else i + 1
        ret = self.data[self.pos:end]
        self.pos = end
        return ret

    async def readexactly(self, n: int) -> bytes:
        if len(self.data) - self.pos < n:
            partial = self.data[self.pos:]
            self.pos = len(self.data)
            raise asyncio.IncompleteReadError(partial, n)
        ret = self.data[self.pos:self.pos + n]
        self.pos += n
        return ret


class _Writer:
    def __init__(self) -> None:
        self.out = bytearray()

    def write(self, data) -> None:
        self.out += bytes(data)

    def writelines(self, datas) -> None:
        for d in datas:
            self.write(d)

    async def drain(self) -> None:
        return None

    def close(self) -> None:
        return None


def enc_cmd(cmd) -> str | None:
    """Gallina term for a parsed command object; None = outside the model"""
    from pymap.parsing.commands import InvalidCommand
    name = type(cmd).__name__
    if isinstance(cmd, InvalidCommand):
        ct = cmd.command_type
        if ct is not None and ct.command not in MODELLED:
            return None
        if ct is None and cmd.command_name is not None and _known_prefix(cmd.command_name):
            return None
        return 'CmdInvalid'
    word = cmd.command
    if word not in MODELLED:
        return None
    tag = B(cmd.tag)
    if getattr(cmd, 'options', None):
        return None                     # an option list: outside the modelled fragment
    from .C18 import enc_seqset

    def mb(name):
        return f'(VMbox {T.codepoints(name)})'
    if word == b'LOGIN':
        args = [f'(VStr {B(cmd.userid)})', f'(VStr {B(cmd.password)})']
    elif word == b'RENAME':
        args = [mb(str(cmd.from_mailbox_obj)), mb(str(cmd.to_mailbox_obj))]
    elif word == b'STATUS':
        args = [mb(cmd.mailbox), '(VAttrs %s)' % T.lst(B(a.value) for a in cmd.status_list)]
    elif word in (b'LIST', b'LSUB'):
        args = [mb(cmd.ref_name), f'(VPat {T.codepoints(cmd.filter)})']
    elif word in (b'COPY', b'MOVE'):
        args = [f'(VSeq {enc_seqset(cmd.sequence_set.sequences)})', mb(cmd.mailbox)]
    elif MODELLED[word] == 1:
        args = [mb(cmd.mailbox)]
    else:
        args = []
    return f'(Cmd {tag} {B(word)} {T.lst(args)})'


_REAL = None


def _known_prefix(word: bytes) -> bool:
    """the word (possibly compound, e.g. UID ...) involves a real command"""
    global _REAL
    if _REAL is None:
        from pymap.parsing.commands import Commands
        _REAL = set(Commands().commands)
    return any(w in _REAL for w in (word, word.split(b' ')[0]))


async def impl_read_command(config, stream: bytes):
    from pymap.imap import IMAPConnection
    from proxyprotocol.sock import SocketInfoLocal
    from ..pymap_env import Conn
    reader, writer = _Reader(stream), _Writer()
    conn = IMAPConnection(config.commands, config, reader, writer, SocketInfoLocal(Conn(None)))
    try:
        cmd = await conn.read_command(None)
    except (EOFError, ConnectionError):
        return None
    nreq = len(re.findall(rb'^\+ ', bytes(writer.out), re.M))
    return cmd, stream[reader.pos:], nreq


def impl_commands_parse(config, line: bytes, conts):
    from pymap.parsing.state import ParsingState, ParsingInterrupt
    params = config.parsing_params.copy(
        ParsingState(continuations=[memoryview(c) for c in conts]))
    try:
        cmd, _ = config.commands.parse(memoryview(line), params)
    except ParsingInterrupt as exc:
        return ('need', exc.expected.literal_length)
    return ('ok', cmd)


# ----------------------------------------------------------------- generators
def spell(rng, v: bytes, kinds=None):
    """one wire spelling of v: (bytes on the wire incl. payload, is_sync)"""
    from .C18_strings import spellings
    opts = [s for s in spellings(v) if kinds is None or s[0] in kinds] or spellings(v)[-2:]
    kind, line, payload = rng.choice(opts)
    return line + (payload or b''), kind


def rand_case(rng, w: bytes) -> bytes:
    return bytes(c ^ 0x20 if chr(c).isalpha() and rng.random() < 0.5 else c for c in w)


def gen_stream(rng) -> bytes:
    from .C18_strings import gen_value, mutate
    from pymap.parsing.modutf7 import modutf7_encode
    from .C18_utf7 import gen_name
    word = rng.choice(list(MODELLED)) if rng.random() < 0.9 else \
        rng.choice([b'FOO', b'LOGINX', b'X', b'DELET', b'NOOPE'])
    tag = rng.choice([b'a', b'A001', b'x.y', b'1', b'ta]g', b'+', b'a+b'])
    out = tag + b' ' * rng.choice([1, 1, 2]) + rand_case(rng, word)
    kinds = SHAPES.get(word, 's').replace('+o', '')
    if rng.random() < 0.1:
        kinds = kinds[:-1] if rng.random() < 0.5 else kinds + 's'
    for kd in kinds:
        sp = b' ' * rng.choice([1, 1, 1, 2, 3])
        if kd == 'q':
            from .C18 import gen_seq_bytes
            out += sp + (gen_seq_bytes(rng).strip() or b'1')
        elif kd == 'a':
            attrs = [rand_case(rng, rng.choice([b'MESSAGES', b'RECENT', b'UIDNEXT', b'UIDVALIDITY',
                                                b'UNSEEN', b'MAILBOXID', b'FOO']))
                     for _ in range(rng.randint(0, 3))]
            out += sp + rng.choice([b'(', b'( ', b' (']) + rng.choice([b' ', b' ', b'  ', b'']).join(attrs) \
                + rng.choice([b')', b' )', b''])
        elif kd == 'p':
            v = rng.choice([b'*', b'%', b'a/%', b'*x*', b'', b'a b', b'&AOk-*', b'&A-', b'x]y', b'"'])
            opts = [s for s in (('atom', v, None),) if v and all(
                0x21 <= c <= 0x7e and chr(c) not in '(){"\\' for c in v)]
            from .C18_strings import spellings
            opts += [s for s in spellings(v) if s[0] != 'atom']
            k_, line, payload = rng.choice(opts)
            out += sp + line + (payload or b'')
        else:
            if kd == 'm' and rng.random() < 0.7:
                v = rng.choice([modutf7_encode(gen_name(rng)), b'inbox', b'&AOk', b'&', b'&A-'])
            else:
                v = gen_value(rng)
            out += sp + spell(rng, v)[0]
    if '+o' in SHAPES.get(word, '') and rng.random() < 0.08:
        out += rng.choice([b' (CONDSTORE)', b'(X)', b' ()'])
    out += b' ' * rng.choice([0, 0, 0, 1, 2]) + rng.choice([b'\r\n', b'\r\n', b'\n'])
    r = rng.random()
    if r < 0.25:
        out = mutate(rng, out, b' {}+\r\n"\\0123456789')
    if rng.random() < 0.7:
        out += rng.choice([b'b NOOP\r\n', b'next', b'\r\n', b'b {2+}\r\n'])
    elif rng.random() < 0.3:
        out = out[:rng.randrange(len(out) + 1)]          # truncated: EOF
    return out


# ------------------------------------------------------- reference mUTF-7 codec
def ref_mutf7_decode(b: bytes) -> str:
    """RFC 3501 5.1.3, written independently of pymap"""
    out = []
    i = 0
    while i < len(b):
        if b[i:i + 2] == b'&-':
            out.append('&')
            i += 2
        elif b[i] == 0x26:
            j = b.index(b'-', i)
            chunk = b[i + 1:j].replace(b',', b'/')
            chunk += b'=' * (-len(chunk) % 4)
            out.append(base64.b64decode(chunk).decode('utf-16-be'))
            i = j + 1
        else:
            out.append(chr(b[i]))
            i += 1
    return ''.join(out)


def ref_mutf7_encode(s: str) -> bytes:
    out = bytearray()
    run = ''

    def flush():
        nonlocal run
        if run:
            out.extend(b'&' + base64.b64encode(run.encode('utf-16-be')).rstrip(b'=')
                       .replace(b'/', b',') + b'-')
            run = ''
    for ch in s:
        if 0x20 <= ord(ch) <= 0x7e:
            flush()
            out.extend(b'&-' if ch == '&' else ch.encode())
        else:
            run += ch
    flush()
    return bytes(out)


_TOKEN = re.compile(rb'"((?:[^"\\\r\n]|\\.)*)"|\{(\d+)\}\r\n|([^ ()\r\n]+)|([()])| +')


def tokens(line: bytes):
    """tokenise one response (literals included) into byte strings"""
    out = []
    pos = 0
    while pos < len(line):
        m = _TOKEN.match(line, pos)
        if not m:
            break
        pos = m.end()
        if m.group(1) is not None:
            out.append(('str', re.sub(rb'\\(.)', rb'\1', m.group(1))))
        elif m.group(2) is not None:
            n = int(m.group(2))
            out.append(('str', line[pos:pos + n]))
            pos += n
        elif m.group(3) is not None:
            out.append(('atom', m.group(3)))
        elif m.group(4) is not None:
            out.append(('paren', m.group(4)))
    return out


def split_responses(data: bytes):
    """split server output into responses, keeping literals attached"""
    out = []
    pos = 0
    while pos < len(data):
        start = pos
        while True:
            i = data.find(b'\r\n', pos)
            if i < 0:
                pos = len(data)
                break
            m = re.search(rb'\{(\d+)\}$', data[start:i])
            pos = i + 2
            if m:
                pos += int(m.group(1))
                continue
            break
        out.append(data[start:pos])
    return out


def reported_names(data: bytes, kind: bytes):
    """mailbox names in `* LIST (...) sep name` / `* STATUS name (...)`"""
    names = []
    for resp in split_responses(data):
        tk = tokens(resp)
        if len(tk) >= 3 and tk[0] == ('atom', b'*') and tk[1] == ('atom', kind):
            if kind in (b'LIST', b'LSUB'):
                depth = 0
                k = 2
                while k < len(tk):
                    if tk[k] == ('paren', b'('):
                        depth += 1
                    elif tk[k] == ('paren', b')'):
                        depth -= 1
                        if depth == 0:
                            break
                    k += 1
                if k + 2 < len(tk):
                    names.append(tk[k + 2][1])
            else:
                names.append(tk[2][1])
    return names


def canon(data: bytes, tag: bytes) -> list[bytes]:
    out = []
    for resp in split_responses(data):
        if resp.startswith(b'+ '):
            continue            # continuation requests belong to the spelling
        resp = re.sub(rb'MAILBOXID \(F[0-9a-f]+\)', b'MAILBOXID (X)', resp)
        resp = re.sub(rb'(UIDVALIDITY|COPYUID|APPENDUID) \d+', rb'\1 N', resp)
        if resp.startswith(tag + b' '):
            resp = b'TAG ' + resp[len(tag) + 1:]
        out.append(resp)
    return out


# ------------------------------------------------------------ e2e templates
# (setup commands, command word, argument list, probes); an argument is
# ('s', value) spelled string, ('m', name str) mailbox, ('r', raw bytes)
TEMPLATES = [
    ('login', [], b'LOGIN', [('s', b'testuser'), ('s', b'testpass')], []),
    ('login_bad', [], b'LOGIN', [('s', b'testuser'), ('s', b'wrong pass')], []),
    ('create', [], b'CREATE', [('m', None)], ['list', 'status']),
    ('delete', ['create'], b'DELETE', [('m', None)], ['list']),
    ('rename', ['create'], b'RENAME', [('m', None), ('m', 'Other/New')], ['list']),
    ('subscribe', ['create'], b'SUBSCRIBE', [('m', None)], ['lsub']),
    ('select', ['create'], b'SELECT', [('m', None)], []),
    ('examine', ['create'], b'EXAMINE', [('m', None)], []),
    ('status', ['create'], b'STATUS', [('m', None), ('r', b'(MESSAGES UIDNEXT)')], []),
    ('list', ['create'], b'LIST', [('s', b''), ('m', None)], []),
    ('append', ['create'], b'APPEND', [('m', None), ('r', b'(\\Seen)'),
                                       ('lit', b'Subject: hi\r\n\r\nbody {3+}\r\n')], ['status']),
    # a message above the 4096-byte limit of ordinary literals: only APPEND may carry it,
    # whatever the letter case of the command word
    ('append_big', ['create'], b'APPEND', [('m', None), ('lit', b'Subject: big\r\n\r\n' + b'x' * 4990 + b'\r\n')],
     ['status']),
    ('copy', ['create', 'selinbox'], b'COPY', [('r', b'1'), ('m', None)], ['status']),
    ('move', ['create', 'selinbox'], b'MOVE', [('r', b'2:3'), ('m', None)], ['status']),
    ('lsub', ['create'], b'LSUB', [('s', b''), ('m', None)], []),
    # no string argument: letter case of the word and spacing only
    ('store', ['selinbox'], b'STORE', [('r', b'1'), ('r', b'+FLAGS'), ('r', b'(\\Flagged $Foo)')], []),
    ('search_subject', ['selinbox'], b'SEARCH', [('r', b'SUBJECT'), ('s', None)], []),
    ('search_header', ['selinbox'], b'SEARCH', [('r', b'HEADER'), ('s', b'Subject'), ('s', None)], []),
    ('search_charset', ['selinbox'], b'SEARCH', [('r', b'CHARSET'), ('s', b'UTF-8'),
                                                 ('r', b'TEXT'), ('s', None)], []),
    ('fetch_fields', ['selinbox'], b'FETCH', [('r', b'1'), ('r', b'BODY.PEEK[HEADER.FIELDS'),
                                              ('fl', [b'To', b'Subject']), ], []),
]

NAMES = ['Foo', 'a b', 'x]y', 'ab{2+}', '{5}', 'a"b\\c', 'inbox', 'NIL', 'é', '台北/日本語',
         'a&b', 'é&x', 'a\tb', 'x\ny', '\U0001F600', 'Trash', '~x', 'a%b', 'a*b', '}']
SEARCH_VALUES = [b'Hello', b'hello world', b'a"b', b'x]', b'{5}', b'', b'ab{2+}', b'\xc3\xa9',
                 b'NIL', b'wor\nld']


def build_line(rng, tag, word, args, variant):
    """one wire spelling of the command; variant = dict(case, spaces, kinds)"""
    from .C18_strings import spellings
    w = word.lower() if variant['case'] == 'lower' else \
        (rand_case(rng, word) if variant['case'] == 'mixed' else word)
    if variant['case'] == 'mixed' and w in (word.upper(), word.lower()):
        w = word[:1].lower() + word[1:].upper()
    line = tag + b' ' + w
    pos = [0]

    def kind_here():
        """variant['kinds'] is one spelling for every position, or a tuple with
        one spelling per spelled position (mixed spellings)"""
        ks = variant['kinds']
        if isinstance(ks, str):
            return ks
        k = ks[pos[0] % len(ks)]
        pos[0] += 1
        return k
    for kind, v in args:
        line += b' ' * variant['spaces']
        if kind == 'r':
            line += v
        elif kind == 'lit':     # a message literal: only the two literal forms exist
            k = kind_here()
            line += (b'{%d+}\r\n' if k in ('litplus', 'quoted') else b'{%d}\r\n') % len(v) + v
        elif kind == 'fl':
            parts = []
            for x in v:
                k = kind_here()
                sp = [s for s in spellings(x) if s[0] == k] or spellings(x)[:1]
                parts.append(sp[0][1] + (sp[0][2] or b''))
            line += b'(' + b' '.join(parts) + b')]'
        else:
            k = kind_here()
            sp = [s for s in spellings(v) if s[0] == k]
            if not sp:
                return None
            line += sp[0][1] + (sp[0][2] or b'')
    line += b' ' * variant['trail'] + b'\r\n'
    return line


async def run_sibling(setup, line, probes, name_enc):
    from ..pymap_env import DictEnv
    env = await DictEnv().start()
    conn = await env.connect()
    if 'nologin' not in setup:
        r = await conn.send(b'l0 LOGIN testuser testpass\r\n')
        assert b'l0 OK' in r, r
    for st in setup:
        if st == 'create':
            await conn.cmd(b's1 CREATE {%d}\r\n%s\r\n' % (len(name_enc), name_enc))
        elif st == 'selinbox':
            await conn.send(b's2 SELECT INBOX\r\n')
    out = await conn.cmd(line)
    obs = canon(out, b'T1')
    extra = {}
    for pr in probes:
        if pr == 'list':
            extra['list'] = await conn.send(b'p1 LIST "" *\r\n')
        elif pr == 'lsub':
            extra['lsub'] = await conn.send(b'p2 LSUB "" *\r\n')
        elif pr == 'status':
            extra['status'] = await conn.cmd(
                b'p3 STATUS {%d}\r\n%s (MESSAGES UIDNEXT UNSEEN)\r\n' % (len(name_enc), name_enc))
    closed = conn.closed
    exc = repr(conn.exc) if conn.exc else None
    await conn.send_eof()
    state = {k: canon(v, b'p') for k, v in extra.items()}
    return obs, state, closed, exc, extra


def e2e_monitor(ctx) -> None:
    from ..pymap_env import run
    rng = ctx.rng
    nruns = 0
    ngroups = 0
    budget = ctx.scale(1600, 9000)
    combos = []
    for tpl in TEMPLATES:
        tname, setup, word, args, probes = tpl
        if tname.startswith('search'):
            values = SEARCH_VALUES
        elif tname.startswith('login') or tname == 'fetch_fields':
            values = [None]
        elif tname == 'append_big':
            values = ['Foo', 'a b']
        elif tname == 'store':
            values = [None]
        else:
            values = NAMES
        for v in values:
            combos.append((tpl, v))
    rng.shuffle(combos)
    # every template at least once with a plain value first
    combos.sort(key=lambda c: 0 if c[1] in (None, 'Foo', b'Hello') else 1)
    for tpl, v in combos:
        if nruns >= budget:
            break
        tname, setup, word, args, probes = tpl
        name = v if isinstance(v, str) else 'Foo'
        name_enc = ref_mutf7_encode(name)
        cargs = []
        for kind, x in args:
            if kind == 'm':
                cargs.append(('s', ref_mutf7_encode(x if x is not None else name)))
            elif kind == 's' and x is None:
                cargs.append(('s', v))
            else:
                cargs.append((kind, x))
        setup_ = list(setup) + (['nologin'] if tname.startswith('login') else [])
        variants = [dict(case='upper', spaces=1, trail=0, kinds=k)
                    for k in ('atom', 'quoted', 'lit', 'litplus')]
        variants += [dict(case='lower', spaces=1, trail=0, kinds='quoted'),
                     dict(case='mixed', spaces=2, trail=0, kinds='litplus'),
                     dict(case='upper', spaces=3, trail=2, kinds='lit'),
                     dict(case='mixed', spaces=1, trail=1, kinds='atom')]
        # mixed spellings: every combination of the four spellings over the
        # spelled argument positions (sync-then-nonsync, nonsync-then-sync, ...)
        npos = sum(len(x) if kind == 'fl' else 1 for kind, x in cargs if kind in ('s', 'lit', 'fl'))
        if npos >= 2:
            import itertools
            four = ('atom', 'quoted', 'lit', 'litplus')
            mixed = [c for c in itertools.product(four, repeat=npos) if len(set(c)) > 1]
            if len(mixed) > 14:      # three positions: all literal-kind mixes + a seeded sample
                lits = [c for c in mixed if set(c) <= {'lit', 'litplus'}]
                mixed = lits + rng.sample([c for c in mixed if c not in lits], 14 - len(lits) if len(lits) < 14 else 0)
            variants += [dict(case='upper', spaces=1, trail=0, kinds=c) for c in mixed]
        results = []
        for var in variants:
            line = build_line(rng, b'T1', word, cargs, var)
            if line is None:
                continue
            try:
                res = run(run_sibling(setup_, line, probes, name_enc), timeout=20)
            except Exception as exc:   # timeout = the server is waiting for more input
                res = (['<no answer: %s>' % type(exc).__name__], {}, None, None, {})
            nruns += 1
            results.append((var, line, res))
        ngroups += 1
        ctx.count(('e2e', tname, v), nontrivial=len(results) > 1)
        ref = results[0]
        for var, line, res in results[1:]:
            if res[:4] != ref[2][:4]:
                clause = 'command_spelling'
                obs = {'kind': 'sibling_differs', 'template': tname}
                if isinstance(v, (str, bytes)) and ('}' in v if isinstance(v, str) else b'}' in v) \
                        and ('atom' in var['kinds'] or 'atom' in ref[0]['kinds']) \
                        and (b'TAG BAD' in b''.join(res[0]) or b'TAG BAD' in b''.join(ref[2][0])):
                    clause, obs = 'astring_spelling', {'kind': 'atom_rbrace'}   # known finding C18-F3
                ctx.failure(clause,
                            f'{tname}: {line!r} answered {res[0]!r} / state {res[1]!r}, but '
                            f'{ref[1]!r} answered {ref[2][0]!r} / state {ref[2][1]!r}',
                            {'template': tname, 'value': repr(v), 'line_a': ref[1].hex(),
                             'line_b': line.hex(), 'setup': setup_}, obs)
                break
        # reported names decode to the created name (reference decoder)
        if tname not in ('create', 'subscribe', 'append', 'append_big', 'copy', 'move'):
            continue
        for var, line, res in [r for r in results if r[0]['kinds'] == 'lit'][:1]:   # all-{n} sibling
            for key, kind in (('list', b'LIST'), ('lsub', b'LSUB'), ('status', b'STATUS')):
                raw = res[4].get(key)
                if raw is None:
                    continue
                try:
                    got = [ref_mutf7_decode(n) for n in reported_names(raw, kind)]
                except Exception as exc:
                    got = [f'<undecodable: {exc!r}>']
                want = 'INBOX' if name.isascii() and name.upper() == 'INBOX' else name
                if want not in got:
                    ctx.failure('mailbox_report_roundtrip',
                                f'{kind.decode()} after creating {name!r} reports {got!r}',
                                {'template': tname, 'name': [ord(c) for c in name], 'raw': raw.hex()},
                                {'kind': 'reported_name', 'response': kind.decode()})
    ctx.extra['e2e'] = {'sibling_runs': nruns, 'groups': ngroups}


# ------------------------------- a disagreeing stream, replayed on a live server
def ref_parse_stream(stream: bytes):
    """split a client stream into (tag, word, [argument values], rest of the
    stream) following RFC 3501 / RFC 7888 only (independent of pymap and of the
    model); None when the stream is not one complete well-formed command"""
    m = re.match(rb'([^ \r\n(){%*"\\]+) +([A-Za-z]+)', stream)
    if not m:
        return None
    tag, word = m.group(1), m.group(2)
    pos = m.end()
    vals = []
    while True:
        k = pos
        while stream[k:k + 1] == b' ':
            k += 1
        if stream[k:k + 2] == b'\r\n':
            return tag, word, vals, stream[k + 2:]
        if stream[k:k + 1] == b'\n':
            return tag, word, vals, stream[k + 1:]
        if k == pos or k >= len(stream):
            return None
        pos = k
        c = stream[pos:pos + 1]
        if c == b'"':
            mm = re.compile(rb'"((?:[^"\\\r\n]|\\["\\])*)"').match(stream, pos)
            if not mm:
                return None
            vals.append(re.sub(rb'\\(.)', rb'\1', mm.group(1)))
            pos = mm.end()
        elif c == b'{':
            mm = re.compile(rb'\{(\d{1,6})\+?\}\r\n').match(stream, pos)
            if not mm or len(stream) < mm.end() + int(mm.group(1)):
                return None
            n = int(mm.group(1))
            vals.append(stream[mm.end():mm.end() + n])
            pos = mm.end() + n
        else:
            mm = re.compile(rb'[^ \r\n(){%*"\\\x00-\x1f\x7f-\xff]+').match(stream, pos)
            if not mm:
                return None
            vals.append(mm.group(0))
            pos = mm.end()


async def _run_stream(stream: bytes, login: bool):
    from ..pymap_env import DictEnv
    env = await DictEnv().start()
    conn = await env.connect()
    if login:
        await conn.send(b'l0 LOGIN testuser testpass\r\n')
    out = await conn.send(stream)
    closed = conn.closed
    await conn.send_eof()
    return out, closed


def e2e_from_stream(ctx, stream: bytes) -> bool:
    """the failing-input search for a read_command disagreement: send the
    stream to a live server next to its all-quoted sibling (same tag, word
    and argument values); different answers = the property fails on the server"""
    from ..pymap_env import run
    from .C18_strings import spellings
    parsed = ref_parse_stream(stream)
    if parsed is None:
        return False
    tag, word, vals, rest = parsed
    kinds = SHAPES.get(word.upper(), 'x').replace('+o', '')
    if len(vals) != len(kinds) or set(kinds) - set('smp'):
        return False
    sib = tag + b' ' + word
    for v in vals:
        sp = dict((s[0], s) for s in spellings(v))
        s = sp.get('quoted') or sp.get('lit')
        if s is None:
            return False
        sib += b' ' + s[1] + (s[2] or b'')
    sib += b'\r\n' + rest
    if sib == stream:
        return False
    login = word.upper() not in (b'LOGIN', b'STARTTLS')
    try:
        a = run(_run_stream(stream, login), timeout=20)
        b = run(_run_stream(sib, login), timeout=20)
    except Exception as exc:
        a, b = ('<no answer: %s>' % type(exc).__name__, None), ('', None)
    ca, cb = canon(a[0], tag) if isinstance(a[0], bytes) else a[0], \
        canon(b[0], tag) if isinstance(b[0], bytes) else b[0]
    if (ca, a[1]) != (cb, b[1]):
        ctx.failure('command_spelling',
                    f'{stream!r} answered {ca!r}, its all-quoted sibling {sib!r} answered {cb!r}',
                    {'template': 'stream', 'stream': stream.hex(), 'sibling': sib.hex()},
                    {'kind': 'sibling_differs', 'template': 'stream'})
        return True
    return False


# --------------------------------------------------------------------- section
def section(ctx) -> None:
    from pymap.parsing import Space, EndLine
    from pymap.imap import IMAPConnection
    from ..pymap_env import DictEnv, run
    from .C18_strings import B, thin, impl_parse, sweep, small_strings, mutate, INTERESTING
    rng = ctx.rng
    quick = ctx.quick
    SH = dict(shard=1500)
    vals_ = INTERESTING if quick else None

    # --- Space / EndLine / _literal_plus
    stream = small_strings(b' \r\nx', 4 if quick else 5) + sweep([b'  \r\nx', b' \n'], vals_)
    stream = thin(ctx, stream, 450)
    c1, c2 = [], []
    for buf in stream:
        r = impl_parse(Space, buf)
        c1.append(T.pair(B(buf), 'None' if r[0] != 'ok' else T.option(B(r[2]))))
        r = impl_parse(EndLine, buf)
        c2.append(T.pair(B(buf), 'None' if r[0] != 'ok' else T.option(B(r[2]))))
        ctx.count(('space', buf))
    for nm, cs, chk in (('space', c1, 'chk_space'), ('endline', c2, 'chk_endline')):
        queue(ctx, nm, HEADER, 'bytes * option bytes', cs, chk,
              lambda i, stream=stream: {'input': stream[i].hex()})
    lines = small_strings(b'{1+}\r', 4 if quick else 6)
    lines = [x + b'\n' for x in lines] + sweep([b'a {12+}\r\n', b'{3+}\n', b'x{0+}\r\n'], vals_) \
        + [b'', b'{3+}', b'{3+}\r', b'{+}\r\n', b'{3+}\r\r\n', b'{3+}\n\n', b'{12{3+}\r\n']
    lines = thin(ctx, lines, 700)
    cl = []
    for ln in lines:
        # as IMAPConnection.readline consults it (only on lines that end in LF)
        m = None
        if ln.endswith(b'+}\n') or ln.endswith(b'+}\r\n'):
            m = IMAPConnection._literal_plus.search(ln)
        cl.append(T.pair(B(ln), 'None' if not m else T.option(T.N(int(m.group(1))))))
        ctx.count(('litplus', ln), nontrivial=bool(m))
    queue(ctx, 'literal_plus_marker', HEADER, 'bytes * option N', cl, 'chk_litplus',
          lambda i, lines=lines: {'line': lines[i].hex()})

    # --- Commands.parse and read_command on whole client streams
    async def corr():
        env = await DictEnv().start()
        config = env.config
        streams = [b'a LOGIN u p\r\n', b'a login {1}\r\nu {1}\r\np\r\nb NOOP\r\n',
                   b'a LOGIN {1+}\r\nu {1+}\r\np\r\nrest', b'a DELETE "ab{2+}"\r\nb NOOP\r\n',
                   b'a DELETE {6+}\r\nab{2+}\r\nb NOOP\r\n', b'a DELETE {6}\r\nab{2+}\r\nb NOOP\r\n',
                   b'a NOOP\r\n', b'a noop \n', b'a NOOP x\r\n', b'a\r\n', b'\r\n', b'a LOGIN u\r\n',
                   b'a DELETE &AOk-\r\n', b'a DELETE &AOk\r\n', b'a DELETE &A-\r\n', b'a DELETE inbox\r\n',
                   b'a LOGIN {3}\r\nab', b'a LOGIN {3+}\r\nab', b'a LOGIN u p', b'',
                   b'a CREATE Foo\r\n', b'a create {3}\r\nFoo (X)\r\n', b'a SELECT "a b" \r\n',
                   b'a EXAMINE inbox (CONDSTORE)\r\n', b'a RENAME {1}\r\na {1+}\r\nb\r\nnext',
                   b'a STATUS Foo (MESSAGES unseen)\r\n', b'a STATUS {3+}\r\nFoo  ( RECENT )\r\n',
                   b'a STATUS Foo ()\r\n', b'a STATUS Foo (FOO)\r\n', b'a STATUS Foo (MESSAGESUNSEEN)\r\n',
                   b'a LIST "" *\r\n', b'a lsub {0}\r\n "a/%"\r\n', b'a LIST x {3+}\r\n&A-\r\n',
                   b'a LIST "" a]b*\r\n', b'a COPY 1:* Foo\r\n', b'a move 2,4:7 {3}\r\nFoo\r\n',
                   b'a COPY 0 Foo\r\n', b'a COPY 1: Foo\r\n', b'a COPY  1  "x" \n']
        streams += thin(ctx, sweep([b'a LOGIN {1+}\r\nu "p"\r\nb', b'a DELETE {1}\r\nx\r\n',
                                    b'a STATUS x (UNSEEN)\n', b'a COPY 1:2 x\n', b'a LIST "" %\n'],
                                   vals_, not quick), 450, keep=0)
        streams += [gen_stream(rng) for _ in range(ctx.scale(800, 12000))]
        streams = list(dict.fromkeys(streams))
        cr, cc, keep_r, keep_c = [], [], [], []
        hist = ctx.extra.setdefault('read_command_by_class', {})
        for st in streams:
            res = await impl_read_command(config, st)
            if res is None:
                cr.append(T.pair(B(st), 'None'))
                keep_r.append(st)
                ctx.count(('read', st), nontrivial=False)
            else:
                term = enc_cmd(res[0])
                hist[type(res[0]).__name__] = hist.get(type(res[0]).__name__, 0) + 1
                if term is not None:
                    cr.append(T.pair(B(st), T.option(T.pair(term, B(res[1]), T.N(res[2])))))
                    keep_r.append(st)
                    ctx.count(('read', st), nontrivial=term != 'CmdInvalid')
            # the first line alone through Commands.parse, with 0/1 continuation
            i = st.find(b'\n')
            line = st[:i + 1] if i >= 0 else st
            for conts in ((), (st[i + 1:],) if i >= 0 else ()):
                if conts == () or conts[0]:
                    r = impl_commands_parse(config, line, conts)
                    if r[0] == 'need':
                        cc.append(T.pair(T.lst(B(c) for c in conts), B(line),
                                         f'(XNeed {T.N(r[1])})'))
                        keep_c.append((line, conts))
                    else:
                        term = enc_cmd(r[1])
                        if term is not None:
                            cc.append(T.pair(T.lst(B(c) for c in conts), B(line),
                                             f'(XOk {term} (@nil N) nil)'))
                            keep_c.append((line, conts))
        return cr, cc, keep_r, keep_c
    cr, cc, keep_r, keep_c = run(corr(), timeout=600)
    ctx.sample({'stream': keep_r[len(keep_r) // 2].decode('latin-1')})
    queue(ctx, 'read_command', HEADER, 'bytes * option (command * bytes * N)', cr, 'chk_read',
          lambda i, keep_r=keep_r: {'stream': keep_r[i].hex()},
          # failing-input search first: the disagreeing stream on a live server
          pre=lambda i, keep_r=keep_r: e2e_from_stream(ctx, keep_r[i]))
    queue(ctx, 'commands_parse', HEADER, 'list bytes * bytes * xres command', cc, 'chk_command',
          lambda i, keep_c=keep_c: {'line': keep_c[i][0].hex(),
                                    'conts': [c.hex() for c in keep_c[i][1]]})

    # --- end-to-end metamorphic monitor
    e2e_monitor(ctx)


def replay(ctx, obj) -> bool:
    from ..pymap_env import run
    if obj.get('clause') == 'command_spelling' and obj.get('template') == 'stream':
        if not e2e_from_stream(ctx, bytes.fromhex(obj['stream'])):
            print('stream and its all-quoted sibling are answered alike')
        return True
    if obj.get('clause') == 'command_spelling':
        name = 'Foo'
        v = obj.get('value', '')
        try:
            import ast
            vv = ast.literal_eval(v)
            if isinstance(vv, str):
                name = vv
        except Exception:
            pass
        out = []
        for key in ('line_a', 'line_b'):
            line = bytes.fromhex(obj[key])
            res = run(run_sibling(obj.get('setup', []), line, ['list'], ref_mutf7_encode(name)), timeout=20)
            print(key, line, '->', res[0], res[1])
            out.append(res[:2])
        if out[0] != out[1]:
            ctx.failure('command_spelling', f'siblings still differ: {out!r}', obj,
                        obj.get('observation', {}))
        return True
    return False
