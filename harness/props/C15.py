"""C15 — maildir state survives restart and crashes without UID damage.

Model: coq/theories/MaildirFS (FS.v abstract filesystem, UidList.v control
file text formats, Ops.v every backend command as a list of filesystem
operations + what a fresh server serves, Durability*.v proofs).
Correspondence:
  uidl_*   print/parse of dovecot-uidlist and subscriptions text against
           pymap.backend.maildir.uidlist.UidList / subscriptions.Subscriptions
  history  operation-trace equality: the os-level calls of the real backend,
           command by command, against Ops.run_cmd, plus the final directory
  crash    kill-and-restart enumeration: a child process is ended with
           os._exit before its (k+1)-th filesystem mutation, a fresh backend
           is started on the directory, and its dump is compared with the
           model's recover (crash k ops) and by the durability monitor with
           the states the killed server had acknowledged.
"""
from __future__ import annotations

import asyncio
import io
import json
import os
import re

from .. import coqterm as T
from .. import maildir_model as MM
from .. import maildirfs as M

HEADER = MM.HEADER


# ----------------------------------------------------------- uid list text
def enc_rec(uid, fields, fname) -> str:
    fl = T.lst(f'({T.N(ord(k))}, {MM.b(v)})' for k, v in fields)
    return f'{{| r_uid := {T.N(uid)}; r_fields := {fl}; r_fname := {MM.b(fname)} |}}'


def enc_uidl(val, nxt, guid, recs) -> str:
    return (f'{{| u_val := {T.N(val)}; u_next := {T.N(nxt)}; u_guid := {MM.b(guid)}; '
            f'u_recs := {T.lst(enc_rec(*r) for r in recs)} |}}')


def gen_uidl(rng):
    n = rng.choice([0, 0, 1, 2, 3, 5])
    uids = sorted(rng.sample(range(1, 40), n))
    if rng.random() < 0.2:
        rng.shuffle(uids)
    recs = []
    for u in uids:
        fields = []
        for k in rng.sample('ETWXa', rng.randint(0, 3)):
            fields.append((k, ''.join(rng.choice('0123456789abcdefM.-') for _ in range(rng.randint(0, 6)))))
        key = '%d.M%dP%dQ%d.h' % (rng.randint(1, 10**9), rng.randint(0, 999), rng.randint(1, 999), u)
        fname = key + rng.choice(['', ':2,', ':2,S', ':2,FS', ':2,DFRST', ':1,x', ':2,S:x'])
        recs.append((u, fields, fname))
    guid = ''.join(rng.choice('0123456789abcdef') for _ in range(rng.choice([1, 8, 32])))
    return (rng.choice([1, 7, 2**31, 4294967295]), rng.randint(1, 60), guid, recs)


def impl_print(val, nxt, guid, recs) -> bytes:
    from pymap.backend.maildir.uidlist import UidList, Record
    u = UidList('/nonexistent', val, nxt, guid.encode())
    for uid, fields, fname in recs:
        u.set(Record(uid, dict(fields), fname))
    buf = io.StringIO(newline='')
    u.write(buf)
    return buf.getvalue().encode()


def impl_parse(data: bytes, _again: bool = True):
    """UidList.file_read on a file with these bytes (text mode, universal
    newlines) -> (val, next, guid, recs) or None when it raises."""
    from pymap.backend.maildir.uidlist import UidList
    try:
        fp = io.TextIOWrapper(io.BytesIO(data), encoding='ascii', newline=None)
        u = UidList.open('/nonexistent', fp)
        u.read(fp)
    except (ValueError, IndexError, KeyError, UnicodeDecodeError):
        return None
    guid = u.global_uid.decode()
    if _again:
        other = impl_parse(data, _again=False)
        if other is not None and other[2] != guid:
            guid = ''           # an empty G field: a fresh random id is drawn
    return (u.uid_validity, u.next_uid, guid,
            [(r.uid, list(r.fields.items()), r.filename) for r in u.records])


def _plain(x) -> bool:
    return isinstance(x, int) and x >= 0


def section_text(ctx) -> None:
    rng = ctx.rng
    n = ctx.scale(150, 4000)
    pc, keep_p, rc, keep_r = [], [], [], []
    texts = []
    for _ in range(n):
        v = gen_uidl(rng)
        data = impl_print(*v)
        pc.append(T.pair(enc_uidl(*v), T.bytes_(data)))
        keep_p.append(v)
        texts.append(data)
        ctx.count(('uidl_print', data))
        # monitor: what the backend writes it reads back as the same records
        back = impl_parse(data)
        want = (v[0], v[1], v[2], [(u, sorted(f), fn) for u, f, fn in _last_wins(v[3])])
        if back is None or (back[0], back[1], back[2],
                            [(u, sorted(f), fn) for u, f, fn in back[3]]) != want:
            ctx.failure('control_files_readable',
                        f'a written dovecot-uidlist does not read back: {data!r}',
                        {'text': data.hex()}, {'kind': 'uidlist_roundtrip'})
    # mutated and raw text for the reader
    alphabet = b'0123456789 :VNG3ET\r\nab,.'
    sweep = []
    base = b'3 V7 N3 Gab\r\n1 E1 T2 :k.h:2,S\r\n2 :k2\r\n'
    for k in range(len(base) + 1):
        for c in alphabet:
            sweep.append(base[:k] + bytes([c]) + base[k:])
        if k < len(base):
            sweep.append(base[:k] + base[k + 1:])
    for data in texts[:n // 2] + sweep:
        if data in sweep:
            cand = data
        else:
            cand = bytearray(data)
            for _ in range(rng.randint(1, 3)):
                pos = rng.randrange(len(cand) + 1)
                r = rng.random()
                if r < 0.4:
                    cand.insert(pos, rng.choice(alphabet))
                elif r < 0.7 and cand:
                    del cand[min(pos, len(cand) - 1)]
                elif cand:
                    cand[min(pos, len(cand) - 1)] = rng.choice(alphabet)
            cand = bytes(cand)
        if b'_' in cand or b'+' in cand or b'-' in cand:
            continue
        got = impl_parse(cand)
        if got is not None and not _model_domain(cand, got):
            continue
        rc.append(T.pair(T.bytes_(cand), T.option(
            enc_uidl(got[0], got[1], got[2], got[3]) if got else None)))
        keep_r.append(cand)
        ctx.count(('uidl_parse', cand), nontrivial=got is not None)
    ctx.sample({'uidlist_text': texts[0].decode('latin-1') if texts else ''})
    for i in ctx.run_cases('uidl_print', HEADER, 'uidl * bytes', pc, 'chk_uidl_print')[:5]:
        ctx.disagreement('uidl_print', {'value': repr(keep_p[i])})
    for i in ctx.run_cases('uidl_parse', HEADER, 'bytes * option uidl', rc, 'chk_uidl_parse')[:5]:
        ctx.disagreement('uidl_parse', {'text': keep_r[i].hex(), 'impl': repr(impl_parse(keep_r[i]))})
    # subscriptions
    from pymap.backend.maildir.subscriptions import Subscriptions
    sp, sr, keep_s = [], [], []
    for _ in range(n // 2):
        names = [''.join(rng.choice('abc/. ') for _ in range(rng.randint(0, 5)))
                 for _ in range(rng.randint(0, 4))]
        s = Subscriptions('/nonexistent')
        for x in names:
            s.add(x)
        buf = io.StringIO(newline='')
        s.write(buf)
        data = buf.getvalue().encode()
        sp.append(T.pair(T.lst(MM.b(x) for x in s.subscribed), T.bytes_(data)))
        if rng.random() < 0.5 and data:
            d2 = bytearray(data)
            d2[rng.randrange(len(d2))] = rng.choice(b'\r\n a')
            data = bytes(d2)
        s2 = Subscriptions('/nonexistent')
        s2.read(io.TextIOWrapper(io.BytesIO(data), encoding='ascii', newline=None))
        sr.append(T.pair(T.bytes_(data), T.lst(MM.b(x) for x in s2.subscribed)))
        keep_s.append(data)
        ctx.count(('subs', data))
    for i in ctx.run_cases('subs_print', HEADER, 'list bytes * bytes', sp, 'chk_subs_print')[:3]:
        ctx.disagreement('subs_print', {'case': i})
    for i in ctx.run_cases('subs_parse', HEADER, 'bytes * list bytes', sr, 'chk_subs_parse')[:3]:
        ctx.disagreement('subs_parse', {'text': keep_s[i].hex()})


def _last_wins(recs):
    out: dict = {}
    for u, f, fn in recs:
        d: dict = {}
        for k, v in f:
            d[k] = v
        out[u] = (u, list(d.items()), fn)
    return list(out.values())


def _model_domain(text: bytes, got) -> bool:
    """Numerals Python's int() accepts beyond plain digit strings (signs,
    underscores, surrounding white space) are outside the modelled domain."""
    import re
    for m in re.finditer(rb'(?:^|[\n ])([VN]?)([^ :\n]*)', text):
        pass
    vals = [got[0], got[1]] + [r[0] for r in got[3]]
    if not all(_plain(v) for v in vals):
        return False
    # a numeral spelled with white space such as "V\x0b7": detect by re-printing
    for tok in re.split(rb'[ \n]', text):
        if tok[:1] in (b'V', b'N') and tok[1:] and not tok[1:].isdigit():
            try:
                int(tok[1:])
                return False
            except ValueError:
                pass
    for line in text.replace(b'\r\n', b'\n').replace(b'\r', b'\n').split(b'\n')[1:]:
        first = line.split(b':', 1)[0].split(b' ')[0]
        if first and not first.isdigit():
            try:
                int(first)
                return False
            except ValueError:
                pass
    return True


# -------------------------------------------------------- traces and crashes
def fixed_histories() -> list:
    A = lambda f, *ms: ('append', f, list(ms))
    return [
        [A([], ('S', 1)), ('select', []), ('store', [1], '+', 'F'), ('create', ['foo']),
         ('copy', [1], ['foo']), ('move', [1], ['foo']), ('check',)],
        [('create', ['foo']), ('create', ['foo', 'bar']), A(['foo', 'bar'], ('', 1)),
         ('subscribe', ['foo']), ('rename', ['foo'], ['baz']), ('select', ['baz', 'bar']),
         ('store', [1], '+', 'T'), ('expunge',)],
        [A([], ('', 1), ('F', 2), ('S', 3)), ('select', []), ('store', [1, 3], '+', 'T'),
         ('expunge',), A([], ('', 4)), ('check',), ('unsubscribe', ['foo'])],
        [('create', ['foo']), A(['foo'], ('', 1)), A(['foo'], ('', 2)), ('select', ['foo']),
         ('move', [1, 2], []), ('close',), ('select', []), ('store', [1], '=', 'DR')],
        # a destination whose uid list still records an expunged message (no
        # CHECK since), then MOVE / COPY / APPEND into it
        [('create', ['foo']), A(['foo'], ('', 1), ('', 2)), A([], ('', 3), ('S', 4)),
         ('select', ['foo']), ('store', [1], '+', 'T'), ('expunge',), ('select', []),
         ('move', [1], ['foo']), ('copy', [2], ['foo']), A(['foo'], ('F', 5))],
        # records dropped by CHECK, then new messages: no uid may come back
        [A([], ('', 1), ('', 2), ('', 3)), ('select', []), ('store', [1, 2], '+', 'T'),
         ('expunge',), ('check',), A([], ('', 4)), A([], ('F', 5)), ('check',)],
    ]


def section_histories(ctx) -> list:
    rng = ctx.rng
    n = ctx.scale(6, 100)
    jobs = []
    for i, h in enumerate(fixed_histories()):
        jobs.append({'layout': '++', 'history': h})
        jobs.append({'layout': 'fs', 'history': h})
    for i in range(n):
        jobs.append({'layout': rng.choice(['++', 'fs']),
                     'history': MM.gen_history(rng, rng.randint(6, 14))})
    # the cross-filesystem configuration: TMPDIR on /dev/shm, store on /tmp
    for h in fixed_histories()[:2]:
        jobs.append({'layout': '++', 'history': h, 'crossfs': True})
    results = M.run_experiments([dict(j, ks=None, id=i) for i, j in enumerate(jobs)])
    cases, keep = [], []
    hist = {}
    for r in results:
        ref = r.get('ref')
        if not ref or ref.get('error') or 'cmds' not in ref:
            ctx.broken.append('reference run failed: ' + json.dumps(
                {'history': r['history'], 'error': ref and ref.get('error')})[:500])
            continue
        bye = [c for c in ref['cmds'] if c['status'] in ('BYE', 'NONE', 'BAD')]
        for c in bye:
            kind = 'exdev' if 'cross-device' in (c.get('exc') or '') else 'command_failed'
            ctx.failure('configurations' if r['crossfs'] else 'served_after_restart',
                        f'{c["cmd"]} ended in {c["status"]}: {c["resp"][:120]} {c.get("exc")}',
                        {'layout': r['layout'], 'history': r['history'], 'crossfs': r['crossfs']},
                        {'kind': kind})
        for clause, text, obs in MM.reference_failures(r):
            ctx.failure(clause, text, {'layout': r['layout'], 'history': r['history']}, obs)
        case, unknown = MM.history_case(r)
        if unknown and not bye:
            ctx.disagreement('history', {'what': 'filesystem call outside the modelled paths',
                                         'events': unknown[:4], 'history': r['history']})
        cases.append(case)
        keep.append(r)
        for c in ref['cmds']:
            hist[c['cmd'][0]] = hist.get(c['cmd'][0], 0) + 1
            ctx.count(('trace', r['layout'], json.dumps(c['cmd']), len(c['events'])),
                      nontrivial=len(c['events']) > 2)
        # monitor: no lock file is left by a completed history
        if r['ref_locks']:
            ctx.failure('control_files_readable', f'lock files left by a clean run: {r["ref_locks"]}',
                        {'history': r['history']}, {'kind': 'lock_leak'})
    ctx.extra['commands_traced'] = hist
    if keep:
        ctx.sample({'history': keep[0]['history'],
                    'ops_of_first_command': [e[:3] for e in keep[0]['ref']['cmds'][0]['events']]})
    bad = ctx.run_cases('history', HEADER, 'layout * fs * list (cmd * list fsop * ack) * fs',
                        cases, 'chk_history', shard=6)
    for i in bad[:5]:
        ctx.disagreement('history', {'layout': keep[i]['layout'], 'history': keep[i]['history'],
                                     'crossfs': keep[i]['crossfs'],
                                     'what': 'operation trace / status / final directory differ '
                                             'from Ops.run_cmd'})
    return bad


def section_crashes(ctx) -> None:
    rng = ctx.rng
    jobs = []
    fixed = fixed_histories()
    for i, h in enumerate(fixed):
        jobs.append({'layout': '++' if i % 2 == 0 else 'fs', 'history': h})
    jobs.append({'layout': '++', 'history': fixed[0], 'crossfs': True})
    for i in range(ctx.scale(4, 60)):
        jobs.append({'layout': rng.choice(['++', 'fs']),
                     'history': MM.gen_history(rng, rng.randint(3, 6),
                                               weights={'noop': 0, 'examine': 0}),
                     'crossfs': rng.random() < 0.15})
    # every filesystem-operation boundary of every history (the directory is
    # copied at each boundary of one traced run); a sample of the boundaries
    # is also reached by really killing a child process there
    nkill = ctx.scale(1, 6)

    def pick(total):
        return range(total + 1)

    def pick_kills(total):
        return rng.sample(range(total + 1), min(nkill, total + 1))
    results = M.crash_campaign(jobs, pick, pick_kills)
    cases, keep = [], []
    points = 0
    kills = 0
    kinds: dict = {}
    for r in results:
        ref = r.get('ref')
        if not ref or ref.get('error') or 'cmds' not in ref or not r['crashes']:
            continue
        if any(c['status'] in ('BYE', 'NONE', 'BAD') for c in ref['cmds']):
            continue          # reported by section_histories' monitors
        ok = True
        for clause, text, obs in MM.reference_failures(r):
            ctx.failure(clause, text, {'layout': r['layout'], 'history': r['history']}, obs)
        for kl in r['kills']:
            kills += 1
            ctx.count(('kill', r['layout'], json.dumps(r['history']), kl['k']))
            if not MM.determinism_ok(r, kl):
                ctx.broken.append(f'harness: killed run at k={kl["k"]} did not replay the '
                                  f'reference trace ({r["history"]})')
                ok = False
            elif not MM.kill_matches_copy(r, kl):
                ctx.disagreement('kill_vs_copy', {
                    'what': 'a process really killed at k leaves another state than the '
                            'copy of the directory taken at k', 'k': kl['k'],
                    'history': r['history'], 'layout': r['layout']})
            for clause, text, obs in MM.durability_failures(r, kl):
                ctx.failure(clause, text, {'layout': r['layout'], 'history': r['history'],
                                           'k': kl['k'], 'crossfs': r['crossfs'],
                                           'real_kill': True}, obs)
        for cr in r['crashes']:
            points += 1
            a = MM.acked_count(cr)
            kinds[a == len(ref['cmds'])] = kinds.get(a == len(ref['cmds']), 0) + 1
            ctx.count(('crash', r['layout'], json.dumps(r['history']), cr['k']))
            for clause, text, obs in MM.durability_failures(r, cr):
                ctx.failure(clause, text, {'layout': r['layout'], 'history': r['history'],
                                           'k': cr['k'], 'crossfs': r['crossfs']}, obs)
        if ok:
            cases.append(MM.crash_case(r))
            keep.append(r)
    ctx.extra['crash_points'] = points
    ctx.extra['real_kills'] = kills
    ctx.extra['crash_histories'] = len(keep)
    ctx.exhaustive = True     # every operation boundary of every generated history
    bad = ctx.run_cases('crash', HEADER, 'layout * fs * list cmd * list (nat * bool * odump)',
                        cases, 'chk_crash', shard=2)
    for i in bad[:5]:
        ctx.disagreement('crash', {'layout': keep[i]['layout'], 'history': keep[i]['history'],
                                   'what': 'recover (crash k ops) differs from what a fresh '
                                           'server serves for some k'})


# ------------------------------------- DELETE and external deliveries (round 5)
XW = {'delete': 4, 'deliver': 3, 'create': 4, 'noop': 0, 'rename': 1, 'copy': 2, 'move': 2}


def fixed_xhistories(layout: str = 'fs') -> list:
    A = lambda f, *ms: ('append', f, list(ms))
    D = lambda f, cid, sub='new', info='': ('deliver', f, sub, info, cid)
    return [
        # DELETE of a folder with messages, then CREATE of the same name
        [('create', ['foo']), A(['foo'], ('S', 1), ('', 2)), ('subscribe', ['foo']),
         ('select', ['foo']), ('store', [1], '+', 'F'), ('close',), ('delete', ['foo']),
         ('create', ['foo']), A(['foo'], ('', 3)), ('examine', ['foo'])],
        # deliveries into INBOX and a folder, adopted by the next scan
        [A([], ('', 1)), D([], 50), ('examine', []), ('create', ['foo']), D(['foo'], 51),
         ('examine', ['foo']), D(['foo'], 52, 'cur', '2,S'), ('examine', ['foo']), ('select', ['foo']),
         # the highest uid is expunged and its record dropped: the next adopted
         # file must not get it back
         ('store', [2], '+', 'T'), ('expunge',), ('check',), D(['foo'], 53), ('examine', ['foo']),
         ('close',), ('delete', ['foo'])],
        # parent and child; refused deletions
        [('create', ['foo']), ('create', ['foo', 'bar']), A(['foo', 'bar'], ('', 1)),
         ('delete', []), ('delete', ['foo']), ('delete', ['foo', 'bar'])]
        # (++: the parent is gone by now, and the rmdir of a missing directory
        #  fails: not usable in a crash numbering)
        + ([('delete', ['foo'])] if layout == 'fs' else [])
        + [('create', ['foo']), D(['foo'], 54), ('examine', ['foo'])],
    ]


def _xreport_reference(ctx, r, clause_bye='served_after_restart') -> bool:
    ref = r.get('ref')
    if not ref or ref.get('error') or 'cmds' not in ref:
        ctx.broken.append('reference run failed: ' + json.dumps(
            {'history': r['history'], 'error': ref and ref.get('error')})[:500])
        return False
    bye = [c for c in ref['cmds'] if c['status'] in ('BYE', 'NONE', 'BAD')]
    for c in bye:
        ctx.failure(clause_bye, f'{c["cmd"]} ended in {c["status"]}: {c["resp"][:120]} '
                    f'{c.get("exc")}', {'layout': r['layout'], 'history': r['history']},
                    {'kind': 'command_failed'})
    for clause, text, obs in MM.reference_failures(r):
        ctx.failure(clause, text, {'layout': r['layout'], 'history': r['history']}, obs)
    return not bye


def section_xcrashes(ctx) -> None:
    """Histories with DELETE and external deliveries: operation traces against
    Delete.run_xcmd, and the kill-and-restart enumeration over every operation
    boundary (in particular every crash point of every DELETE)."""
    rng = ctx.rng
    jobs = []
    for lay in ('++', 'fs'):
        for h in fixed_xhistories(lay):
            jobs.append({'layout': lay, 'history': h})
    for i in range(ctx.scale(3, 25)):
        lay = rng.choice(['++', 'fs'])
        jobs.append({'layout': lay,
                     'history': MM.gen_history(rng, rng.randint(5, 9), weights=XW, layout=lay)})
    nkill = ctx.scale(1, 4)

    def pick(total):
        return range(total + 1)

    def pick_kills(total):
        return rng.sample(range(total + 1), min(nkill, total + 1))
    results = M.crash_campaign(jobs, pick, pick_kills)
    # trace-only histories (a DELETE of a missing folder attempts an rmdir
    # that fails in the ++ layout: not usable as a crash numbering)
    tjobs = []
    for i in range(ctx.scale(3, 25)):
        lay = rng.choice(['++', 'fs'])
        tjobs.append({'layout': lay, 'history': MM.gen_history(
            rng, rng.randint(6, 12), weights=XW, layout=lay, failing_delete=True)})
    tjobs.append({'layout': '++', 'history': [('create', ['foo']), ('delete', ['nonexistent']),
                                             ('delete', ['foo']), ('delete', ['foo'])]})
    tresults = M.run_experiments([dict(j, ks=None, id=i) for i, j in enumerate(tjobs)])
    hcases, hkeep, ccases, ckeep = [], [], [], []
    points = kills = dpoints = 0
    hist: dict = {}
    for r in list(results) + list(tresults):
        if not _xreport_reference(ctx, r):
            continue
        ref = r['ref']
        case, unknown = MM.xhistory_case(r)
        if unknown:
            ctx.disagreement('xhistory', {'what': 'filesystem call outside the modelled paths',
                                          'events': unknown[:4], 'history': r['history']})
        hcases.append(case)
        hkeep.append(r)
        for c in ref['cmds']:
            if c['cmd'][0] in ('delete', 'deliver') or (c['cmd'][0] == 'examine'
                                                        and len(c['events']) > 2):
                hist[c['cmd'][0]] = hist.get(c['cmd'][0], 0) + 1
            ctx.count(('xtrace', r['layout'], json.dumps(c['cmd']), len(c['events'])),
                      nontrivial=len(c['events']) > 2)
        if r.get('ref_locks'):
            ctx.failure('control_files_readable', f'lock files left by a clean run: {r["ref_locks"]}',
                        {'history': r['history']}, {'kind': 'lock_leak'})
        if not r.get('crashes'):
            continue
        ok = True
        # which operation indices belong to a DELETE
        spans, n = [], 0
        for c in ref['cmds']:
            if c['cmd'][0] == 'delete':
                spans.append((n, n + len(c['events'])))
            n += len(c['events'])
        for kl in r['kills']:
            kills += 1
            ctx.count(('xkill', r['layout'], json.dumps(r['history']), kl['k']))
            if not MM.determinism_ok(r, kl):
                ctx.broken.append(f'harness: killed run at k={kl["k"]} did not replay the '
                                  f'reference trace ({r["history"]})')
                ok = False
            elif not MM.kill_matches_copy(r, kl):
                ctx.disagreement('kill_vs_copy', {
                    'what': 'a process really killed at k leaves another state than the '
                            'copy of the directory taken at k', 'k': kl['k'],
                    'history': r['history'], 'layout': r['layout']})
            for clause, text, obs in MM.durability_failures(r, kl):
                ctx.failure(clause, text, {'layout': r['layout'], 'history': r['history'],
                                           'k': kl['k'], 'real_kill': True}, obs)
        for cr in r['crashes']:
            points += 1
            if any(a < cr['k'] <= b_ for a, b_ in spans):
                dpoints += 1
            ctx.count(('xcrash', r['layout'], json.dumps(r['history']), cr['k']))
            for clause, text, obs in MM.durability_failures(r, cr):
                ctx.failure(clause, text, {'layout': r['layout'], 'history': r['history'],
                                           'k': cr['k']}, obs)
        if ok:
            ccases.append(MM.xcrash_case(r))
            ckeep.append(r)
    ctx.extra['x_commands_traced'] = hist
    ctx.extra['x_crash_points'] = points
    ctx.extra['x_crash_points_inside_delete'] = dpoints
    ctx.extra['x_real_kills'] = kills
    if hkeep:
        ctx.sample({'xhistory': hkeep[0]['history']})
    bad = ctx.run_cases('xhistory', MM.XHEADER,
                        'layout * fs * list (xcmd * list fsop * ack) * fs',
                        hcases, 'xchk_history', shard=6)
    for i in bad[:5]:
        ctx.disagreement('xhistory', {'layout': hkeep[i]['layout'], 'history': hkeep[i]['history'],
                                      'what': 'operation trace / status / final directory differ '
                                              'from Delete.run_xcmd'})
    bad = ctx.run_cases('xcrash', MM.XHEADER,
                        'layout * fs * list xcmd * list (nat * bool * odump)',
                        ccases, 'xchk_crash', shard=2)
    for i in bad[:5]:
        ctx.disagreement('xcrash', {'layout': ckeep[i]['layout'], 'history': ckeep[i]['history'],
                                    'what': 'recover (crash k ops) differs from what a fresh '
                                            'server serves for some k'})


# ------------------------------------------------ two connections, one folder
def _literal(cid: int) -> bytes:
    return M.message_bytes(cid)


async def _contended(layout: str, variant: str) -> list:
    """Two sessions (each with its own MailboxSet, as every connection has)
    update the uid list of one folder at the same moment: B's command is run
    in a second thread at the instant A is inside "lock; read; modify; write;
    unlock" (a hook on UidList.file_write; A waits a moment for it).  The
    only thing that serialises them is the lock file: with a working lock B
    waits.  Then the server is restarted and every acknowledged uid must lead
    to the message it was announced for, no uid acknowledged twice."""
    import os
    import threading
    from pymap.backend.maildir import Session, FilterSet
    from pymap.backend.maildir.layout import MaildirLayout
    from pymap.backend.maildir.mailbox import Maildir, MailboxSet
    from pymap.backend.maildir.uidlist import UidList
    from pymap.parsing.message import AppendMessage
    from pymap.parsing.specials import FetchRequirement, SequenceSet
    from ..pymap_env import MaildirEnv
    env = await MaildirEnv(layout).start()
    path = os.path.join(env.base, 'u1')

    def connect():
        lay = MaildirLayout.get(path, layout, Maildir)
        maildir = Maildir(path, create=not os.path.exists(path))
        return Session('u1', env.config, MailboxSet(maildir, lay), FilterSet(path))

    async def listing(session, mailbox):
        snapshot, selected = await session.select_mailbox(mailbox, readonly=True)
        msgs, _ = await session.fetch_messages(selected, SequenceSet.all(), False)
        out = {}
        for _, msg in msgs:
            loaded = await msg.load_content(FetchRequirement.CONTENT)
            out[msg.uid] = M.cid_of(bytes(loaded))
        return snapshot.uid_validity, out, selected

    fails: list = []
    acks: list = []          # (who, validity, [uids], [cids])
    try:
        a, b = connect(), connect()
        res, _ = await a.append_messages('INBOX', [AppendMessage(_literal(1)),
                                                   AppendMessage(_literal(2))])
        acks.append(('A', res.validity, sorted(res.uids), [1, 2]))
        await listing(b, 'INBOX')
        target = 'INBOX'
        if variant == 'copy':
            await a.create_mailbox('dst')
            target = 'dst'
            await listing(b, 'dst')
            await listing(a, 'dst')

        def b_command():
            try:
                r, _ = asyncio.run(b.append_messages(target, [AppendMessage(_literal(9))]))
                acks.append(('B', r.validity, sorted(r.uids), [9]))
            except BaseException as exc:
                fails.append(('served_after_restart', f'B: APPEND failed: {exc!r}',
                              {'kind': 'command_failed'}))
        thread_b = threading.Thread(target=b_command)
        real = UidList.file_write
        state = {'armed': True}

        def file_write(self):
            if state['armed'] and threading.current_thread() is not thread_b:
                state['armed'] = False
                thread_b.start()
                thread_b.join(0.6)
            return real(self)
        UidList.file_write = file_write
        try:
            if variant == 'append':
                res, _ = await a.append_messages('INBOX', [AppendMessage(_literal(3)),
                                                           AppendMessage(_literal(4))])
                acks.append(('A', res.validity, sorted(res.uids), [3, 4]))
            else:
                _v, _o, selected = await listing(a, 'INBOX')
                _snap, selected = await a.select_mailbox('INBOX')
                res, _ = await a.copy_messages(selected, SequenceSet.all(uid=True), 'dst')
                mm = re.match(rb'\[COPYUID (\d+) \S+ (\S+)\]', bytes(res))
                dst_uids = []
                for part in mm.group(2).split(b','):
                    lo, _, hi = part.partition(b':')
                    dst_uids += list(range(int(lo), int(hi or lo) + 1))
                acks.append(('A', int(mm.group(1)), sorted(dst_uids), [1, 2]))
        finally:
            UidList.file_write = real
        thread_b.join(30)
        if thread_b.is_alive():
            fails.append(('served_after_restart', 'B never finished', {'kind': 'command_hangs'}))
        # restart: fresh objects on the same directory
        validity, served, _sel = await listing(connect(), target)
        seen: dict = {}
        expect = 0
        in_target = [x for x in acks if not (variant == 'copy' and x is acks[0])]
        for who, val, uids, cids in in_target:
            expect += len(cids)
            for uid in uids:
                if uid in seen:
                    fails.append(('uid_unique', f'uid {uid} of {target} was acknowledged twice: '
                                  f'to {seen[uid]} and to {who}', {'kind': 'uid_acked_twice'}))
                seen[uid] = who
            if val != validity:
                continue
            got = sorted(served.get(uid, -1) for uid in uids)
            if got != sorted(cids):
                fails.append(('served_after_restart',
                              f'{who} was told uids {uids} for messages {cids} in {target}; after '
                              f'the restart those uids hold {got}', {'kind': 'acked_not_served'}))
        if len(served) != expect:
            fails.append(('served_after_restart', f'{len(served)} messages served in {target}, '
                          f'{expect} were acknowledged', {'kind': 'lost_message'}))
    finally:
        env.close()
    return fails


def section_contention(ctx) -> None:
    from ..pymap_env import run as arun
    for layout in ('++', 'fs'):
        for variant in ('append', 'copy'):
            fails = arun(_contended(layout, variant), timeout=120)
            ctx.count(('contended', layout, variant))
            for clause, text, obs in fails:
                ctx.failure(clause, f'two connections, {variant} + APPEND, layout {layout}: {text}',
                            {'layout': layout, 'variant': variant, 'scenario': 'contended'}, obs)


def run(ctx) -> None:
    ctx.rule = ('histories of APPEND/STORE/COPY/MOVE/EXPUNGE/CREATE/RENAME/SUBSCRIBE/CHECK on one '
                'connection of the real maildir backend (fixed ones + seeded random ones, both '
                'layouts, TMPDIR on the same and on another filesystem); trace cases: one per '
                'history, counted per command, non-trivial = the command did more than the '
                'lock/unlock of reset; crash cases: one per (history, k), k ranging over every '
                'filesystem-operation boundary (thorough) or one residue class mod 3 (quick)')
    ctx.assumptions += [
        'rename(2) within one filesystem is atomic; power loss (no fsync ordering) is outside the property',
        'one server process, one connection at a time: thread-level interleavings of the '
        'production executor are not explored',
        'maildir keys and temp names are fresh (supplied by the run, checked fresh by the model)',
        'control files are ASCII; numerals are plain digit strings',
    ]
    import time
    ctx.check_proofs(['MaildirFS/Check', 'MaildirFS/DeleteCheck'])
    timing = ctx.extra.setdefault('section_wall_s', {})
    only = [x for x in (os.environ.get('VERIF_C15_SECTIONS') or '').split(',') if x]
    for name, sec in (('text', section_text), ('histories', section_histories),
                      ('contention', section_contention), ('crashes', section_crashes),
                      ('xcrashes', section_xcrashes)):
        if only and name not in only:       # development aid: a subset of the sections
            continue
        t0 = time.time()
        sec(ctx)
        timing[name] = round(time.time() - t0, 1)


def replay(ctx, obj) -> int:
    r = obj
    jobs = [{'layout': r.get('layout', '++'), 'history': [MM._tup(c) for c in r['history']],
             'crossfs': r.get('crossfs', False)}]
    ks = [r['k']] if 'k' in r else []
    res = M.crash_campaign(jobs, lambda total: ks, lambda total: ks)[0]
    for c in res['ref']['cmds']:
        print(c['cmd'], c['status'])
    for cr in res['crashes'] + res['kills']:
        print('k', cr['k'], 'real kill' if cr.get('killed') else 'copy', 'locks', cr['locks'])
        print(' raw ', {f: [(m['uid'], m['flags'], m['cid']) for m in v['msgs']]
                        for f, v in cr['dump_raw']['folders'].items()}, cr['dump_raw']['errors'])
        for f in MM.durability_failures(res, cr):
            print(' FAIL', f)
    return 0
