"""C05 — the connection state machine follows RFC 3501 section 3.

Model  : coq/theories/Conn/ConnFSM.v (conn_step over a backend parameter and the
         command table), Conn/CmdTable.v generated here from the real classes.
Proofs : Conn/ConnFSMProofs.v, statements in Props/C05.v.
(K)    : sequences over an alphabet of concrete command lines run on a fresh
         dict backend each; per command the tagged condition, the reason class,
         untagged BYE, continuation lines taken, the backend calls made (glass
         box) and the ConnectionState afterwards are compared with the model
         (vm_compute, Conn/ConnCheck.v chk_conn).
(S)    : monitor = RFC 3501 section 3/6 state table written here independently
         of the model and of pymap's classes, driven only by what is on the
         wire (+ the call log for "a refused command has no effect").
"""
from __future__ import annotations

import base64
import binascii
import os
import time

from .. import c05_multiconn
from .. import coqterm as T
from ..conn_common import (Recorder, cache_sasl_entry_points, coq_bytes, has_bye,
                           run_exchange, small_dict_env, tagged, write_cmd_table)

HEADER = ('From Coq Require Import String.\n'
          'From PV Require Import Base.Prelude Conn.CmdEntry Conn.CmdTable Conn.ConnFSM '
          'Conn.ConnCheck.\nOpen Scope string_scope.\n')

USER = b'testuser'
BOX_COUNTS = {'INBOX': 3, 'Sent': 2, 'Trash': 1}
BOXES = {'INBOX': (3, False), 'Sent': (2, False), 'Trash': (1, True)}
MSG = b'From: x@example.org\r\nSubject: new\r\n\r\nhello\r\n'


# ------------------------------------------------------------------ alphabet
def cline(raw: bytes) -> dict:
    try:
        dec = base64.b64decode(raw + b'\r\n')
    except binascii.Error:
        dec = None
    utf8 = True
    if dec is not None:
        try:
            dec.decode('utf-8')
        except UnicodeDecodeError:
            utf8 = False
    return {'raw': raw, 'dec': dec, 'utf8': utf8}


def cline_term(raw: bytes) -> str:
    c = cline(raw)
    dec = 'None' if c['dec'] is None else f'(Some {coq_bytes(c["dec"])})'
    return f'(mk_cline {coq_bytes(raw)} {dec} {T.boolean(c["utf8"])})'


def b64(b: bytes) -> bytes:
    return base64.b64encode(b)


class Sym:
    """One letter of the alphabet: a concrete command line, the model command
    it denotes (written by hand, not obtained from pymap's parser), the
    built-in command it spells (None = not a command at all), whether its
    syntax is valid, and the lines the client sends when asked to continue."""

    def __init__(self, key, line, name, valid, model, lines=(), proto_error=False,
                 core=True):
        self.key = key
        self.line = line
        self.name = name
        self.valid = valid
        self.model = model
        self.lines = list(lines)
        self.proto_error = proto_error   # a valid command whose exchange the client botches
        self.core = core                 # part of the exhaustive-sequence alphabet


def _mb(name: str) -> str:
    return f'(AMailbox {coq_bytes(name)})'


def _cmd(name: str, args: str = 'ANone') -> str:
    return f'(CCmd "{name}" {args})'


def _auth(mech: bytes, lines) -> str:
    return f'(AAuth {coq_bytes(mech)} {T.lst(cline_term(l) for l in lines)})'


def build_alphabet() -> list[Sym]:
    A: list[Sym] = []

    def add(*a, **kw):
        A.append(Sym(*a, **kw))
    inv = 'CInvalid'
    lit = b'APPEND INBOX {%d}\r\n%s' % (len(MSG), MSG)
    # --- any state
    add('capability', b'CAPABILITY', 'CAPABILITY', True, _cmd('CAPABILITY'))
    add('noop', b'NOOP', 'NOOP', True, _cmd('NOOP'))
    add('logout', b'LOGOUT', 'LOGOUT', True, _cmd('LOGOUT'))
    add('id_nil', b'ID NIL', 'ID', True, _cmd('ID'))
    add('id_list', b'ID ("name" "x")', 'ID', True, _cmd('ID'), core=False)
    add('noop_args', b'NOOP now', 'NOOP', False, inv)
    add('capability_args', b'CAPABILITY x', 'CAPABILITY', False, inv, core=False)
    add('logout_args', b'LOGOUT x', 'LOGOUT', False, inv, core=False)
    add('id_bad', b'ID', 'ID', False, inv, core=False)
    add('unknown', b'FROBNICATE', None, False, inv)
    add('uid_alone', b'UID', 'UID', False, inv, core=False)
    add('uid_unknown', b'UID FROB 1', 'UID', False, inv, core=False)
    # --- not authenticated
    add('login_ok', b'LOGIN testuser testpass', 'LOGIN', True,
        _cmd('LOGIN', f'(ALogin {coq_bytes(USER)} {coq_bytes(b"testpass")})'))
    add('login_bad', b'LOGIN testuser wrong', 'LOGIN', True,
        _cmd('LOGIN', f'(ALogin {coq_bytes(USER)} {coq_bytes(b"wrong")})'))
    add('login_lit', b'LOGIN {8}\r\ntestuser {8}\r\ntestpass', 'LOGIN', True,
        _cmd('LOGIN', f'(ALogin {coq_bytes(USER)} {coq_bytes(b"testpass")})'), core=False)
    add('login_nouser', b'LOGIN nobody x', 'LOGIN', True,
        _cmd('LOGIN', f'(ALogin {coq_bytes(b"nobody")} {coq_bytes(b"x")})'), core=False)
    add('login_args', b'LOGIN testuser', 'LOGIN', False, inv)
    good = b64(b'\0testuser\0testpass')
    add('auth_plain_ok', b'AUTHENTICATE PLAIN', 'AUTHENTICATE', True,
        _cmd('AUTHENTICATE', _auth(b'PLAIN', [good])), [good])
    wrong = b64(b'\0testuser\0wrong')
    add('auth_plain_bad', b'AUTHENTICATE plain', 'AUTHENTICATE', True,
        _cmd('AUTHENTICATE', _auth(b'PLAIN', [wrong])), [wrong], core=False)
    add('auth_plain_cancel', b'AUTHENTICATE PLAIN', 'AUTHENTICATE', True,
        _cmd('AUTHENTICATE', _auth(b'PLAIN', [b'*'])), [b'*'], proto_error=True)
    add('auth_plain_b64', b'AUTHENTICATE PLAIN', 'AUTHENTICATE', True,
        _cmd('AUTHENTICATE', _auth(b'PLAIN', [b'AAA'])), [b'AAA'], proto_error=True,
        core=False)
    add('auth_plain_garbage', b'AUTHENTICATE PLAIN', 'AUTHENTICATE', True,
        _cmd('AUTHENTICATE', _auth(b'PLAIN', [b'!!!!'])), [b'!!!!'], proto_error=True,
        core=False)
    lu, lp = b64(b'testuser'), b64(b'testpass')
    add('auth_login_ok', b'AUTHENTICATE LOGIN', 'AUTHENTICATE', True,
        _cmd('AUTHENTICATE', _auth(b'LOGIN', [lu, lp])), [lu, lp], core=False)
    add('auth_login_cancel', b'AUTHENTICATE LOGIN', 'AUTHENTICATE', True,
        _cmd('AUTHENTICATE', _auth(b'LOGIN', [lu, b'*'])), [lu, b'*'], proto_error=True,
        core=False)
    add('auth_unknown_mech', b'AUTHENTICATE CRAM-MD5', 'AUTHENTICATE', True,
        _cmd('AUTHENTICATE', _auth(b'CRAM-MD5', [good])), [good], core=False)
    add('auth_args', b'AUTHENTICATE', 'AUTHENTICATE', False, inv)
    add('starttls', b'STARTTLS', 'STARTTLS', True, _cmd('STARTTLS'))
    add('starttls_args', b'STARTTLS now', 'STARTTLS', False, inv, core=False)
    # --- authenticated
    add('select_inbox', b'SELECT INBOX', 'SELECT', True, _cmd('SELECT', _mb('INBOX')))
    add('select_sent', b'SELECT Sent', 'SELECT', True, _cmd('SELECT', _mb('Sent')))
    add('select_trash', b'SELECT Trash', 'SELECT', True, _cmd('SELECT', _mb('Trash')),
        core=False)
    add('select_missing', b'SELECT Nope', 'SELECT', True, _cmd('SELECT', _mb('Nope')))
    add('select_rejected', b'SELECT "a//b"', 'SELECT', True, _cmd('SELECT', _mb('a//b')),
        core=False)
    add('select_dotted', b'SELECT a.b', 'SELECT', True, _cmd('SELECT', _mb('a.b')), core=False)
    add('examine_rejected', b'EXAMINE ".."', 'EXAMINE', True, _cmd('EXAMINE', _mb('..')),
        core=False)
    add('select_args', b'SELECT', 'SELECT', False, inv, core=False)
    add('examine_inbox', b'EXAMINE INBOX', 'EXAMINE', True, _cmd('EXAMINE', _mb('INBOX')))
    add('examine_missing', b'EXAMINE Nope', 'EXAMINE', True, _cmd('EXAMINE', _mb('Nope')),
        core=False)
    add('examine_args', b'EXAMINE', 'EXAMINE', False, inv, core=False)
    add('create', b'CREATE New', 'CREATE', True, _cmd('CREATE', _mb('New')))
    add('create_inbox', b'CREATE inbox', 'CREATE', True, _cmd('CREATE', _mb('INBOX')),
        core=False)
    add('create_exists', b'CREATE Sent', 'CREATE', True, _cmd('CREATE', _mb('Sent')),
        core=False)
    add('create_args', b'CREATE', 'CREATE', False, inv, core=False)
    add('delete_sent', b'DELETE Sent', 'DELETE', True, _cmd('DELETE', _mb('Sent')))
    add('delete_missing', b'DELETE Nope', 'DELETE', True, _cmd('DELETE', _mb('Nope')),
        core=False)
    add('delete_inbox', b'DELETE INBOX', 'DELETE', True, _cmd('DELETE', _mb('INBOX')),
        core=False)
    add('delete_args', b'DELETE', 'DELETE', False, inv, core=False)
    add('rename', b'RENAME Sent Sent2', 'RENAME', True,
        _cmd('RENAME', f'(ARename {coq_bytes("Sent")} {coq_bytes("Sent2")})'))
    add('rename_missing', b'RENAME Nope Other', 'RENAME', True,
        _cmd('RENAME', f'(ARename {coq_bytes("Nope")} {coq_bytes("Other")})'), core=False)
    add('rename_to_inbox', b'RENAME Sent INBOX', 'RENAME', True,
        _cmd('RENAME', f'(ARename {coq_bytes("Sent")} {coq_bytes("INBOX")})'), core=False)
    add('rename_args', b'RENAME Sent', 'RENAME', False, inv, core=False)
    add('subscribe', b'SUBSCRIBE Sent', 'SUBSCRIBE', True, _cmd('SUBSCRIBE', _mb('Sent')),
        core=False)
    add('subscribe_args', b'SUBSCRIBE', 'SUBSCRIBE', False, inv, core=False)
    add('unsubscribe', b'UNSUBSCRIBE Sent', 'UNSUBSCRIBE', True,
        _cmd('UNSUBSCRIBE', _mb('Sent')), core=False)
    add('unsubscribe_args', b'UNSUBSCRIBE', 'UNSUBSCRIBE', False, inv, core=False)
    add('list', b'LIST "" *', 'LIST', True, _cmd('LIST'))
    add('list_args', b'LIST', 'LIST', False, inv, core=False)
    add('lsub', b'LSUB "" *', 'LSUB', True, _cmd('LSUB'), core=False)
    add('lsub_args', b'LSUB ""', 'LSUB', False, inv, core=False)
    add('status', b'STATUS INBOX (MESSAGES)', 'STATUS', True, _cmd('STATUS', _mb('INBOX')))
    add('status_missing', b'STATUS Nope (MESSAGES)', 'STATUS', True,
        _cmd('STATUS', _mb('Nope')), core=False)
    add('status_args', b'STATUS INBOX', 'STATUS', False, inv, core=False)
    add('append', lit, 'APPEND', True,
        _cmd('APPEND', f'(AAppend {coq_bytes("INBOX")} 1 false)'))
    add('append_missing', b'APPEND Nope {%d}\r\n%s' % (len(MSG), MSG), 'APPEND', True,
        _cmd('APPEND', f'(AAppend {coq_bytes("Nope")} 1 false)'), core=False)
    add('append_cancel', b'APPEND INBOX {0}\r\n', 'APPEND', True,
        _cmd('APPEND', f'(AAppend {coq_bytes("INBOX")} 0 true)'), core=False)
    add('append_multi', b'APPEND INBOX {%d+}\r\n%s {%d+}\r\n%s' % (len(MSG), MSG, len(MSG), MSG),
        'APPEND', True, _cmd('APPEND', f'(AAppend {coq_bytes("INBOX")} 2 false)'), core=False)
    add('append_args', b'APPEND INBOX', 'APPEND', False, inv, core=False)
    # --- selected
    add('check', b'CHECK', 'CHECK', True, _cmd('CHECK'))
    add('check_args', b'CHECK x', 'CHECK', False, inv, core=False)
    add('close', b'CLOSE', 'CLOSE', True, _cmd('CLOSE'))
    add('close_args', b'CLOSE x', 'CLOSE', False, inv, core=False)
    add('expunge', b'EXPUNGE', 'EXPUNGE', True, _cmd('EXPUNGE'))
    add('expunge_args', b'EXPUNGE 1', 'EXPUNGE', False, inv, core=False)
    add('copy', b'COPY 1 Sent', 'COPY', True, _cmd('COPY', _mb('Sent')), core=False)
    add('copy_missing', b'COPY 1 Nope', 'COPY', True, _cmd('COPY', _mb('Nope')), core=False)
    add('copy_args', b'COPY 1', 'COPY', False, inv, core=False)
    add('move', b'MOVE 1 Sent', 'MOVE', True, _cmd('MOVE', _mb('Sent')), core=False)
    add('move_args', b'MOVE Sent', 'MOVE', False, inv, core=False)
    add('fetch', b'FETCH 1 UID', 'FETCH', True, _cmd('FETCH'))
    add('fetch_all', b'FETCH 1:* (FLAGS)', 'FETCH', True, _cmd('FETCH'), core=False)
    add('fetch_args', b'FETCH 1', 'FETCH', False, inv)
    add('store', b'STORE 1 +FLAGS (\\Deleted)', 'STORE', True, _cmd('STORE'))
    add('store_args', b'STORE 1 FLAGS', 'STORE', False, inv, core=False)
    add('search', b'SEARCH ALL', 'SEARCH', True, _cmd('SEARCH'), core=False)
    add('search_args', b'SEARCH', 'SEARCH', False, inv, core=False)
    add('uid_fetch', b'UID FETCH 1:* FLAGS', 'UID FETCH', True, _cmd('UID FETCH'))
    add('uid_fetch_args', b'UID FETCH', 'UID FETCH', False, inv, core=False)
    add('uid_store', b'UID STORE 101 -FLAGS (\\Seen)', 'UID STORE', True, _cmd('UID STORE'),
        core=False)
    add('uid_search', b'UID SEARCH ALL', 'UID SEARCH', True, _cmd('UID SEARCH'), core=False)
    add('uid_copy', b'UID COPY 101 Sent', 'UID COPY', True, _cmd('UID COPY', _mb('Sent')),
        core=False)
    add('uid_move', b'UID MOVE 101 Sent', 'UID MOVE', True, _cmd('UID MOVE', _mb('Sent')),
        core=False)
    add('uid_expunge', b'UID EXPUNGE 101', 'UID EXPUNGE', True, _cmd('UID EXPUNGE'),
        core=False)
    add('idle_done', b'IDLE', 'IDLE', True,
        _cmd('IDLE', f'(AIdle {coq_bytes(b"done")})'), [b'done'])
    add('idle_garbage', b'IDLE', 'IDLE', True,
        _cmd('IDLE', f'(AIdle {coq_bytes(b"stop")})'), [b'stop'], proto_error=True,
        core=False)
    add('idle_args', b'IDLE now', 'IDLE', False, inv, core=False)
    return A


ALPHABET = build_alphabet()

# Interference: commands a SECOND session of the same user executes between two
# commands of the connection under test.  They are not steps of the connection
# model (its backend parameter simply answers differently afterwards); the
# clauses "CLOSE always succeeds and deselects", "LOGOUT ends with BYE then OK",
# "SELECT success/failure" must hold whatever the other session did.
INTERFERE = {
    'x_expunge_inbox': [b'SELECT INBOX', b'EXPUNGE'],
    'x_expunge_sent': [b'SELECT Sent', b'EXPUNGE'],
    'x_flag_deleted_inbox': [b'SELECT INBOX', b'STORE 1 +FLAGS (\\Deleted)'],
    'x_flag_deleted_sent': [b'SELECT Sent', b'STORE 1:* +FLAGS (\\Deleted)'],
    'x_wipe_inbox': [b'SELECT INBOX', b'STORE 1:* +FLAGS (\\Deleted)', b'EXPUNGE'],
    'x_wipe_sent': [b'SELECT Sent', b'STORE 1:* +FLAGS (\\Deleted)', b'CLOSE'],
    'x_append_inbox': [b'APPEND INBOX {%d+}\r\n%s' % (len(MSG), MSG)],
    'x_delete_sent': [b'EXAMINE INBOX', b'DELETE Sent'],
    'x_rename_sent': [b'EXAMINE INBOX', b'RENAME Sent Sent9'],
    'x_create_delete': [b'CREATE Tmp', b'DELETE Tmp'],
}
BYKEY = {s.key: s for s in ALPHABET}
IDX = {s.key: i for i, s in enumerate(ALPHABET)}

# configurations: (tls_enabled, local peer, bad_command_limit)
VARIANTS = {
    'plain': dict(tls=False, local=True, limit=5),
    'remote_tls': dict(tls=True, local=False, limit=5),
    'local_tls': dict(tls=True, local=True, limit=5),
    'nolimit': dict(tls=False, local=True, limit=None),
    # the maildir backend ('++' layout) on a copy of a template store
    'maildir': dict(tls=False, local=True, limit=5, backend='maildir'),
}

_MD_TEMPLATE = {}


async def maildir_env():
    """A fresh maildir store for one sequence: a copy of a template made once per
    process (user testuser, INBOX 3 / Sent 2 / Trash 1 messages)."""
    import shutil
    import tempfile
    from ..pymap_env import MaildirEnv
    users = (('testuser', 'testpass'),)
    if 'base' not in _MD_TEMPLATE:
        env = await MaildirEnv('++', users=users).start()
        conn = await env.login(b'testuser', b'testpass')
        for box, (n, _ro) in BOXES.items():
            if box != 'INBOX':
                r = await conn.send(b'c CREATE ' + box.encode() + b'\r\n')
                assert b'c OK' in r, r
            for _ in range(n):
                r = await conn.send(b'a APPEND %s {%d+}\r\n%s\r\n' % (box.encode(), len(MSG), MSG))
                assert b'a OK' in r, r
        await conn.send_eof()
        _MD_TEMPLATE['base'] = env.base
        import atexit
        atexit.register(shutil.rmtree, env.base, True)
    top = tempfile.mkdtemp(prefix='pymapverif-c05-')
    base = os.path.join(top, 'm')
    shutil.copytree(_MD_TEMPLATE['base'], base)
    env = await MaildirEnv('++', users=users, base_dir=base).start()
    env._top = top
    return env


PREFIXES = {
    'nonauth': [],
    'auth': ['login_ok'],
    'selected_rw': ['login_ok', 'select_inbox'],
    'selected_ro': ['login_ok', 'examine_inbox'],
}
TAIL = ['list', 'check']
# alphabet of the exhaustive length-3 sweep (thorough tier)
CORE3 = ['capability', 'noop', 'logout', 'unknown', 'login_ok', 'login_bad', 'auth_plain_ok',
         'auth_plain_cancel', 'starttls', 'select_inbox', 'select_missing', 'examine_inbox',
         'create', 'delete_sent', 'list', 'append', 'check', 'close', 'fetch', 'store',
         'idle_done']


# -------------------------------------------------- RFC 3501 state table (monitor)
# Written from RFC 3501 section 6 (+ RFC 2971 ID, RFC 2177 IDLE, RFC 6851 MOVE,
# RFC 4315 UID EXPUNGE), not from pymap's classes.  IDLE: RFC 2177 allows it in
# the authenticated state too; a server with nothing to report there may refuse
# it, so both answers are accepted in that one cell ('?').
ANY, NONAUTH, AUTH, SEL = 'any', 'nonauth', 'auth', 'selected'
RFC_TABLE = {
    'CAPABILITY': {NONAUTH, AUTH, SEL}, 'NOOP': {NONAUTH, AUTH, SEL},
    'LOGOUT': {NONAUTH, AUTH, SEL}, 'ID': {NONAUTH, AUTH, SEL},
    'STARTTLS': {NONAUTH}, 'AUTHENTICATE': {NONAUTH}, 'LOGIN': {NONAUTH},
    'SELECT': {AUTH, SEL}, 'EXAMINE': {AUTH, SEL}, 'CREATE': {AUTH, SEL},
    'DELETE': {AUTH, SEL}, 'RENAME': {AUTH, SEL}, 'SUBSCRIBE': {AUTH, SEL},
    'UNSUBSCRIBE': {AUTH, SEL}, 'LIST': {AUTH, SEL}, 'LSUB': {AUTH, SEL},
    'STATUS': {AUTH, SEL}, 'APPEND': {AUTH, SEL},
    'CHECK': {SEL}, 'CLOSE': {SEL}, 'EXPUNGE': {SEL}, 'SEARCH': {SEL}, 'FETCH': {SEL},
    'STORE': {SEL}, 'COPY': {SEL}, 'MOVE': {SEL}, 'UID': {SEL},
    'UID COPY': {SEL}, 'UID MOVE': {SEL}, 'UID EXPUNGE': {SEL}, 'UID FETCH': {SEL},
    'UID SEARCH': {SEL}, 'UID STORE': {SEL}, 'IDLE': {SEL},
}
RFC_EITHER = {('IDLE', AUTH)}


# ------------------------------------------------------------ running sequences
def _why(cond: str, text: bytes, out: bytes, closed: bool) -> str:
    if cond == 'BAD':
        if text.endswith(b'Already authenticated.'):
            return 'WAlreadyAuth'
        if text.endswith(b'Must authenticate first.'):
            return 'WMustAuth'
        if text.endswith(b'Must select a mailbox first.'):
            return 'WMustSelect'
        if text.endswith((b'Invalid arguments.', b'Unknown command.', b'Command not given.')):
            return 'WInvalid'
        if text.endswith(b'Expected "DONE".'):
            return 'WExpectedDone'
        return 'WAuthError'
    if cond == 'NO':
        if text.startswith(b'[CANNOT]'):
            return 'WCannot'
        if text.endswith(b'INBOX.') and text.startswith(b'Cannot '):
            return 'WInboxNo'
        if text.endswith(b'Invalid authentication mechanism.'):
            return 'WBadMech'
        if text.endswith(b'APPEND cancelled.'):
            return 'WAppendCancel'
        if text.endswith(b'Not Implemented'):
            return 'WNotImpl'
        if text.startswith(b'[TIMEOUT]'):
            return 'WTimeout'
        return 'WBackendNo'
    if cond == 'OK':
        return 'WLogout' if text.endswith(b'Logout successful.') else 'WDone'
    if b'[SERVERBUG]' in out:
        return 'WCrash'
    if closed and not out:
        return 'WClosed'
    return 'WStalled'


async def run_sequence(rec: Recorder, variant: dict, keys: list[str]) -> dict:
    """One sequence on a fresh backend.  Returns everything observed."""
    maildir = variant.get('backend') == 'maildir'
    if maildir:
        env = await maildir_env()
        rec.log.take()          # (building the template store went through the proxies too)
        conn = await env.connect()
    else:
        env = await small_dict_env(tls=variant['tls'], boxes=BOXES,
                                   bad_command_limit=variant['limit'])
        conn = await env.connect(local=variant['local'])
    ncap_login = len(env.config.login_capability)
    steps = []

    main_state = None

    def view(out, used, cond, text):
        snap = rec.snapshot(main_state)
        nbase = 2 + (1 if snap['starttls'] else 0)
        return {
            'out': out, 'used': used, 'cond': cond, 'text': text,
            'bye': has_bye(out), 'closed': conn.closed, 'snap': snap,
            'logincaps': (snap['ncaps'] - nbase) // ncap_login,
            'capsrem': (snap['ncaps'] - nbase) % ncap_login,
            'calls': rec.log.take(),
            'exc': None if conn.exc is None else type(conn.exc).__name__,
        }
    g = conn.greeting
    gcond = 'OK' if g.startswith((b'* OK', b'* PREAUTH')) else 'NOTAG'
    main_state = rec.states[-1]
    greeting = view(g, 0, gcond, g)
    other = None
    for i, key in enumerate(keys):
        if key in INTERFERE:
            # the other session; its backend calls are not the main connection's
            if other is None:
                other = await (env.connect() if maildir else env.connect(local=True))
                r = await other.send(b'o0 LOGIN testuser testpass\r\n')
                assert b'o0 OK' in r, r
            outs = []
            for j, ln in enumerate(INTERFERE[key]):
                outs.append(await other.send(b'o%d_%d ' % (i, j) + ln + b'\r\n'))
            rec.log.take()
            steps.append({'interfere': key, 'out': b''.join(outs), 'cond': 'X', 'text': b'',
                          'closed': conn.closed, 'calls': [], 'snap': rec.snapshot(main_state),
                          'bye': False, 'used': 0, 'exc': None, 'logincaps': 0, 'capsrem': 0})
            continue
        sym = BYKEY[key]
        tag = b't%d' % i
        out, used = await run_exchange(conn, tag + b' ' + sym.line, sym.lines)
        cond, text = tagged(out, tag)
        steps.append(view(out, used, cond, text))
    if not conn.closed:
        await conn.send_eof()
    if other is not None and not other.closed:
        await other.send_eof()
    if maildir:
        import shutil
        shutil.rmtree(env._top, ignore_errors=True)
    return {'greeting': greeting, 'steps': steps, 'idle_cap': True}


class Interner:
    """Repeated sub-terms (byte strings, scripts, observations, whole steps) are
    defined once in the header of the case file and referred to by name: coqc
    spends its time parsing number lists otherwise."""

    def __init__(self) -> None:
        self.names: dict[str, str] = {}
        self.defs: list[str] = []

    def __call__(self, prefix: str, term: str, typ: str = '') -> str:
        name = self.names.get(term)
        if name is None:
            name = f'{prefix}{len(self.names)}'
            self.names[term] = name
            self.defs.append(f'Definition {name}{" : " + typ if typ else ""} := {term}.')
        return name

    def header(self) -> str:
        return '\n'.join(self.defs) + '\n'


INTERN = Interner()


def ib(b) -> str:
    """interned byte string"""
    if isinstance(b, str):
        b = b.encode('utf-8', 'surrogateescape')
    if not b:
        return '(@nil N)'
    return INTERN('b_', coq_bytes(b), 'bytes')


def _answer(rec: dict) -> str:
    o = rec.get('out', 'crash:unfinished')
    if o == 'ok':
        if rec['meth'] in ('authenticate', 'authorize'):
            return f'(AnsIdent {ib(rec["name"])} {T.lst(ib(r) for r in rec["roles"])})'
        return f'(AnsOk {T.boolean(rec.get("ro", False))} {T.boolean(rec.get("gone", False))})'
    if o == 'no:MailboxNotFound':
        return 'AnsNotFound'
    if o in ('no:NotSupportedError', 'no:SearchNotAllowed'):
        return 'AnsCannot'
    if o.startswith('no:'):
        return 'AnsNo'
    if o == 'timeout':
        return 'AnsTimeout'
    return 'AnsCrash'


def _phase(snap: dict, closed: bool) -> str:
    if closed:
        return 'Closed'
    if snap['owner'] is None:
        return 'NotAuth'
    u = ib(snap['owner'])
    if snap['selected'] is None:
        return f'(Authd {u})'
    return f'(Selected {u} {ib(snap["selected"])} {T.boolean(snap["readonly"])})'


def _obs_term(v: dict, greeting: bool = False) -> str:
    why = 'WDone' if greeting and v['cond'] == 'OK' else \
        ('WGreetBye' if greeting else _why(v['cond'], v['text'], v['out'], v['closed']))
    snap = v['snap']
    cond = v['cond'] if v['cond'] in ('OK', 'NO', 'BAD') else 'NOTAG'
    return INTERN('o_', f'(mk_obs {cond} {why} {T.boolean(v["bye"])} {T.N(v["used"])} '
                  f'{_phase(snap, v["closed"])} {T.boolean(snap["mechs"])} '
                  f'{T.boolean(snap["starttls"])} {T.N(max(v["logincaps"], 0))})', 'obs')


def _script_term(calls: list[dict], idle: bool = False) -> str:
    if idle:
        # IDLE's update loop calls check_mailbox once per wake-up; how often it
        # wakes is the backend's business (C16): the model asks once.
        folded = []
        for c in calls:
            if folded and c['meth'] == 'check_mailbox' and folded[-1]['meth'] == 'check_mailbox' \
                    and folded[-1].get('out') == 'ok':
                folded[-1] = c
            else:
                folded.append(c)
        calls = folded
    if not calls:
        return 'no_calls'
    return INTERN('s_', T.lst(f'("{c["meth"]}", {_answer(c)})' for c in calls), 'script')


def case_term(variant: dict, keys: list[str], res: dict) -> str:
    cfg = INTERN('cfg_', f'(mk_config {T.boolean(variant["tls"])} {T.boolean(variant["local"])} '
                 f'{T.N(variant["limit"] or 0)} true true None)', 'config')
    steps = []
    for key, v in zip(keys, res['steps']):
        if key in INTERFERE:
            continue
        steps.append(INTERN('st_', f'(mk_step sym_{key} '
                            f'{_script_term(v["calls"], BYKEY[key].name == "IDLE")} {_obs_term(v)})',
                            '(cmd * script * obs)%type'))
    g = res['greeting']
    return (f'(mk_case {cfg} {_script_term(g["calls"])} {_obs_term(g, True)} '
            + T.lst(steps) + ')')


def header_with_symbols(prop: str = 'C05') -> str:
    """The symbol and interned-term definitions are compiled once into a module
    next to the case files; each case shard only imports it."""
    import subprocess
    from .. import coqrun
    defs = [f'Definition sym_{s.key} : cmd := {s.model}.' for s in ALPHABET]
    text = HEADER + '\n'.join(defs) + '\n' + INTERN.header()
    d = coqrun.case_dir(prop)
    os.makedirs(d, exist_ok=True)
    mod = f'{prop}hdr{os.getpid()}'
    for old in os.listdir(d):      # leftovers of earlier runs
        if old.startswith(f'{prop}hdr') or old.startswith(f'.{prop}hdr'):
            try:
                os.remove(os.path.join(d, old))
            except OSError:
                pass
    with open(os.path.join(d, mod + '.v'), 'w') as f:
        f.write(text)
    p = subprocess.run(['timeout', '600', 'coqc', '-noglob', '-Q',
                        os.path.join(coqrun.COQ, 'theories'),
                        coqrun.LOGICAL, mod + '.v'], cwd=d, stdout=subprocess.PIPE,
                       stderr=subprocess.STDOUT)
    if p.returncode != 0:
        # fall back to the inline header (the error then shows up in the shards)
        return text
    return HEADER + f'Require Import {mod}.\n'


class Shadow:
    """RFC 3501 state machine driven only by the responses on the wire."""

    def __init__(self) -> None:
        self.state = NONAUTH
        self.mailbox = None
        self.readonly = None
        self.dirty = False      # message data may have changed (EXISTS no longer predictable)
        self.exists = dict(BOX_COUNTS)


def monitor_sequence(ctx, variant_name: str, keys: list[str], res: dict,
                     shared_data: bool = False) -> None:
    sh = Shadow()
    # (other connections of the same world may change the mailboxes at any time)
    sh.dirty = shared_data
    replay = {'variant': variant_name, 'keys': keys}
    if res['greeting']['closed']:
        return
    consecutive_bad = 0
    prev_snap = res['greeting']['snap']
    for i, (key, v) in enumerate(zip(keys, res['steps'])):
        if key in INTERFERE:
            # another session changed the data; nothing to judge on this connection
            sh.dirty = True
            continue
        sym = BYKEY[key]
        cond, out = v['cond'], v['out']
        rp = dict(replay, step=i, command=sym.line.decode('latin-1'),
                  response=out.decode('latin-1')[-400:])
        if sh.state == 'logout':
            if out:
                ctx.failure('logout_bye_ok', f'output after the connection ended: {out[:80]!r}',
                            rp, {'kind': 'output_after_logout'})
            continue
        before = sh.state
        allowed = sym.name is not None and sym.valid and before in RFC_TABLE[sym.name]
        either = (sym.name, before) in RFC_EITHER
        if v['exc'] is not None and v['exc'] not in ('CancelledError',):
            # an internal error ended the connection.  For a command the state
            # allows that is C06's business; one the state forbids was not
            # refused but executed.
            if sym.valid and sym.name is not None and not allowed and not either:
                ctx.failure('gate', f'{sym.name} is not allowed in state {before} but was executed '
                            f'(it died with {v["exc"]})', rp,
                            {'kind': 'accepted_out_of_state', 'command': sym.name, 'state': before})
            elif sym.valid and sym.name == 'CLOSE':
                ctx.failure('close_deselects', f'CLOSE died with {v["exc"]}: {out[-80:]!r} '
                            f'(mailbox {sh.mailbox}, read-only {sh.readonly})', rp,
                            {'kind': 'close_not_ok', 'readonly': bool(sh.readonly)})
            elif sym.valid and sym.name == 'LOGOUT':
                ctx.failure('logout_bye_ok', f'LOGOUT died with {v["exc"]}: {out[-80:]!r}', rp,
                            {'kind': 'logout_shape'})
            elif sym.valid and sym.name in ('SELECT', 'EXAMINE'):
                ctx.failure('select_ok', f'{sym.name} died with {v["exc"]}: {out[-80:]!r}', rp,
                            {'kind': 'select_died'})
            sh.state = 'logout'
            continue
        # ---- gate: acceptance depends only on the state reached so far
        if not sym.valid or sym.name is None:
            if cond != 'BAD':
                ctx.failure('gate', f'syntactically invalid {sym.key} answered {cond} in state {before}',
                            rp, {'kind': 'invalid_not_bad', 'command': sym.name, 'state': before})
            refused = True
        elif not allowed and not either:
            refused = True
            if cond != 'BAD':
                ctx.failure('gate', f'{sym.name} is not allowed in state {before} but was answered '
                            f'{cond}', rp,
                            {'kind': 'accepted_out_of_state', 'command': sym.name, 'state': before})
                continue
        else:
            refused = cond == 'BAD' and either
            if cond == 'BAD' and not sym.proto_error and not either:
                ctx.failure('gate', f'{sym.name} is allowed in state {before} but was refused '
                            f'({v["text"][:60]!r})', rp,
                            {'kind': 'refused_in_state', 'command': sym.name, 'state': before})
                refused = True
        # ---- a refused command has no effect on state or data
        if refused:
            if v['calls']:
                ctx.failure('refused_no_effect',
                            f'refused {sym.key} in state {before} reached the backend: '
                            f'{[c["meth"] for c in v["calls"]]}', rp,
                            {'kind': 'refused_backend_call', 'command': sym.name})
            prev = res['steps'][i - 1]['snap'] if i else res['greeting']['snap']
            if not v['closed'] and v['snap'] != prev:
                ctx.failure('refused_no_effect',
                            f'refused {sym.key} changed the connection state {prev} -> {v["snap"]}',
                            rp, {'kind': 'refused_state_change', 'command': sym.name})
        # ---- transitions
        bye = v['bye']
        if not refused and sym.valid:
            n = sym.name
            if n in ('LOGIN', 'AUTHENTICATE') and cond == 'OK':
                sh.state = AUTH
            elif n in ('SELECT', 'EXAMINE'):
                want = sym.line.split()[1].decode()
                if cond == 'OK':
                    sh.state, sh.mailbox = SEL, want
                    sh.readonly = b'[READ-ONLY]' in v['text']
                    if n == 'EXAMINE' and not sh.readonly:
                        ctx.failure('select_ok', 'EXAMINE answered without [READ-ONLY]', rp,
                                    {'kind': 'examine_not_readonly'})
                    snap = v['snap']
                    if snap['selected'] != want:
                        ctx.failure('select_ok', f'{n} {want} selected {snap["selected"]!r}', rp,
                                    {'kind': 'selected_other_mailbox'})
                    if not sh.dirty and want in sh.exists and \
                            b'* %d EXISTS' % sh.exists[want] not in out:
                        ctx.failure('select_ok', f'{n} {want}: EXISTS is not that of {want}', rp,
                                    {'kind': 'selected_other_mailbox'})
                elif cond == 'NO':
                    # a failed SELECT/EXAMINE leaves no mailbox selected
                    sh.state, sh.mailbox = AUTH, None
                    if v['snap']['selected'] is not None:
                        ctx.failure('select_fail', f'failed {n} left {v["snap"]["selected"]!r} selected',
                                    rp, {'kind': 'select_fail_keeps_selection'})
            elif n == 'CLOSE':
                if cond != 'OK':
                    ctx.failure('close_deselects', f'CLOSE answered {cond} {v["text"][:60]!r} '
                                f'(mailbox {sh.mailbox}, read-only {sh.readonly})', rp,
                                {'kind': 'close_not_ok', 'readonly': bool(sh.readonly)})
                if not v['closed'] and v['snap']['selected'] is not None:
                    ctx.failure('close_deselects', 'a mailbox is still selected after CLOSE', rp,
                                {'kind': 'close_keeps_selection', 'readonly': bool(sh.readonly)})
                else:   # (after a failure follow the server, to report the root cause only)
                    sh.state, sh.mailbox = AUTH, None
            elif n == 'LOGOUT':
                lines = [ln for ln in out.split(b'\r\n') if ln]
                ok = len(lines) >= 2 and lines[-2].startswith(b'* BYE') and \
                    lines[-1].startswith(b't%d OK' % i) and v['closed']
                if not ok:
                    ctx.failure('logout_bye_ok', f'LOGOUT answered {out[-120:]!r}, closed={v["closed"]}',
                                rp, {'kind': 'logout_shape'})
                sh.state = 'logout'
            if n in ('APPEND', 'COPY', 'MOVE', 'UID COPY', 'UID MOVE', 'EXPUNGE', 'UID EXPUNGE',
                     'CLOSE', 'STORE', 'UID STORE', 'DELETE', 'RENAME', 'CREATE'):
                sh.dirty = True
        if bye or v['closed']:
            sh.state = 'logout'
        consecutive_bad = consecutive_bad + 1 if cond == 'BAD' else 0


# ---------------------------------------------------------------- generators
def gen_sequences(ctx) -> list[tuple[str, list[str]]]:
    rng = ctx.rng
    seqs: list[tuple[str, list[str]]] = []
    core = [s.key for s in ALPHABET if s.core]
    full = [s.key for s in ALPHABET]
    # 1. every symbol once from every prefix (complete command set x every phase)
    for pname, pre in PREFIXES.items():
        for a in full:
            seqs.append(('plain', pre + [a] + TAIL))
    for a in full:
        seqs.append(('remote_tls', [a] + TAIL))
        seqs.append(('remote_tls', ['starttls', a] + TAIL))
        seqs.append(('local_tls', [a, 'starttls'] + TAIL))
    # 2. exhaustive short sequences from the canonical prefix of each phase
    if ctx.quick:
        for pname, pre in PREFIXES.items():
            for a in core:
                for b in core:
                    seqs.append(('plain', pre + [a, b] + TAIL))
    else:
        for pname, pre in PREFIXES.items():
            for a in full:
                for b in full:
                    seqs.append(('plain', pre + [a, b] + TAIL))
            for a in CORE3:
                for b in CORE3:
                    for c in CORE3:
                        seqs.append(('plain', pre + [a, b, c] + TAIL[:1]))
    # 2b. a second session interferes between two commands of a selected connection
    xs = sorted(INTERFERE)
    before = [[], ['store'], ['fetch'], ['store', 'noop']]
    after = ['close', 'expunge', 'uid_expunge', 'select_inbox', 'select_sent', 'examine_inbox',
             'check', 'noop', 'fetch', 'logout', 'idle_done', 'store', 'copy']
    for pre in (['login_ok', 'select_inbox'], ['login_ok', 'select_sent'],
                ['login_ok', 'examine_inbox']):
        for b4 in before:
            for x in xs:
                for a in after:
                    if ctx.quick and rng.random() < 0.6 and a not in ('close', 'expunge', 'logout'):
                        continue
                    seqs.append(('plain', pre + b4 + [x, a, 'close', 'logout']))
    # 2c. the maildir backend: every symbol (but IDLE, whose wait polls the file system) from
    # the authenticated and the two selected phases, and what follows a failed SELECT/EXAMINE
    md = [k for k in full if BYKEY[k].name != 'IDLE']
    for pre in (['login_ok'], ['login_ok', 'select_inbox'], ['login_ok', 'examine_inbox']):
        for a in md:
            if ctx.quick and BYKEY[a].name not in ('SELECT', 'EXAMINE', 'CLOSE') \
                    and rng.random() < 0.5:
                continue
            seqs.append(('maildir', pre + [a] + TAIL))
    for pre in (['login_ok', 'select_inbox'], ['login_ok', 'examine_inbox'],
                ['login_ok', 'select_sent', 'store']):
        for bad in ('select_rejected', 'select_dotted', 'examine_rejected', 'select_missing',
                    'examine_missing'):
            for a in ('fetch', 'store', 'search', 'close', 'expunge', 'noop', 'check',
                      'select_inbox', 'uid_fetch', 'copy'):
                seqs.append(('maildir', pre + [bad, a, 'close', 'logout']))
    # 3. random sequences up to length 30, every configuration
    valid_by_state = {
        NONAUTH: [s.key for s in ALPHABET if s.valid and s.name and NONAUTH in RFC_TABLE[s.name]],
        AUTH: [s.key for s in ALPHABET if s.valid and s.name and AUTH in RFC_TABLE[s.name]],
        SEL: [s.key for s in ALPHABET if s.valid and s.name and SEL in RFC_TABLE[s.name]],
    }
    for _ in range(ctx.scale(800, 20000)):
        variant = rng.choice(['plain', 'plain', 'nolimit', 'remote_tls', 'local_tls', 'maildir'])
        n = rng.randint(3, 30)
        keys = []
        st = NONAUTH
        for _j in range(n):
            r = rng.random()
            if r < 0.6:
                # mostly commands that are legal in the state we are probably in
                k = rng.choice(valid_by_state[st])
                if k == 'logout' and rng.random() < 0.8:
                    k = 'noop'
            elif r < 0.67 and st != NONAUTH:
                k = rng.choice(xs)
            else:
                k = rng.choice(full)
            keys.append(k)
            # rough guess of the state, only to bias the generator
            if k in ('login_ok', 'login_lit', 'auth_plain_ok', 'auth_login_ok') and st == NONAUTH:
                st = AUTH
            elif k in ('select_inbox', 'select_sent', 'select_trash', 'examine_inbox') and st != NONAUTH:
                st = SEL
            elif k in ('select_missing', 'examine_missing', 'close') and st == SEL:
                st = AUTH
        if variant == 'maildir':
            keys = ['noop' if BYKEY.get(k) is not None and BYKEY[k].name == 'IDLE' else k
                    for k in keys]
        seqs.append((variant, keys))
    return seqs


def _chunks(lst, n):
    for i in range(0, len(lst), n):
        yield lst[i:i + n]


def _worker(batch):
    """Run a batch of sequences in a forked worker; returns observations."""
    import asyncio
    cache_sasl_entry_points()

    async def main():
        out = []
        with Recorder() as rec:
            for vname, keys in batch:
                out.append(await asyncio.wait_for(run_sequence(rec, VARIANTS[vname], keys), 900))
        return out
    return asyncio.run(main())


def run_all(seqs, jobs: int = 8):
    import multiprocessing as mp
    if len(seqs) < 200:
        return _worker(seqs)
    ctxmp = mp.get_context('fork')
    batches = list(_chunks(seqs, max(50, len(seqs) // (jobs * 8))))
    with ctxmp.Pool(jobs) as pool:
        res = pool.map(_worker, batches)
    return [r for b in res for r in b]


# ------------------------------------------------------------------- erasure
def erasure_check(ctx, n: int) -> None:
    """'A refused command has no effect', end to end: a sequence and the same
    sequence without the commands the RFC table refuses must give the same
    answers to the remaining commands and leave the same data."""
    import asyncio
    rng = ctx.rng
    full = [s.key for s in ALPHABET if s.key != 'logout']
    cache_sasl_entry_points()

    async def dump(env):
        mset, _ = env.config.set_cache['testuser']
        out = {}
        names = ['INBOX'] + sorted(mset._set.keys())
        for name in names:
            mbx = await mset.get_mailbox(name)
            msgs = []
            async for m in mbx.messages():
                msgs.append((m.uid, tuple(sorted(bytes(f) for f in m.permanent_flags))))
            out[name] = sorted(msgs)
        out['__sub__'] = sorted(k for k, v in mset._subscribed.items() if v)
        return out

    async def run_one(keys):
        with Recorder() as rec:
            env = await small_dict_env(boxes=BOXES, bad_command_limit=None)
            conn = await env.connect()
            conds = []
            for i, key in enumerate(keys):
                sym = BYKEY[key]
                out, _ = await run_exchange(conn, b'e%d ' % i + sym.line, sym.lines)
                conds.append(tagged(out, b'e%d' % i)[0])
            d = await dump(env)
            if not conn.closed:
                await conn.send_eof()
            return conds, d

    async def main():
        for _ in range(n):
            keys = [rng.choice(full) for _ in range(rng.randint(4, 14))]
            conds, d1 = await run_one(keys)
            # classify with the RFC table driven by the observed conditions
            st = NONAUTH
            kept, kept_conds = [], []
            for key, cond in zip(keys, conds):
                sym = BYKEY[key]
                refused = (not sym.valid or sym.name is None
                           or st not in RFC_TABLE[sym.name])
                if not refused:
                    kept.append(key)
                    kept_conds.append(cond)
                    if sym.name in ('LOGIN', 'AUTHENTICATE') and cond == 'OK':
                        st = AUTH
                    elif sym.name in ('SELECT', 'EXAMINE') and cond in ('OK', 'NO'):
                        st = SEL if cond == 'OK' else AUTH
                    elif sym.name == 'CLOSE' and cond == 'OK':
                        st = AUTH
            ctx.count(('erasure', tuple(keys)), nontrivial=len(kept) < len(keys))
            if len(kept) == len(keys):
                continue
            conds2, d2 = await run_one(kept)
            if conds2 != kept_conds or d1 != d2:
                ctx.failure('refused_no_effect',
                            'removing the refused commands changes the answers or the data',
                            {'keys': keys, 'kept': kept, 'conds': conds, 'conds_without': conds2,
                             'data': repr(d1)[:300], 'data_without': repr(d2)[:300]},
                            {'kind': 'erasure_differs'})
    asyncio.run(main())


# ----------------------------------------------------------------------- run
def check_alphabet_complete(ctx, table) -> None:
    names = {e['name'] for e in table}
    valid = {s.name for s in ALPHABET if s.valid}
    invalid = {s.name for s in ALPHABET if not s.valid and s.name}
    missing = sorted(n for n in names if n not in valid and n != 'UID')
    missing_inv = sorted(n for n in names if n not in invalid
                         and not n.startswith('UID ') and n not in ('UID',))
    unknown = sorted(n for n in names if n not in RFC_TABLE)
    if missing or unknown:
        ctx.disagreement('alphabet', {'built-in commands without a symbol': missing,
                                      'without an RFC table row': unknown})
    ctx.extra['alphabet'] = {'symbols': len(ALPHABET), 'core': sum(s.core for s in ALPHABET),
                             'commands': len(names), 'no_invalid_form': missing_inv}


def run(ctx) -> None:
    ctx.rule = ('a case = one command sequence on a fresh dict backend: every symbol from every '
                'phase prefix and configuration, all length-2 (quick: core alphabet; thorough: '
                'full alphabet, plus all length-3 over a 21-symbol core) sequences from the canonical '
                'prefix of each phase, random sequences up to length 30 (60% legal in the '
                'guessed state); non-trivial = at least one command not refused; distinct = by '
                'configuration and symbol sequence')
    ctx.assumptions += [
        'the dict backend answers backend calls without suspending (one command = one step)',
        'base64.b64decode and UTF-8 validity of CPython are oracles given to the model per line',
        'the glass box reads ConnectionState._session/_selected/_capability/auth after each command',
    ]
    t0 = time.time()
    table, changed = write_cmd_table()
    ctx.extra['cmd_table'] = {'entries': len(table), 'rewritten': changed,
                              'ungated': [e['name'] for e in table if not e['gated']]}
    ctx.check_proofs(['Conn/ConnCheck', 'Conn/MultiConnCheck'])
    check_alphabet_complete(ctx, table)
    ctx.extra['t_proofs_s'] = round(time.time() - t0, 1)
    seqs = gen_sequences(ctx)
    seen = set()
    uniq = []
    for v, k in seqs:
        key = (v, tuple(k))
        if key not in seen:
            seen.add(key)
            uniq.append((v, k))
    t1 = time.time()
    results = run_all(uniq)
    ctx.extra['t_impl_s'] = round(time.time() - t1, 1)
    cases = []
    lens = {}
    for (vname, keys), res in zip(uniq, results):
        monitor_sequence(ctx, vname, keys, res)
        cases.append(case_term(VARIANTS[vname], keys, res))
        accepted = any(st['cond'] in ('OK', 'NO') for st in res['steps'])
        ctx.count((vname, tuple(keys)), nontrivial=accepted)
        lens[len(keys)] = lens.get(len(keys), 0) + 1
    ctx.extra['sequence_length_histogram'] = dict(sorted(lens.items()))
    ctx.sample({'variant': uniq[-1][0], 'keys': uniq[-1][1],
                'conds': [s['cond'] for s in results[-1]['steps']]})
    # several connections on one server object (harness/c05_multiconn.py): run + monitors now
    # (the terms are interned into the shared header), Coq comparison below
    worlds = c05_multiconn.prepare(ctx)
    t2 = time.time()
    hdr = header_with_symbols()
    bad = ctx.run_cases('conn_sequences', hdr, 'conn_case', cases, 'chk_conn',
                        shard=1000, jobs=12)
    ctx.extra['t_coq_s'] = round(time.time() - t2, 1)
    for i in bad[:5]:
        vname, keys = uniq[i]
        from .. import coqrun
        where = coqrun.eval_term(ctx.prop, f'where_{i}', hdr,
                                 f'(where_bad {cases[i]}, model_trace (fst (fst (fst {cases[i]}))) '
                                 f'(fst (fst (conn_init script script_bk (fst (fst (fst {cases[i]}))) '
                                 f'(snd (fst (fst {cases[i]})))))) (snd {cases[i]}))')
        res = results[i]
        ctx.disagreement('conn_sequences', {
            'variant': vname, 'keys': keys,
            'impl': [(s['cond'], s['text'].decode('latin-1')[:50], s['snap'],
                      [c['meth'] + ':' + c.get('out', '?') for c in s['calls']])
                     for s in res['steps']],
            'model': where[-1500:]})
    c05_multiconn.check(ctx, worlds, hdr)
    erasure_check(ctx, ctx.scale(100, 2000))


def replay(ctx, obj) -> int:
    import asyncio
    if 'events' in obj:
        return c05_multiconn.replay(ctx, obj)
    cache_sasl_entry_points()
    keys = obj.get('keys') or []
    vname = obj.get('variant', 'plain')

    async def main():
        with Recorder() as rec:
            return await run_sequence(rec, VARIANTS[vname], keys)
    res = asyncio.run(main())
    for key, st in zip(keys, res['steps']):
        print(BYKEY[key].line, '->', st['cond'], st['text'][:70], st['snap'])
    monitor_sequence(ctx, vname, keys, res)
    for v in ctx.violations:
        print('FAIL', v['clause'], v['what'])
    return 1 if ctx.violations else 0
