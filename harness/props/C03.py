"""C03 — message bytes are stored and returned verbatim.

Model: coq/theories/Mime/{Lines,Parts}.v; proofs Mime/{Lines,Parts}Proofs.v;
statements Props/C03.v; case checkers Mime/MimeCheck.v.

Correspondence (model vs implementation, evaluated inside Coq):
  parse   MessageContent.parse(d): header/body line index and the bytes of
          content/header/body of every nested node, Content-Type decisions
          (stdlib email) passed as data;
  fetch   RFC822.SIZE, BODY/BODYSTRUCTURE sizes+line counts, BODY[..],
          BODY[..MIME], BODY[..HEADER], BODY[..TEXT], partial ranges — once
          through the call chain of pymap.fetch (`direct`), once through the
          real server after APPEND (`imap`, dict and maildir);
  lines / parts / literal   _find_lines, _find_parts, LiteralString prefix.
Monitors (against the statement, not the model): byte-exact comparison of
every data item with the appended literal, for the original, its COPY and its
MOVE; announced part octets vs BODY[part] in RFC 3501 numbering.
"""
from __future__ import annotations

import asyncio
import json

from .. import coqterm as T
from .. import mime_c03 as M

COQ_MAX = 2048          # larger inputs are checked by the monitors only


class CoqJobs:
    """The case files of the different sections are evaluated concurrently
    (coqc is single-threaded) while the harness goes on driving the server."""

    def __init__(self, ctx) -> None:
        from concurrent.futures import ThreadPoolExecutor
        self.ctx = ctx
        self.pool = ThreadPoolExecutor(max_workers=8)
        self.jobs = []

    def submit(self, name, typ, cases, checker, inputs, shard=150, jobs=4) -> None:
        if not cases:
            return
        # generous per-shard timeout: on a loaded machine a shard that takes 5 s
        # alone can take minutes, and a timeout would read as a broken model
        fut = self.pool.submit(self.ctx.run_cases, name, M.HEADER, typ, cases, checker,
                               shard=shard, jobs=jobs, timeout=2400)
        self.jobs.append((name, fut, inputs))

    def finish(self) -> None:
        for name, fut, inputs in self.jobs:
            bad = fut.result()
            for i in bad[:5]:
                d = inputs[i]
                if isinstance(d, tuple):
                    d = d[0]
                self.ctx.disagreement(name, {'input': d.hex()[:2000] if isinstance(d, bytes)
                                             else repr(d)})
        self.pool.shutdown()


# ------------------------------------------------------------------ inputs
BASES = [
    b'a: b\r\n\r\nc\r\n',
    b'Content-Type: multipart/mixed; boundary=b\n\n--b\nX: 1\n\nhi\n--b\ny\n--b--\nz\n--b\nw\n',
    b'Content-Type: message/rfc822\n\nS: i\n\nx\n',
]

SPECIALS = [
    b' ', b'\n', b'\r\n', b'\r', b'a', b'abc', b'Subject: x\r\n', b'Subject: x\r\n\r\n',
    b'Subject: x\r\n \r\n', b'Subject: x\r\n\r\nbody', b'abc\n ', b'a\x00b', b'\xff\xfe: x\r\n\r\n\x80',
    b'a: b\r\n\r\nc\r\n', b'a: b\n\nc\n', b'a:b\n\nc', b'C:m\n\nS:i\n\nx',
    b'Content-Type: multipart/mixed; boundary=b\r\n\r\n--b\r\n\r\n--b--\r\n',
    b'Content-Type: multipart/mixed; boundary=b\r\n\r\n--b\r\n--b\r\n--b--',
    b'Content-Type: multipart/mixed; boundary="b"\r\n\r\npre\r\n--b\r\nA: 1\r\n\r\none\r\n--b\r\n'
    b'two without header\r\n--b\r\nContent-Type: message/rfc822\r\n\r\nSubject: in\r\n'
    b'Content-Type: multipart/alternative; boundary=c\r\n\r\n--c\r\n\r\ni1\r\n--c\r\n\r\ni2\r\n--c--\r\n'
    b'--b--\r\nepilogue\r\n',
    b'Content-Type: message/rfc822\r\n\r\nSubject: inner\r\nContent-Type: multipart/mixed; '
    b'boundary=b\r\n\r\n--b\r\n\r\npart one\r\n--b\r\nX: y\r\n\r\npart two\r\n--b--\r\n',
    b'Content-Type: message/rfc822\n\nContent-Type: message/rfc822\n\nContent-Type: '
    b'message/rfc822\n\nContent-Type: message/rfc822\n\nSubject: deep\n\nbottom',
    b'Content-Type: multipart/mixed\r\n\r\n--b\r\nno boundary parameter\r\n--b--\r\n',
    b'From x\r\nContent-Type: text/plain\r\n\r\n>From y\r\n',
]

MP_HEADER = b'Content-Type:multipart/x;boundary=a\n\n'


def sweep(base: bytes, subst_vals, insert_vals):
    for k in range(len(base) + 1):
        for c in insert_vals:
            yield base[:k] + bytes([c]) + base[k:]
        if k < len(base):
            for c in subst_vals:
                yield base[:k] + bytes([c]) + base[k + 1:]


SWEEP_VALS = [0, 9, 10, 11, 12, 13, 32, 33, 45, 58, 59, 61, 97, 98, 127, 128, 255]
SWEEP_QUICK = [0, 10, 11, 13, 32, 45, 58, 97, 255]


def pure_inputs(ctx):
    """(family, d, with_fetch_case) — everything here also goes to Coq when
    len(d) <= COQ_MAX"""
    rng = ctx.rng
    out = []
    n_small = ctx.scale(4, 6)
    for d in M.small_strings(M.SMALL_ALPHABET, n_small):
        out.append(('small', d, len(d) <= ctx.scale(3, 5)))
    for _ in range(ctx.scale(1800, 10000)):   # a sample of the longer ones
        n = rng.randint(n_small + 1, n_small + 4)
        out.append(('small', bytes(rng.choice(M.SMALL_ALPHABET) for _ in range(n)), False))
    for tail in M.small_strings(b'-a\n ', ctx.scale(5, 6)):
        out.append(('multipart_small', MP_HEADER + tail, len(tail) <= 4))
    for _ in range(ctx.scale(500, 6000)):
        n = rng.randint(6, 12)
        out.append(('multipart_small',
                    MP_HEADER + bytes(rng.choice(b'--aa\n\n \r') for _ in range(n)), False))
    for d in SPECIALS:
        out.append(('special', d, True))
    k = 0
    for i, base in enumerate(BASES):
        full = (not ctx.quick) and i == 0
        for d in sweep(base, range(256) if full else (SWEEP_QUICK if ctx.quick else SWEEP_VALS),
                       range(256) if full else [10, 11, 13, 32, 45]):
            k += 1
            out.append(('byte_sweep', d, k % (4 if ctx.quick else 3) == 0))
    for _ in range(ctx.scale(320, 2500)):
        out.append(('generated', M.gen_message(rng), True))
    for _ in range(ctx.scale(150, 1000)):
        out.append(('raw', M.gen_raw(rng, 600), True))
    for _ in range(ctx.scale(6, 60)):         # big: monitors only
        out.append(('raw_big', M.gen_raw(rng, 65536) if rng.random() < 0.5 else
                    bytes(rng.randrange(256) for _ in range(rng.randint(3000, 65536))), False))
    for _ in range(ctx.scale(4, 30)):
        big = b''.join(M.gen_message(rng) for _ in range(rng.randint(20, 400)))[:65536]
        out.append(('generated_big', big, False))
    return out


def depth_of(tree) -> int:
    return 1 + max([depth_of(s) for s in tree['subs']], default=0)


# ------------------------------------------------------------ pure section
def section_pure(ctx, coq) -> None:
    rng = ctx.rng
    fams: dict = {}
    depth_hist: dict = {}
    len_hist: dict = {}
    parse_cases, parse_in = [], []
    fetch_cases, fetch_in = [], []
    tiny_parse, tiny_in = [], []
    lines_cases, lines_in = [], []
    parts_cases, parts_in = [], []
    seen = set()
    raised = 0
    for fam, d, want_fetch in pure_inputs(ctx):
        if d in seen:
            continue
        seen.add(d)
        fams[fam] = fams.get(fam, 0) + 1
        try:
            obs = M.observe_parse(d)
        except (Exception, RecursionError) as exc:
            # MessageContent.parse raises: APPEND does not accept this literal
            # (a matter for C06), the statement says nothing about it
            raised += 1
            lst = ctx.extra.setdefault('parse_raised', [])
            if len(lst) < 12:
                lst.append({'exc': repr(exc)[:120], 'len': len(d), 'data': d[:80].hex()})
            continue
        tree = obs['tree']
        dep = depth_of(tree)
        depth_hist[dep] = depth_hist.get(dep, 0) + 1
        b = min(len(d).bit_length(), 17)
        len_hist[b] = len_hist.get(b, 0) + 1
        ctx.count((fam, d), nontrivial=len(d) > 0)
        res = M.pure_monitor(ctx, d, obs, rng)
        if len(d) > COQ_MAX:
            continue
        tiny = fam in ('small', 'multipart_small')
        try:
            enc = M.enc_parse_case(d, obs)
        except AssertionError as exc:     # an offset the model has no term for
            ctx.disagreement('parse', {'input': d.hex()[:2000], 'unencodable': repr(exc)})
            continue
        (tiny_parse if tiny else parse_cases).append(enc)
        (tiny_in if tiny else parse_in).append(d)
        if fam in ('raw', 'generated') and len(lines_cases) < ctx.scale(150, 1500):
            lines_cases.append(M.enc_lines_case(d, obs['lines']))
            lines_in.append(d)
        if want_fetch:
            loaded = res['loaded']
            qs = [('QBody', [], None, res['full']), ('QHeader', [], None, res['hdr']),
                  ('QText', [], None, res['txt'])] + res['partials']
            qs += res['fields'][:2] if tiny else res['fields']
            qs += res['binary']
            paths = [[1]] if tiny else M.tree_paths(tree, 8 if fam == 'byte_sweep' else 14)
            if not tiny:
                for p, _node in M.identity_paths(tree, 2):
                    qs.append(('QBinary', p, None, M.direct_query(loaded, 'QBinary', p, None)))
                    qs.append(('QBinarySize', p, None,
                               M.direct_query(loaded, 'QBinarySize', p, None)))
                for p in paths[:3]:
                    names = M.gen_field_names(rng)
                    inv = rng.random() < 0.5
                    qs.append((('QFields', inv, names), p, None,
                               M.direct_query(loaded, ('QFields', inv, names), p, None)))
            for p in paths:
                for kind in ('QBody', 'QMime', 'QHeader', 'QText'):
                    if tiny and kind in ('QHeader', 'QText'):
                        continue
                    qs.append((kind, p, None, M.direct_query(loaded, kind, p, None)))
                if not tiny and rng.random() < 0.3:
                    full = M.direct_query(loaded, 'QBody', p, None)
                    o, n = rng.randint(0, len(full) + 1), rng.randint(0, len(full) + 2)
                    qs.append(('QBody', p, (o, n), M.direct_query(loaded, 'QBody', p, (o, n))))
            try:
                fetch_cases.append(M.enc_fetch_case(d, obs['table'], res['size'], res['bs'], qs,
                                                    obs['nonid']))
                fetch_in.append(d)
            except AssertionError as exc:
                ctx.disagreement('fetch_direct', {'input': d.hex()[:2000],
                                                  'unencodable': repr(exc)})
        # _find_parts on its own, with boundaries the message does not declare
        if fam == 'generated' and tree['subs'] and len(parts_cases) < ctx.scale(150, 800):
            from pymap.mime import MessageBody
            bnd = rng.choice([b'b', b'XX', b'a-b', b'--', b'c'])
            lines = obs['lines']
            got = MessageBody._find_parts(d, memoryview(d), lines, bnd)
            parts_cases.append(M.enc_parts_case(d, bnd, lines, [[tuple(l) for l in p] for p in got]))
            parts_in.append((d, bnd))
    if not ctx.quick:
        # every string of length 7 over the small alphabet: top-level clauses only
        from pymap.mime import MessageContent
        n7 = 0
        for t in M.itertools.product(M.SMALL_ALPHABET, repeat=7):
            d = bytes(t)
            c = MessageContent.parse(d)
            n7 += 1
            if bytes(c) != d or bytes(c.header) + bytes(c.body) != d or len(c) != 7:
                ctx.failure('body_verbatim', 'content / header+body / size differ from d',
                            {'data': d.hex(), 'len': 7, 'level': 'direct'},
                            {'kind': 'content_not_verbatim', 'level': 'direct'})
        fams['small_len7_monitor_only'] = n7
        ctx.evaluations += n7
    ctx.extra['input_distribution'] = {
        'families': fams, 'nesting_depth': {str(k): v for k, v in sorted(depth_hist.items())},
        'length_log2': {str(k): v for k, v in sorted(len_hist.items())},
        'parse_raised': raised}
    ctx.sample({'generated_message': parse_in[-1].decode('latin-1')[:300] if parse_in else ''})

    coq.submit('parse_small', 'parse_case', tiny_parse, 'chk_parse', tiny_in, shard=600, jobs=6)
    coq.submit('parse', 'parse_case', parse_cases, 'chk_parse', parse_in, shard=120, jobs=6)
    coq.submit('fetch_direct', 'fetch_case', fetch_cases, 'chk_fetch', fetch_in, shard=100, jobs=6)
    coq.submit('lines', 'bytes * list line', lines_cases, 'chk_lines', lines_in, shard=150, jobs=2)
    coq.submit('parts', 'parts_case', parts_cases, 'chk_parts', parts_in, shard=150, jobs=2)


# --------------------------------------------------------- literal section
def section_literal(ctx, coq) -> None:
    from pymap.parsing.primitives import LiteralString
    from pymap.mime import MessageContent
    rng = ctx.rng
    ns = list(range(0, 130)) + [999, 1000, 1001, 4095, 4096, 4097, 9999, 10000, 65535, 65536,
                                99999, 100000, 1048576]
    ns += [rng.randint(0, 200000) for _ in range(ctx.scale(40, 600))]
    cases = []
    cases8 = []
    keep = []
    for n in ns:
        payload = bytes(rng.randrange(256) for _ in range(min(n, 64))) * (n // 64 + 1)
        payload = payload[:n]
        for obj in (payload, MessageContent.parse(payload)):
            if len(obj) != n:
                continue     # content not verbatim: reported by the other monitors
            printed = bytes(LiteralString(obj))
            ctx.count(('literal', n, type(obj).__name__))
            try:
                val, pos = M.read_sexp(printed, 0)
                ok = val == ('lit', payload, n) and pos == len(printed)
            except M.RespError:
                ok = False
            if not ok:
                ctx.failure('literal_len', f'LiteralString of {n} octets is not read back',
                            {'n': n, 'printed_head': printed[:40].hex()},
                            {'kind': 'literal_prefix_wrong'})
            prefix = printed[:len(printed) - n] if n else printed
            cases.append(T.pair(T.N(n), M.enc_bytes(prefix)))
            keep.append(n)
            printed8 = bytes(LiteralString(obj, True))       # literal8 of BINARY items
            try:
                val, pos = M.read_sexp(printed8, 0)
                ok = val == ('lit', payload, n) and pos == len(printed8) and printed8[:1] == b'~'
            except M.RespError:
                ok = False
            if not ok:
                ctx.failure('literal_len', f'binary LiteralString of {n} octets is not read back',
                            {'n': n, 'printed_head': printed8[:40].hex()},
                            {'kind': 'literal8_prefix_wrong'})
            cases8.append(T.pair(T.N(n), M.enc_bytes(printed8[:len(printed8) - n] if n
                                                     else printed8)))
    coq.submit('literal', 'N * bytes', cases, 'chk_literal', keep, shard=400, jobs=2)
    coq.submit('literal8', 'N * bytes', cases8, 'chk_literal8', keep, shard=400, jobs=2)


# ------------------------------------------------------------- e2e section
def e2e_inputs(ctx, backend: str):
    rng = ctx.rng
    out = []
    dict_b = backend == 'dict'
    for d in SPECIALS:
        out.append(('special', d))
    for d in M.small_strings(M.SMALL_ALPHABET, (3 if ctx.quick else 4) if dict_b else 2):
        out.append(('small', d))
    vals = [0, 10, 13, 32, 45, 58, 255]
    swept = [d for base in BASES for d in sweep(base, vals, [10, 13, 32, 45])]
    rng.shuffle(swept)
    for d in swept[:ctx.scale(120, 500) if dict_b else ctx.scale(25, 80)]:
        out.append(('byte_sweep', d))
    for _ in range(ctx.scale(220, 1000) if dict_b else ctx.scale(50, 150)):
        out.append(('generated', M.gen_message(rng)))
    for _ in range(ctx.scale(30, 150) if dict_b else ctx.scale(70, 200)):
        out.append(('clean_lf', M.gen_clean_lf(rng)))
    for _ in range(ctx.scale(80, 300) if dict_b else ctx.scale(20, 60)):
        out.append(('raw', M.gen_raw(rng, 600)))
    for _ in range(ctx.scale(4, 30) if dict_b else ctx.scale(2, 6)):
        out.append(('raw_big', bytes(rng.randrange(256) for _ in range(rng.randint(3000, 65536)))))
    out.append(('raw_big', bytes(rng.choice(b'ab\r\n') for _ in range(65536))))
    return out


def all_identity(tree) -> bool:
    return tree['identity'] and all(all_identity(s) for s in tree['subs'])


async def one_message(ctx, e, d: bytes, fam: str, rng, coq_cases, coq_inputs,
                      with_coq: bool) -> str:
    backend = e.backend
    rep = {'data': d.hex() if len(d) <= 4096 else d[:4096].hex() + '...', 'len': len(d),
           'backend': backend, 'family': fam}
    r = await e.append(d)
    if not e.tagged_ok(r, e.last_tag):
        lst = ctx.extra.setdefault('append_not_accepted', [])
        if len(lst) < 12:
            lst.append({'backend': backend, 'reply': r[-120:].decode('latin-1'),
                        'exc': repr(e.conn.exc)[:200], 'data': d[:600].hex()})
        return 'append_rejected'
    # maildir stores and reads the literal byte for byte since abfc543: the
    # same byte-exact expectation as for the dict backend
    expect_loaded = None
    served = d if expect_loaded is None else expect_loaded['append']
    binary = None
    try:
        tree = M.observe_parse(d)['tree']
        paths = M.tree_paths(tree, 8)
        stree = tree if served == d else M.observe_parse(served)['tree']
        # BINARY only where the implementation has a decoder (an unknown
        # Content-Transfer-Encoding makes FETCH BINARY fail: C06's finding)
        if all_identity(stree):
            binary = [[]] + [p for p, _n in M.identity_paths(stree, 2)]
    except (Exception, RecursionError):
        paths = [[1]]
    fields = (M.gen_field_names(rng), M.gen_field_names(rng))
    partials, seen_o = [], set()
    for o, n in M.gen_partials(rng, len(d), 8):
        if n >= 1 and o not in seen_o and len(partials) < 4:
            seen_o.add(o)
            partials.append((o, n))

    async def examine(where: str):
        st, _raw = await e.structure(b'*')
        bs = None
        if isinstance(st, str):
            # BODYSTRUCTURE needs stdlib email to digest every header; when it
            # cannot, that is C06/C07 territory — recorded, not judged here
            ctx.extra.setdefault('structure_unavailable', []).append(
                {'why': st[:160], 'data': d[:120].hex(), 'backend': backend})
            if e.conn.closed:
                return None
        else:
            try:
                bs = M.bs_of_sexp(st[b'BODYSTRUCTURE'])
                bs2 = M.bs_of_sexp(st[b'BODY'])
            except (M.RespError, KeyError, IndexError) as exc:
                ctx.failure('part_octets', f'[{backend}/{where}] BODYSTRUCTURE not readable: {exc}',
                            dict(rep, where=where), {'kind': 'structure_unreadable'})
                bs = None
            else:
                if bs != bs2:
                    ctx.failure('part_octets', f'[{backend}/{where}] BODY and BODYSTRUCTURE '
                                'announce different sizes', dict(rep, where=where),
                                {'kind': 'body_vs_bodystructure'})
        parts = [list(p) for p in paths]
        if bs is not None:
            for p, _n in M.rfc_parts(bs)[:12]:
                if p not in parts:
                    parts.append(p)
        for p in binary or ():
            if p and p not in parts:
                parts.append(p)
        items, raw = await e.fetch_all(b'*', parts, partials, fields, binary)
        if isinstance(items, str):
            ctx.failure('body_verbatim', f'[{backend}/{where}] {items}', dict(rep, where=where),
                        {'kind': 'fetch_failed', 'where': where, 'backend': backend})
            return None
        eff = M.check_items(ctx, d, items, partials, rep, where, backend, expect_loaded,
                            fields, binary)
        if bs is not None and eff is not None:
            def key(p, suffix=b''):
                return b'BODY[' + b'.'.join(b'%d' % i for i in p) + suffix + b']'
            M.part_octets_monitor(ctx, bs, dict(rep, where=where),
                                  lambda p: M.lit(items.get(key(p))) or b'',
                                  lambda p: M.lit(items.get(key(p, b'.MIME'))) or b'',
                                  'imap')
        if eff is not None:
            await M.check_separately(ctx, e, b'*', items, st, eff, rep, where,
                                     bool(binary) and M.spec_identity_cte(
                                         M.lit(items.get(b'BODY[HEADER]')) or b'') is True)
            if e.conn.closed:
                return None
        return {'items': items, 'bs': bs, 'eff': eff, 'parts': parts}

    orig = await examine('append')
    if orig is None:
        return 'fetch_failed'
    # correspondence on what the server delivered
    eff = orig['eff']
    if with_coq and eff is not None and len(eff) <= COQ_MAX and eff:
        try:
            eobs = M.observe_parse(eff)
            table = eobs['table']
        except (Exception, RecursionError):
            table = None
        if table is not None:
            items = orig['items']
            qs = [('QBody', [], None, M.lit(items[b'BODY[]'])),
                  ('QHeader', [], None, M.lit(items.get(b'BODY[HEADER]')) or b''),
                  ('QText', [], None, M.lit(items.get(b'BODY[TEXT]')) or b'')]
            for o, n in partials:
                qs.append(('QBody', [], (o, n), M.lit(items.get(b'BODY[]<%d>' % o)) or b''))
            for p in orig['parts']:
                ps = b'.'.join(b'%d' % i for i in p)
                qs.append(('QBody', p, None, M.lit(items.get(b'BODY[' + ps + b']')) or b''))
                qs.append(('QMime', p, None, M.lit(items.get(b'BODY[' + ps + b'.MIME]')) or b''))
            qs.append(('QHeader', [], None, M.lit(items.get(b'RFC822.HEADER')) or b''))
            qs.append(('QText', [], None, M.lit(items.get(b'RFC822.TEXT')) or b''))
            for inv, names, prefix in ((False, fields[0], b'BODY[HEADER.FIELDS ('),
                                       (True, fields[1], b'BODY[HEADER.FIELDS.NOT (')):
                got = M.lit(M.item_with_prefix(items, prefix))
                if got is not None:
                    qs.append((('QFields', inv, names), [], None, got))
            for p in binary or ():
                ps = b'.'.join(b'%d' % i for i in p)
                got = M.lit(items.get(b'BINARY[' + ps + b']'))
                sz = items.get(b'BINARY.SIZE[' + ps + b']')
                if got is not None:
                    qs.append(('QBinary', p, None, got))
                if isinstance(sz, tuple) and sz[1].isdigit() and int(sz[1]) < 65536:
                    qs.append(('QBinarySize', p, None, int(sz[1])))
            size = items.get(b'RFC822.SIZE')
            size = int(size[1]) if isinstance(size, tuple) and size[1].isdigit() else 0
            try:
                coq_cases.append(M.enc_fetch_case(eff, table, size, orig['bs'], qs,
                                                  eobs['nonid']))
                coq_inputs.append(d)
            except AssertionError as exc:
                ctx.disagreement(f'fetch_imap_{backend}', {'input': d.hex()[:2000],
                                                           'unencodable': repr(exc)})
    # other messages with the same checksum / nearly the same bytes are stored
    # next to this one while it is still there: each must come back as its own
    # literal (byte-exactness is per message, whatever a store keys content by)
    if rng.random() < (0.4 if backend == 'dict' else 0.25) and len(d) <= 8192:
        await siblings_step(ctx, e, d, rep, rng, partials, expect_loaded)
        if e.conn.closed or e.conn.exc is not None:
            # an APPEND of a sibling that the backend does not accept ended the
            # connection (maildir + 8-bit multipart: C06 territory)
            return 'sibling_append_lost_connection'
    # COPY and MOVE, then look at the copies
    status = 'ok'
    do_copy = e.copy_ok
    if do_copy:
        r = await e.cmd(b'COPY * CpDst')
        if not e.tagged_ok(r, e.last_tag):
            ctx.failure('copy_verbatim', f'[{backend}] COPY failed: {r[:120]!r}', rep,
                        {'kind': 'copy_failed', 'backend': backend})
            do_copy = False
    r = await e.cmd(b'MOVE * MvDst')
    moved = e.tagged_ok(r, e.last_tag)
    if not moved:
        ctx.failure('copy_verbatim', f'[{backend}] MOVE failed: {r[:120]!r}', rep,
                    {'kind': 'move_failed', 'backend': backend})
        await e.cleanup(None)
    for where, box, on in (('copy', b'CpDst', do_copy), ('move', b'MvDst', moved)):
        if not on:
            continue
        r = await e.cmd(b'SELECT ' + box)
        got = await examine(where)
        if got is not None and got['eff'] is not None:
            same = all(M.lit(got['items'].get(k)) == M.lit(v) for k, v in orig['items'].items()
                       if M.lit(v) is not None)
            if not same or got['bs'] != orig['bs'] or \
                    got['items'].get(b'RFC822.SIZE') != orig['items'].get(b'RFC822.SIZE'):
                kind = 'copy_differs'
                if expect_loaded is not None and expect_loaded[where] != d:
                    kind = 'maildir_reserialised'
                ctx.failure('copy_verbatim' if kind == 'copy_differs' else 'maildir_verbatim',
                            f'[{backend}/{where}] the {where} does not deliver the same data '
                            'items as the original', dict(rep, where=where),
                            {'kind': kind, 'where': where, 'backend': backend})
        await e.cleanup(None)
    await e.cmd(b'SELECT INBOX')
    await e.cleanup(None)
    return status


async def siblings_step(ctx, e, d: bytes, rep, rng, partials, expect_d) -> None:
    """INBOX holds exactly the message d (sequence number 1).  Store its
    near-siblings, check each (and the COPY of the checksum-colliding ones)
    byte-exactly against its own literal, check d again, remove the siblings."""
    backend = e.backend
    stats = ctx.extra.setdefault('siblings', {})
    copied = False
    stored = 0
    for kind, s in M.near_siblings(d, rng):
        r = await e.append(s)
        if not e.tagged_ok(r, e.last_tag):
            lst = ctx.extra.setdefault('append_not_accepted', [])
            if len(lst) < 12:
                lst.append({'backend': backend, 'reply': r[-120:].decode('latin-1'),
                            'exc': repr(e.conn.exc)[:200], 'data': s[:600].hex()})
            if e.conn.closed or e.conn.exc is not None:
                return
            continue
        stored += 1
        stats[kind] = stats.get(kind, 0) + 1
        ctx.count((backend, 'sibling', kind, s))
        rep_s = {'data': s.hex() if len(s) <= 4096 else s[:4096].hex() + '...', 'len': len(s),
                 'backend': backend, 'family': 'sibling:' + kind,
                 'stored_before': rep['data'], 'sequence': ['APPEND stored_before', 'APPEND data']}
        expect_s = None
        parts_ok = [(o, n) for o, n in partials if n >= 1]
        items, _raw = await e.fetch_all(b'*', [], parts_ok)
        if isinstance(items, str):
            ctx.failure('body_verbatim', f'[{backend}/sibling] {items}', rep_s,
                        {'kind': 'fetch_failed', 'where': 'sibling', 'backend': backend})
            if e.conn.closed:
                return
            continue
        M.check_items(ctx, s, items, parts_ok, rep_s, 'sibling', backend, expect_s)
        if kind == 'adler_collision' and e.copy_ok and not copied:
            copied = True
            r = await e.cmd(b'COPY * CpDst')
            if e.tagged_ok(r, e.last_tag):
                await e.cmd(b'SELECT CpDst')
                items, _raw = await e.fetch_all(b'*', [], parts_ok)
                if not isinstance(items, str):
                    M.check_items(ctx, s, items, parts_ok, rep_s, 'sibling_copy', backend, expect_s)
                await e.cleanup(None)
                await e.cmd(b'SELECT INBOX')
    # the first message is still what it was
    parts_ok = [(o, n) for o, n in partials if n >= 1]
    items, _raw = await e.fetch_all(b'1', [], parts_ok)
    if not isinstance(items, str):
        M.check_items(ctx, d, items, parts_ok, dict(rep, after='siblings appended'),
                      'original_again', backend, expect_d)
    if stored:
        await e.cmd(b'STORE 2:%d +FLAGS.SILENT (\\Deleted)' % (1 + stored))
        await e.cmd(b'EXPUNGE')


async def e2e_run(ctx, backend: str, inputs, coq_cases, coq_inputs):
    rng = ctx.rng
    e = await M.E2E(backend).start()
    stats: dict = {}
    try:
        if backend == 'maildir':
            # COPY on maildir: owned by the maildir builder (body dropped by
            # get_message_metadata); probe it and leave it out while broken
            probe = b'a: b\n\nc\n'
            await e.append(probe)
            await e.cmd(b'COPY * CpDst')
            await e.cmd(b'SELECT CpDst')
            items, _ = await e.fetch_items(b'*', [b'BODY.PEEK[]'])
            got = None if isinstance(items, str) else M.lit(items.get(b'BODY[]'))
            if got != probe:
                e.copy_ok = False
                ctx.extra['maildir_copy_skipped'] = (
                    f'maildir COPY of {probe!r} delivers {got!r}: defect of '
                    'MailboxData.copy (get_message_metadata drops the body), owned by the '
                    'maildir builder; COPY is left out of the maildir monitor until fixed')
            await e.cleanup(None)
            await e.cmd(b'SELECT INBOX')
            await e.cleanup(None)
        n_coq = 0
        copy_ok = e.copy_ok
        for fam, d in inputs:
            if not d:
                continue
            if e.conn.closed or e.conn.exc is not None:
                # only an APPEND that was not accepted may end a connection here
                # (every other loss was reported by one_message)
                stats['reconnect'] = stats.get('reconnect', 0) + 1
                e.close()
                e = await M.E2E(backend).start()
                e.copy_ok = copy_ok
            with_coq = n_coq < ctx.scale(200, 1200) and fam != 'small'
            st = await one_message(ctx, e, d, fam, rng, coq_cases, coq_inputs, with_coq)
            n_coq = len(coq_cases)
            stats[st] = stats.get(st, 0) + 1
            ctx.count((backend, d), nontrivial=st == 'ok')
    finally:
        e.close()
    return stats


def section_e2e(ctx, backend: str, coq) -> None:
    from ..pymap_env import run
    inputs = e2e_inputs(ctx, backend)
    coq_cases, coq_inputs = [], []
    stats = run(e2e_run(ctx, backend, inputs, coq_cases, coq_inputs), timeout=20000)
    ctx.extra.setdefault('imap_level', {})[backend] = {'messages': len(inputs), 'status': stats}
    coq.submit(f'fetch_imap_{backend}', 'fetch_case', coq_cases, 'chk_fetch', coq_inputs,
               shard=100, jobs=4)


# --------------------------------------------------------------------- run
def run(ctx) -> None:
    ctx.rule = ('inputs from one PRNG (seed): every string over {a,SP,CR,LF,:,-} up to length '
                '4 plus 3000 sampled of length 5-8 (thorough: up to 6 plus 10000 sampled, and '
                'every string of length 7 through the top-level monitor); a multipart header '
                'followed by every string over {-,a,LF,SP} up to length 5 (6) plus a sample; '
                'selected (thorough: all) byte values substituted/inserted at every position of '
                'three base messages; grammar-generated messages (header/body, CRLF/LF/mixed line '
                'ends, NUL, 8-bit, folded headers, missing or whitespace-only separator, no final '
                'newline, multipart and message/rfc822 nested up to depth 4, 15% point-mutated); '
                'clean LF-only messages (maildir); raw random strings (0..600 octets for Coq, up '
                'to 64 KiB for the monitors). non-trivial = non-empty input (direct level) / '
                'accepted by APPEND and fully fetched (imap level); distinct = by (level, input)')
    ctx.assumptions += [
        'stdlib email decides maintype/subtype/boundary of a Content-Type header; the model '
        'takes these decisions as data observed from the implementation',
        'maildir: mailbox.Maildir.get_bytes replaces os.linesep by LF when reading (function rd '
        'of the model, the identity on POSIX); checked end to end by the byte-exact monitor',
        'CPython bytes/memoryview slicing and bytes.find are the semantics of the implementation side',
    ]
    ctx.check_proofs(['Mime/MimeCheck'])
    import time
    timing = ctx.extra.setdefault('timing_s', {})
    t = time.time()
    timing['proofs'] = round(t - ctx.t0, 1)
    coq = CoqJobs(ctx)
    try:
        for name, fn in (('direct', lambda: section_pure(ctx, coq)),
                         ('literal', lambda: section_literal(ctx, coq)),
                         ('imap_dict', lambda: section_e2e(ctx, 'dict', coq)),
                         ('imap_maildir', lambda: section_e2e(ctx, 'maildir', coq))):
            fn()
            timing[name] = round(time.time() - t, 1)
            t = time.time()
    finally:
        coq.finish()
        timing['waiting_for_coq'] = round(time.time() - t, 1)


def replay(ctx, obj) -> int:
    """./check C03 --replay FILE : run the monitors on the recorded literal"""
    from ..pymap_env import run as arun
    data = obj.get('data', '')
    if data.endswith('...'):
        print('literal was truncated in the replay file (first 4096 octets kept)')
        data = data[:-3]
    d = bytes.fromhex(data)
    print('literal:', d[:200])
    if obj.get('stored_before'):
        # a failure that needs another message stored first
        first = bytes.fromhex(obj['stored_before'].rstrip('.'))
        backend = obj.get('backend', 'dict')

        async def pair():
            e = await M.E2E(backend).start()
            try:
                await e.append(first)
                await e.append(d)
                items, _ = await e.fetch_all(b'*', [], [])
                if isinstance(items, str):
                    print('fetch failed:', items)
                    return
                exp = None
                M.check_items(ctx, d, items, [], dict(obj), 'sibling', backend, exp)
                print('stored first:', first[:120])
                print('BODY[] of the second:', (M.lit(items.get(b'BODY[]')) or b'')[:120])
            finally:
                e.close()
        arun(pair())
        for v in ctx.violations:
            print('FAILS:', v['clause'], '-', v['what'])
        print(json.dumps({'violations': len(ctx.violations), 'known': sorted(ctx.known_hits)}))
        return 1 if ctx.violations else 0
    obs = M.observe_parse(d)
    M.pure_monitor(ctx, d, obs, ctx.rng)
    for backend in ([obj['backend']] if obj.get('backend') in ('dict', 'maildir')
                    else ['dict', 'maildir']):
        arun(e2e_run(ctx, backend, [("replay", d)], [], []))
    for v in ctx.violations:
        print('FAILS:', v['clause'], '-', v['what'])
    for k, hit in ctx.known_hits.items():
        print('KNOWN:', k, '-', hit['first'])
    print(json.dumps({'violations': len(ctx.violations), 'known': sorted(ctx.known_hits)}))
    return 1 if ctx.violations else 0
