"""C04 — UIDs are strictly increasing, never reused, and truthfully reported.

Model coq/theories/UidRecent/Model.v, theorems coq/theories/Props/C04.v;
correspondence and monitors in harness/uidrecent.py (shared with C17): the
model replays every generated multi-connection history against the answers
of the real server, comparing statuses, APPENDUID/COPYUID (byte-exact uid
sets), UIDNEXT, UIDVALIDITY identity, EXISTS/EXPUNGE announcements and
`UID FETCH 1:*` dumps (\\Recent data are left to C17).
Monitors: uid_monotone, uid_reuse, uidnext_low, uidnext_high,
appenduid_truth, copyuid_truth, copyuid_shape, stale_selection.
"""
from .. import uidrecent


def run(ctx) -> None:
    uidrecent.run_check(ctx, 'C04')


def replay(ctx, obj) -> int:
    return uidrecent.replay_history(ctx, obj)
